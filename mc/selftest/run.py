"""Self-tests of the exploration machinery: toy systems with planted bugs.

Each must be found (with the right shortest counterexample) or must fail loudly;
a machinery that has never failed has not been shown to work.
"""
from __future__ import annotations

import os
import sys

VERIF = os.path.dirname(os.path.dirname(os.path.dirname(os.path.abspath(__file__))))
if VERIF not in sys.path:
    sys.path.insert(0, VERIF)

import torch  # noqa: E402

from mc.core import explore  # noqa: E402
from mc.core.runner import Ctx, HarnessError, setup_process  # noqa: E402


def test_bfs_shortest_counterexample():
    # toy counter with ops inc/dbl/reset; planted bug: value 6 is "bad".
    ops = ["inc", "dbl", "reset"]

    def build(h):
        v = 1
        for op in h:
            v = {"inc": v + 1, "dbl": v * 2, "reset": 1}[op]
        return min(v, 50)

    found = []

    def on_state(h, w):
        if w == 6 and not found:
            found.append(list(h))

    res = explore.bfs([[]], ops, build, canon=lambda w: w, on_state=on_state)
    assert res.fixpoint and res.states == 50, (res.states, res.fixpoint)
    # shortest way to 6 from 1: inc,inc,dbl (1->2->3->6) or inc, dbl(4)... 1->2->3->6 = 3 ops
    assert found and len(found[0]) == 3, found
    assert build(found[0]) == 6


def test_all_paths_prefix_groups():
    p = explore.all_paths([1.0, 2.0, 3.0], 3)
    assert p.shape == (27, 3)
    assert len({tuple(r) for r in p.tolist()}) == 27
    # an adapted functional passes, a look-ahead functional is caught at the right step
    adapted = p.cummax(1).values
    assert explore.check_prefix_measurable(adapted, 3, 3) == []
    peek = p.max(1, keepdim=True).values.expand(-1, 3)
    bad = explore.check_prefix_measurable(peek, 3, 3)
    assert bad and bad[0][0] == 0, bad
    pinned = explore.all_paths([1.0, 2.0], 3, first=1.5)
    assert pinned.shape == (4, 3) and (pinned[:, 0] == 1.5).all()
    assert explore.prefix_groups(2, 3, 0, pinned_first=True) == 4


def test_owned_rng():
    from mc.core.rngscript import OwnedRNG
    from pfhedge.stochastic import generate_brownian, generate_cir
    z = torch.tensor([[9.0, 1.0, -1.0]], dtype=torch.float64)
    with OwnedRNG({"randn": [z]}) as rng:
        out = generate_brownian(1, 3, sigma=1.0, dt=0.25, dtype=torch.float64)
    assert torch.equal(out, torch.tensor([[0.0, 0.5, 0.0]], dtype=torch.float64)), out
    assert rng.requests("randn")[0]["shape"] == (1, 3)
    # script underrun must fail loudly
    try:
        with OwnedRNG({"randn": []}):
            generate_brownian(1, 3)
    except HarnessError:
        pass
    else:
        raise AssertionError("script underrun not detected")
    # unowned site must fail loudly
    try:
        with OwnedRNG({"randn_like": [torch.zeros(1, 2)]}):
            generate_cir(1, 2)   # also draws rand_like
    except HarnessError:
        pass
    else:
        raise AssertionError("unowned draw not detected")
    # a draw that bypasses the patches changes the generator state: detected
    real_randn = torch.randn
    try:
        with OwnedRNG({}):
            torch.manual_seed(0)
            torch.Tensor.normal_(torch.empty(3))
    except HarnessError:
        pass
    else:
        raise AssertionError("generator-state change not detected")
    assert torch.randn is real_randn
    # unconsumed answers
    try:
        with OwnedRNG({"randn": [z, z]}):
            generate_brownian(1, 3, dtype=torch.float64)
    except HarnessError:
        pass
    else:
        raise AssertionError("unconsumed answer not detected")


def test_ctx_violation_and_blame():
    import types
    mod = types.SimpleNamespace(FAMILIES={}, __name__="toy")

    def fam(ctx, block):
        from pfhedge.nn.functional import d1
        ctx.tick(1, nontrivial=1)
        d1(torch.tensor(0.0), torch.tensor(-1.0), torch.tensor(0.2))  # raises ValueError inside pfhedge

    def fam2(ctx, block):
        raise KeyError("harness bug")

    mod.FAMILIES = {"fam": fam, "fam2": fam2}
    ctx = Ctx("T00", "quick", 0, module=mod)
    ctx.run("fam", {"x": 1})
    assert list(ctx.violations) and list(ctx.violations)[0][1] == "raises:ValueError", ctx.violations
    try:
        ctx.run("fam2", {})
    except KeyError:
        pass
    else:
        raise AssertionError("harness exception swallowed")


def test_family_timeout():
    import types
    mod = types.SimpleNamespace(FAMILIES={}, __name__="toy")

    def spin(ctx, block):
        ctx.tick(1, nontrivial=1)
        while True:      # a tree under test that never terminates (python-level loop)
            pass

    mod.FAMILIES = {"spin": spin}
    os.environ["VERIF_FAMILY_TIMEOUT"] = "1"
    try:
        ctx = Ctx("T00", "quick", 0, module=mod)
        ctx.run("spin", {})
    finally:
        del os.environ["VERIF_FAMILY_TIMEOUT"]
    assert list(ctx.violations) == [("family:spin", "hang:family_timeout")], ctx.violations


def main():
    setup_process()
    tests = [v for k, v in sorted(globals().items()) if k.startswith("test_")]
    for t in tests:
        t()
        print("selftest ok:", t.__name__)
    return 0


if __name__ == "__main__":
    sys.exit(main())

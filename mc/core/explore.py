"""Exploration engines: product spaces (grid), path trees, explicit-state BFS."""
from __future__ import annotations

import collections
import itertools

import torch


# ----------------------------------------------------------------------------
# grid
# ----------------------------------------------------------------------------

def product_dicts(**alphabets):
    """All assignments of a product of named alphabets, simplest (first symbols) first."""
    names = list(alphabets)
    for combo in itertools.product(*[alphabets[n] for n in names]):
        yield dict(zip(names, combo))


def all_sequences(alphabet, length):
    """All sequences over ``alphabet`` of given length, itertools.product order
    (first symbol varies slowest) as a python list of tuples."""
    return list(itertools.product(alphabet, repeat=length))


def all_paths(alphabet, T, dtype=torch.float64, first=None):
    """Tensor (|A|^T, T) with *every* path over the alphabet (|A|^(T-1) when the
    first column is pinned to ``first``).  Row order = itertools.product order, so
    paths sharing a prefix of length t+1 form contiguous groups of |A|^(T-1-t)."""
    a = torch.tensor(list(alphabet), dtype=dtype)
    n = len(alphabet)
    if first is None:
        grids = torch.cartesian_prod(*[a] * T) if T > 1 else a.unsqueeze(-1)
        return grids.reshape(n ** T, T).contiguous()
    if T == 1:
        return torch.tensor([[first]], dtype=dtype)
    rest = torch.cartesian_prod(*[a] * (T - 1)) if T > 2 else a.unsqueeze(-1)
    rest = rest.reshape(n ** (T - 1), T - 1)
    col0 = torch.full((rest.size(0), 1), first, dtype=dtype)
    return torch.cat([col0, rest], dim=1).contiguous()


def prefix_groups(n_symbols, T, t, pinned_first=False):
    """For the row order of :func:`all_paths`: size of each contiguous group of rows
    sharing columns 0..t."""
    free = T - 1 if pinned_first else T
    used = t if pinned_first else t + 1
    return n_symbols ** (free - used)


def check_prefix_measurable(x, n_symbols, T, pinned_first=False, atol=0.0, rtol=0.0):
    """x: tensor (N, T, ...) evaluated on all_paths rows.  Returns the list of
    (t, row) where column t differs between two rows that share columns 0..t of the
    path (i.e. the value at t is not a function of the path prefix)."""
    bad = []
    N = x.size(0)
    for t in range(T):
        g = prefix_groups(n_symbols, T, t, pinned_first)
        if g <= 1:
            continue
        col = x[:, t]
        col = col.reshape(N // g, g, *col.shape[1:])
        ref = col[:, :1]
        diff = (col - ref).abs()
        tol = atol + rtol * ref.abs()
        same_nan = col.isnan() & ref.isnan()
        viol = (diff > tol) & ~same_nan
        viol = viol | (col.isnan() ^ ref.isnan().expand_as(col))
        if viol.any():
            idx = viol.reshape(N // g, g, -1).any(-1).nonzero()[0]
            bad.append((t, int(idx[0]) * g + int(idx[1])))
    return bad


# ----------------------------------------------------------------------------
# bfs
# ----------------------------------------------------------------------------

class BFSResult:
    def __init__(self):
        self.states = 0
        self.transitions = 0
        self.max_depth = 0
        self.fixpoint = False
        self.traces = 0
        self.seen = {}


def bfs(initial_histories, ops, build, canon, on_transition=None, enabled=None,
        max_depth=None, max_states=None, on_state=None):
    """Explicit-state breadth-first search over operation histories on real objects.

    ``build(history) -> world`` constructs fresh real objects and replays the
    history (live objects holding autograd graphs do not copy reliably).
    ``canon(world) -> hashable`` abstract state used for de-duplication.
    ``on_transition(history, op, world_before, world_after)`` checks one transition
    against the reference model (``world_before`` is rebuilt, not shared).
    ``enabled(world, op) -> bool`` preconditions.
    Runs to a fixpoint when ``max_depth`` is None.  The first counterexample found
    is a shortest one (BFS order; ops in the order given = simplest first).
    """
    res = BFSResult()
    frontier = collections.deque()
    for h in initial_histories:
        h = list(h)
        w = build(h)
        k = canon(w)
        if k not in res.seen:
            res.seen[k] = h
            frontier.append(h)
            if on_state:
                on_state(h, w)
    while frontier:
        hist = frontier.popleft()
        if max_depth is not None and len(hist) >= max_depth:
            continue
        for op in ops:
            before = build(hist)
            if enabled is not None and not enabled(before, op):
                continue
            after = build(hist + [op])
            res.transitions += 1
            if on_transition:
                on_transition(hist, op, before, after)
            k = canon(after)
            if k not in res.seen:
                res.seen[k] = hist + [op]
                res.max_depth = max(res.max_depth, len(hist) + 1)
                if on_state:
                    on_state(hist + [op], after)
                if max_states is not None and len(res.seen) >= max_states:
                    res.states = len(res.seen)
                    return res
                frontier.append(hist + [op])
    res.states = len(res.seen)
    res.fixpoint = max_depth is None
    return res


def all_histories(ops, depth):
    """Every op sequence of length <= depth, shortest first."""
    for d in range(depth + 1):
        for h in itertools.product(ops, repeat=d):
            yield list(h)

"""Owned RNG: every random draw pfhedge makes is answered from a script.

    with OwnedRNG({"randn": [z], "poisson": fn, ...}) as rng:
        out = generate_merton_jump(...)
    rng.log  -> list of requests (site, shape, dtype, params)

Sites: randn, randn_like, rand, rand_like, randperm, poisson, exponential, uniform, mvn.
An answer is a tensor (used as is, cast to the requested dtype/shape-checked) or a
callable ``(shape, dtype, request) -> tensor``; a site maps to a FIFO list of answers
or to one callable used for every call.  It is a hard error (HarnessError) if a draw
is requested that the script does not expect, or a scripted answer is left unconsumed,
or torch's global generator state changed during the block (an unowned draw).
"""
from __future__ import annotations

import torch

from mc.core.runner import HarnessError

_ORIG = {}


def _orig(name):
    return _ORIG.get(name) or getattr(torch, name)


class OwnedRNG:
    SITES = ("randn", "randn_like", "rand", "rand_like", "randperm", "poisson",
             "exponential", "uniform", "mvn")

    def __init__(self, answers, strict=True, check_generator=True):
        self.answers = {}
        for k, v in answers.items():
            if k not in self.SITES:
                raise HarnessError(f"unknown RNG site {k}")
            self.answers[k] = list(v) if isinstance(v, (list, tuple)) else v
        self.strict = strict
        self.check_generator = check_generator
        self.log = []
        self._saved = []

    # -- answering ----------------------------------------------------------
    def _answer(self, site, shape, dtype, device, params=None):
        req = {"site": site, "shape": tuple(shape), "dtype": dtype, "params": params or {},
               "index": sum(1 for r in self.log if r["site"] == site)}
        self.log.append(req)
        if site not in self.answers:
            raise HarnessError(f"unowned draw: {site} {tuple(shape)} {dtype} {params}")
        a = self.answers[site]
        if isinstance(a, list):
            if not a:
                raise HarnessError(f"script underrun at site {site} (call #{req['index']})")
            a = a.pop(0)
        if callable(a):
            a = a(tuple(shape), dtype, req)
        if not isinstance(a, torch.Tensor):
            a = torch.as_tensor(a)
        if tuple(a.shape) != tuple(shape):
            try:
                a = a.expand(tuple(shape))
            except RuntimeError:
                raise HarnessError(f"answer for {site} has shape {tuple(a.shape)}, requested {tuple(shape)}")
        # allocate like the real entry point, then fill
        out = torch.empty(tuple(shape), dtype=dtype, device=device)
        out.copy_(a)
        return out

    # -- replacements -------------------------------------------------------
    def _randn(self, *size, dtype=None, device=None, **kw):
        if len(size) == 1 and isinstance(size[0], (tuple, list, torch.Size)):
            size = tuple(size[0])
        return self._answer("randn", size, dtype or torch.get_default_dtype(), device)

    def _rand(self, *size, dtype=None, device=None, **kw):
        if len(size) == 1 and isinstance(size[0], (tuple, list, torch.Size)):
            size = tuple(size[0])
        return self._answer("rand", size, dtype or torch.get_default_dtype(), device)

    def _randn_like(self, input, **kw):
        return self._answer("randn_like", input.shape, kw.get("dtype") or input.dtype, input.device)

    def _rand_like(self, input, **kw):
        return self._answer("rand_like", input.shape, kw.get("dtype") or input.dtype, input.device)

    def _randperm(self, n, **kw):
        return self._answer("randperm", (n,), kw.get("dtype") or torch.int64, kw.get("device"))

    def __enter__(self):
        import torch.distributions as D
        self._state = torch.get_rng_state().clone()
        me = self

        _MISSING = object()

        def patch(obj, name, new):
            self._saved.append((obj, name, obj.__dict__.get(name, _MISSING)))
            setattr(obj, name, new)

        self._MISSING = _MISSING

        for name in ("randn", "rand", "randn_like", "rand_like", "randperm"):
            _ORIG.setdefault(name, getattr(torch, name))
        patch(torch, "randn", self._randn)
        patch(torch, "rand", self._rand)
        patch(torch, "randn_like", self._randn_like)
        patch(torch, "rand_like", self._rand_like)
        patch(torch, "randperm", self._randperm)

        def mk_sample(site, params_of):
            def sample(dist, sample_shape=torch.Size()):
                shape = dist._extended_shape(torch.Size(sample_shape))
                p = params_of(dist)
                dtype = next((v.dtype for v in p.values() if isinstance(v, torch.Tensor)),
                             torch.get_default_dtype())
                return me._answer(site, shape, dtype, None, {k: (v.detach().clone() if isinstance(v, torch.Tensor) else v)
                                                              for k, v in p.items()})
            return sample

        patch(D.Poisson, "sample", mk_sample("poisson", lambda d: {"rate": d.rate}))
        patch(D.Exponential, "sample", mk_sample("exponential", lambda d: {"rate": d.rate}))
        patch(D.Uniform, "sample", mk_sample("uniform", lambda d: {"low": d.low, "high": d.high}))
        patch(D.MultivariateNormal, "sample",
              mk_sample("mvn", lambda d: {"loc": d.loc, "covariance_matrix": d.covariance_matrix}))

        # default ``engine=torch.randn`` arguments are bound at definition time
        import pfhedge.stochastic.brownian as b
        import pfhedge.stochastic.merton_jump as mj
        import pfhedge.stochastic.kou_jump as kj
        import pfhedge.instruments.primary.merton_jump as imj
        import pfhedge.instruments.primary.kou_jump as ikj
        real_randn = _ORIG["randn"]
        fns = [b.generate_brownian, b.generate_geometric_brownian, mj.generate_merton_jump,
               kj.generate_kou_jump, imj.MertonJumpStock.__init__, ikj.KouJumpStock.__init__]
        for f in fns:
            d = f.__defaults__
            if d and any(x is real_randn for x in d):
                self._saved.append((f, "__defaults__", d))
                f.__defaults__ = tuple(self._randn if x is real_randn else x for x in d)
        return self

    def own_engine(self, instrument):
        """An instrument built outside the context stores the real torch.randn."""
        if getattr(instrument, "engine", None) is _ORIG.get("randn", torch.randn):
            instrument.engine = self._randn
        return instrument

    def __exit__(self, et, ev, tb):
        for obj, name, old in reversed(self._saved):
            if old is getattr(self, "_MISSING", None):
                delattr(obj, name)
            else:
                setattr(obj, name, old)
        self._saved = []
        if et is None:
            if self.check_generator and not torch.equal(self._state, torch.get_rng_state()):
                raise HarnessError("torch generator state changed inside OwnedRNG: some draw was not owned")
            if self.strict:
                left = {k: len(v) for k, v in self.answers.items() if isinstance(v, list) and v}
                if left:
                    raise HarnessError(f"scripted answers not consumed: {left}")
        return False

    def requests(self, site):
        return [r for r in self.log if r["site"] == site]


def gauss_hermite(n):
    """Nodes/weights for E[f(Z)], Z~N(0,1) (probabilists' Gauss-Hermite)."""
    import numpy as np
    x, w = np.polynomial.hermite_e.hermegauss(n)
    w = w / w.sum()
    return [float(v) for v in x], [float(v) for v in w]


def gauss_laguerre(n):
    """Nodes/weights for E[f(E)], E~Exp(1)."""
    import numpy as np
    x, w = np.polynomial.laguerre.laggauss(n)
    w = w / w.sum()
    return [float(v) for v in x], [float(v) for v in w]

"""Scripted market: real pfhedge instruments whose buffers are set by the harness.

Buffers are injected with ``register_buffer`` - the call ``simulate()`` itself
uses - so no pfhedge source change is needed.  The path axis carries *every* path
over a finite alphabet (see explore.all_paths), i.e. the whole filtration tree.
"""
from __future__ import annotations

import torch

from mc.core.explore import all_paths

DT = 1 / 256  # dyadic step: (T-1-i)*dt exact in floating point


def primary(kind="brownian", dtype=torch.float64, cost=0.0, dt=DT, **kw):
    import pfhedge.instruments as I
    if kind == "brownian":
        return I.BrownianStock(cost=cost, dt=dt, dtype=dtype, **kw)
    if kind == "heston":
        return I.HestonStock(cost=cost, dt=dt, dtype=dtype, **kw)
    if kind == "rough_bergomi":
        return I.RoughBergomiStock(cost=cost, dt=dt, dtype=dtype, **kw)
    if kind == "merton":
        return I.MertonJumpStock(cost=cost, dt=dt, dtype=dtype, **kw)
    if kind == "kou":
        return I.KouJumpStock(cost=cost, dt=dt, dtype=dtype, **kw)
    if kind == "local_vol":
        kw.setdefault("sigma_fn", lambda t, s: torch.full_like(s, 0.2))
        return I.LocalVolatilityStock(cost=cost, dt=dt, dtype=dtype, **kw)
    if kind == "cir":
        return I.CIRRate(cost=cost, dt=dt, dtype=dtype, **kw)
    if kind == "vasicek":
        return I.VasicekRate(cost=cost, dt=dt, dtype=dtype, **kw)
    raise KeyError(kind)


#: buffers each primary kind registers in simulate()
BUFFERS = {
    "brownian": ("spot",), "merton": ("spot",), "kou": ("spot",), "cir": ("spot",),
    "vasicek": ("spot",), "heston": ("spot", "variance"),
    "rough_bergomi": ("spot", "variance"), "local_vol": ("spot", "volatility"),
}
TWO_FACTOR = {"heston": "variance", "rough_bergomi": "variance", "local_vol": "volatility"}


def set_buffers(p, **buffers):
    """Register buffers the way simulate() does (replacing previous ones)."""
    for name, t in buffers.items():
        p.register_buffer(name, t.clone())
    return p


def script_primary(p, kind, spot, second=None):
    if kind in TWO_FACTOR:
        if second is None:
            second = torch.full_like(spot, 0.04 if TWO_FACTOR[kind] == "variance" else 0.2)
        set_buffers(p, spot=spot, **{TWO_FACTOR[kind]: second})
    else:
        set_buffers(p, spot=spot)
    return p


def joint_paths(spot_alphabet, T, second_alphabet=None, dtype=torch.float64, first=None):
    """All joint (spot, second factor) paths.  Returns (spot, second, n_symbols) where
    rows are ordered as all_paths over the joint alphabet (prefix groups contiguous)."""
    if second_alphabet is None:
        return all_paths(spot_alphabet, T, dtype=dtype, first=first), None, len(spot_alphabet)
    joint = [(s, v) for s in spot_alphabet for v in second_alphabet]
    idx = all_paths(list(range(len(joint))), T, dtype=torch.float64).long()
    s = torch.tensor([j[0] for j in joint], dtype=dtype)[idx]
    v = torch.tensor([j[1] for j in joint], dtype=dtype)[idx]
    return s, v, len(joint)


def derivative(kind, underlier, T=None, dt=None, **kw):
    """Derivative on ``underlier`` with maturity (T-1)*dt when T is given."""
    import pfhedge.instruments as I
    cls = {
        "european": I.EuropeanOption, "lookback": I.LookbackOption,
        "european_binary": I.EuropeanBinaryOption, "american_binary": I.AmericanBinaryOption,
        "forward_start": I.EuropeanForwardStartOption, "variance_swap": I.VarianceSwap,
    }[kind]
    if T is not None and "maturity" not in kw:
        kw["maturity"] = (T - 1) * (dt if dt is not None else underlier.dt)
    return cls(underlier, **kw)


OPTION_KINDS = ("european", "lookback", "european_binary", "american_binary")
ALL_DERIVATIVE_KINDS = OPTION_KINDS + ("forward_start", "variance_swap")


class ScriptedSimulate:
    """Replaces ``primary.simulate`` on one *instance*: the k-th call registers script k
    (a dict name -> tensor, or a callable (n_paths, time_horizon, init_state) -> dict)
    and is logged.  The last script is reused if more calls arrive and ``cycle``."""

    def __init__(self, p, scripts, cycle=True):
        self.p = p
        self.scripts = list(scripts)
        self.cycle = cycle
        self.log = []
        self.calls = 0
        p.__dict__["simulate"] = self

    def __call__(self, n_paths=1, time_horizon=20 / 250, init_state=None):
        k = self.calls
        self.calls += 1
        if k >= len(self.scripts):
            if not self.cycle:
                raise AssertionError("scripted simulate: more calls than scripts")
            k = k % len(self.scripts)
        self.log.append({"n_paths": n_paths, "time_horizon": time_horizon, "init_state": init_state,
                         "grad": torch.is_grad_enabled()})
        s = self.scripts[k]
        bufs = s(n_paths, time_horizon, init_state) if callable(s) else s
        for name, t in bufs.items():
            self.p.register_buffer(name, t.clone())

    def remove(self):
        self.p.__dict__.pop("simulate", None)


def snapshot(instr):
    """Bitwise snapshot of all buffers of a primary (or of all underliers of a derivative)."""
    out = {}
    prims = [instr] if hasattr(instr, "named_buffers") else list(instr.underliers())
    for i, p in enumerate(prims):
        for name, b in p.named_buffers():
            out[(i, name)] = (b.detach().clone(), b.dtype, tuple(b.shape), b.data_ptr())
    return out


def snapshot_diff(a, b):
    """Names of buffers that differ between two snapshots (values bitwise, dtype, shape, identity of storage)."""
    bad = []
    for k in set(a) | set(b):
        if k not in a or k not in b:
            bad.append((k, "missing"))
            continue
        (va, da, sa, pa), (vb, db, sb, pb) = a[k], b[k]
        if da != db:
            bad.append((k, "dtype"))
        elif sa != sb:
            bad.append((k, "shape"))
        elif not torch.equal(va.view(torch.uint8) if False else va, vb) and not (
                va.isnan().any() and torch.equal(va.nan_to_num(nan=12345.0), vb.nan_to_num(nan=12345.0))):
            bad.append((k, "values"))
        elif pa != pb:
            bad.append((k, "storage"))
    return bad

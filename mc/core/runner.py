"""Runner, context, evidence and violation plumbing shared by all checks.

A check module (``mc/checks/cXX.py``) defines

    FAMILIES = {}                       # name -> fn(ctx, block)
    def run(ctx): ...                   # enumerates blocks, calls ctx.run(name, block)

A *family* is a function that takes a JSON-serialisable ``block`` (a description of
a finite set of cases), runs the real code on every case of the block, compares
with the reference model and reports through ``ctx``.  The same function is what
``--replay`` calls with the minimal block stored in a replay file, so a violation
is reproduced without the explorer.

Exit status: 0 no unlisted violation, 1 violation(s), 2 harness error.
"""
from __future__ import annotations

import argparse
import hashlib
import importlib
import json
import math
import os
import random
import subprocess
import sys
import time
import traceback

VERIF = os.path.dirname(os.path.dirname(os.path.dirname(os.path.abspath(__file__))))
REPO = os.environ.get("PFHEDGE_VERIF_REPO", "/repo")


class HarnessError(Exception):
    """Something is wrong with the harness (not with pfhedge): exit 2."""


class FamilyTimeout(Exception):
    """A family ran far beyond any plausible time: the code under test loops."""


def _jsonable(x, depth=0):
    """Best-effort conversion of tensors / numpy / fractions / mpmath to JSON."""
    try:
        import torch
    except Exception:  # pragma: no cover
        torch = None
    if x is None or isinstance(x, (bool, int, str)):
        return x
    if isinstance(x, float):
        if math.isnan(x) or math.isinf(x):
            return repr(x)
        return x
    if torch is not None and isinstance(x, torch.Tensor):
        if x.numel() > 64:
            return {"tensor_shape": list(x.shape), "dtype": str(x.dtype),
                    "head": _jsonable(x.detach().flatten()[:16].tolist())}
        return _jsonable(x.detach().tolist())
    if torch is not None and isinstance(x, (torch.dtype, torch.device, torch.Size)):
        return str(x) if not isinstance(x, torch.Size) else list(x)
    if isinstance(x, dict):
        return {str(k): _jsonable(v, depth + 1) for k, v in x.items()}
    if isinstance(x, (list, tuple, set, frozenset)):
        return [_jsonable(v, depth + 1) for v in x]
    try:
        import numpy as np
        if isinstance(x, np.generic):
            return _jsonable(x.item())
        if isinstance(x, np.ndarray):
            return _jsonable(x.tolist())
    except Exception:  # pragma: no cover
        pass
    return repr(x)


class Ctx:
    """Per-run context: counters, samples, violations."""

    def __init__(self, prop, tier, seed, module=None, replaying=False):
        self.prop = prop
        self.tier = tier
        self.seed = int(seed)
        self.module = module
        self.replaying = replaying
        self.rng = random.Random(self.seed)
        self.counters = {}
        self.samples = []
        self.sample_cap = 6
        self.violations = {}      # signature -> record
        self.viol_counts = {}
        self.alphabets = {}
        self.assumptions = []
        self.caps = []
        self.rules = []
        self.outcomes = set()
        self.info = {}
        self._family = None
        self._block = None

    # -- tier helpers -----------------------------------------------------
    @property
    def quick(self):
        return self.tier == "quick"

    @property
    def thorough(self):
        return self.tier == "thorough"

    def pick(self, quick, thorough):
        return quick if self.tier == "quick" else thorough

    def extra_symbol(self, name, admissible):
        """Seed-dependent additional alphabet symbol (never removes a base one)."""
        r = random.Random(f"{self.seed}/{self.prop}/{name}")
        return r.choice(list(admissible))

    # -- counters ---------------------------------------------------------
    def add(self, key, n=1):
        self.counters[key] = self.counters.get(key, 0) + int(n)

    def tick(self, n=1, nontrivial=0):
        self.add("evaluations", n)
        if nontrivial:
            self.add("distinct_nontrivial", nontrivial)

    def outcome(self, key):
        """Record a distinct observed outcome (guards against vacuous exploration)."""
        if len(self.outcomes) < 100000:
            self.outcomes.add(key if isinstance(key, (str, int, float, bool, tuple)) else repr(key))

    def sample(self, obj):
        if len(self.samples) < self.sample_cap:
            self.samples.append(_jsonable(obj))

    def alphabet(self, name, values):
        self.alphabets[name] = _jsonable(values)

    def assume(self, text):
        if text not in self.assumptions:
            self.assumptions.append(text)

    def rule(self, text):
        if text not in self.rules:
            self.rules.append(text)

    def cap(self, text):
        if text not in self.caps:
            self.caps.append(text)

    # -- violations -------------------------------------------------------
    def violation(self, site, cls, msg, observed=None, expected=None, block=None, family=None):
        """Report a violation with signature (site, cls).

        ``block`` must be a minimal JSON-serialisable block that, passed to the
        same family, reproduces the violation (defaults to the current block).
        """
        sig = (str(site), str(cls))
        self.viol_counts[sig] = self.viol_counts.get(sig, 0) + 1
        if sig in self.violations:
            return
        self.violations[sig] = {
            "property": self.prop,
            "site": sig[0],
            "class": sig[1],
            "family": family or self._family,
            "block": _jsonable(block if block is not None else self._block),
            "message": str(msg),
            "observed": _jsonable(observed),
            "expected": _jsonable(expected),
        }

    # -- running families -------------------------------------------------
    def run(self, name, block):
        import torch
        fam = self.module.FAMILIES[name]
        prev = (self._family, self._block)
        self._family, self._block = name, block
        d0 = torch.get_default_dtype()
        # safety net against a tree under test that loops forever inside a python-level loop:
        # a family of the quick tier never needs more than a few minutes
        budget = int(os.environ.get("VERIF_FAMILY_TIMEOUT", "900" if self.tier == "quick" else "7200"))
        armed = False
        try:
            import signal
            import threading
            if threading.current_thread() is threading.main_thread() and prev[0] is None:
                def _on_alarm(signum, frame):
                    raise FamilyTimeout(f"family {name} exceeded {budget} s")
                old_handler = signal.signal(signal.SIGALRM, _on_alarm)
                signal.alarm(budget)
                armed = True
        except (ValueError, ImportError):
            armed = False
        try:
            fam(self, block)
        except HarnessError:
            raise
        except FamilyTimeout as e:
            self.violation(f"family:{name}", "hang:family_timeout",
                           f"{e}: the code under test does not terminate on some case of this block",
                           observed="timeout", expected="termination")
        except Exception as e:
            site = blame(e)
            if site is None:
                raise
            # the real code raised where the reference model defines a value
            self.violation(site, f"raises:{type(e).__name__}",
                           f"{type(e).__name__}: {str(e)[:300]} (uncaught, raised inside pfhedge)",
                           observed=traceback.format_exc()[-1500:], expected="no exception")
        finally:
            if armed:
                signal.alarm(0)
                signal.signal(signal.SIGALRM, old_handler)
            self._family, self._block = prev
            if torch.get_default_dtype() != d0:
                torch.set_default_dtype(d0)
                raise HarnessError(f"family {name} leaked a default dtype change")

    def run_parallel(self, name, blocks, workers=None):
        """Run family ``name`` on independent blocks in spawned workers and merge."""
        blocks = list(blocks)
        if workers is None:
            workers = min(len(blocks), int(os.environ.get("VERIF_WORKERS", os.cpu_count() or 1)))
        if workers <= 1 or len(blocks) <= 1:
            for b in blocks:
                self.run(name, b)
            return
        import multiprocessing as mp
        mpctx = mp.get_context("spawn")
        args = [(self.prop, self.tier, self.seed, self.module.__name__, name, b) for b in blocks]
        with mpctx.Pool(workers) as pool:
            for exported in pool.imap(_worker, args, chunksize=1):
                if "harness_error" in exported:
                    raise HarnessError(exported["harness_error"])
                self.merge(exported)

    def export(self):
        return {
            "counters": self.counters, "samples": self.samples,
            "violations": [[list(k), v] for k, v in self.violations.items()],
            "viol_counts": [[list(k), v] for k, v in self.viol_counts.items()],
            "alphabets": self.alphabets, "assumptions": self.assumptions,
            "caps": self.caps, "rules": self.rules, "outcomes": list(self.outcomes)[:5000],
            "info": self.info,
        }

    def merge(self, e):
        for k, v in e["counters"].items():
            self.add(k, v)
        for s in e["samples"]:
            if len(self.samples) < self.sample_cap:
                self.samples.append(s)
        for k, v in e["violations"]:
            self.violations.setdefault(tuple(k), v)
        for k, v in e["viol_counts"]:
            k = tuple(k)
            self.viol_counts[k] = self.viol_counts.get(k, 0) + v
        self.alphabets.update(e["alphabets"])
        for a in e["assumptions"]:
            self.assume(a)
        for c in e["caps"]:
            self.cap(c)
        for r in e["rules"]:
            self.rule(r)
        for o in e["outcomes"]:
            self.outcome(tuple(o) if isinstance(o, list) else o)
        for k, v in e.get("info", {}).items():
            self.info.setdefault(k, v)


def blame(exc):
    """Name of the deepest pfhedge function in the traceback if the exception
    came out of pfhedge code called by the harness (None: harness bug)."""
    tb = exc.__traceback__
    frames = []
    while tb is not None:
        frames.append(tb.tb_frame.f_code)
        tb = tb.tb_next
    repo = os.path.realpath(REPO) + os.sep
    verif = os.path.realpath(VERIF) + os.sep
    last_repo = last_verif = -1
    name = None
    for i, code in enumerate(frames):
        fn = os.path.realpath(code.co_filename)
        if fn.startswith(repo):
            last_repo, name = i, f"{os.path.relpath(fn, repo)}:{code.co_name}"
        elif fn.startswith(verif):
            last_verif = i
    return name if last_repo > last_verif else None


def _worker(args):
    prop, tier, seed, modname, name, block = args
    try:
        setup_process()
        mod = importlib.import_module(modname)
        ctx = Ctx(prop, tier, seed, module=mod)
        ctx.run(name, block)
        return ctx.export()
    except Exception:
        return {"harness_error": f"worker for {modname}.{name} failed:\n{traceback.format_exc()}"}


def setup_process():
    """Make sure the tree under test is the one imported; fix determinism knobs."""
    if REPO not in sys.path[:1]:
        sys.path.insert(0, REPO)
    if VERIF not in sys.path:
        sys.path.insert(1, VERIF)
    import torch
    torch.set_num_threads(1)
    import pfhedge
    where = os.path.realpath(pfhedge.__file__)
    if not where.startswith(os.path.realpath(REPO) + os.sep):
        raise HarnessError(f"pfhedge imported from {where}, expected under {REPO}")
    import warnings
    warnings.filterwarnings("ignore")


def tree_id():
    try:
        head = subprocess.run(["git", "-C", REPO, "rev-parse", "HEAD"], capture_output=True,
                              text=True, timeout=20).stdout.strip()
        dirty = subprocess.run(["git", "-C", REPO, "status", "--porcelain", "--untracked-files=no"],
                               capture_output=True, text=True, timeout=20).stdout.strip()
        return {"repo": REPO, "head": head, "dirty": bool(dirty)}
    except Exception as e:  # pragma: no cover
        return {"repo": REPO, "error": repr(e)}


LEVEL = "model_checking"


def write_evidence(ctx, wall, n_unlisted, n_known):
    c = ctx.counters
    cov = {
        "evaluations": int(c.get("evaluations", 0)),
        "distinct_nontrivial": int(c.get("distinct_nontrivial", 0)),
        "rule": " | ".join(ctx.rules) if ctx.rules else "see DESIGN.md section for this property",
        "samples": ctx.samples if ctx.samples else [],
        "exhaustive": not ctx.caps,
        "caps_hit": ctx.caps,
        "alphabets": ctx.alphabets,
        "distinct_outcomes": len(ctx.outcomes),
        "known_findings_reproduced": n_known,
        "tree": tree_id(),
    }
    for k in ("states", "transitions", "traces_validated_against_impl"):
        if k in c:
            cov[k] = int(c[k])
    for k, v in c.items():
        if k not in cov:
            cov[k] = int(v)
    for k, v in ctx.info.items():
        cov.setdefault(k, v)
    ev = {
        "property_id": ctx.prop,
        "tier": ctx.tier,
        "seed": ctx.seed,
        "level": LEVEL,
        "coverage": cov,
        "assumptions": ctx.assumptions,
        "wall_s": round(wall, 3),
        "violations": int(n_unlisted),
    }
    evdir = os.environ.get("VERIF_EVIDENCE_DIR") or os.path.join(VERIF, "evidence")
    os.makedirs(evdir, exist_ok=True)
    path = os.path.join(evdir, f"{ctx.prop}.json")
    tmp = path + ".tmp"
    with open(tmp, "w") as f:
        json.dump(ev, f, indent=1, sort_keys=False)
        f.write("\n")
    os.replace(tmp, path)
    return path


def validate_evidence(path):
    """Validate with jsonschema from the tooling venv when it is there."""
    schema = "/root/.vp/EVIDENCE.schema.json"
    if not os.path.exists(schema):
        schema = os.path.join(VERIF, "tools", "EVIDENCE.schema.json")
    tool = os.path.join(VERIF, "tools", "validate_evidence.py")
    for py in ("python3-vt", "/opt/veriftools/pyvenv/bin/python"):
        try:
            r = subprocess.run([py, tool, schema, path], capture_output=True, text=True, timeout=60)
        except (FileNotFoundError, subprocess.TimeoutExpired):
            continue
        if r.returncode != 0:
            raise HarnessError(f"evidence file {path} does not validate: {r.stdout}{r.stderr}")
        return True
    return False


def finish(ctx, t0):
    from mc.core import findings
    known = findings.load_known(ctx.prop)
    n_unlisted = 0
    n_known = 0
    lines = []
    for sig, rec in sorted(ctx.violations.items()):
        rec["count"] = ctx.viol_counts.get(sig, 1)
        k = findings.match(known, sig)
        if k is not None:
            n_known += 1
            lines.append(f"KNOWN-FINDING: property={ctx.prop} site={sig[0]} class={sig[1]} "
                         f"({rec['count']} cases) :: {k['text']}")
            continue
        n_unlisted += 1
        d = os.path.join(os.environ.get("VERIF_REPLAY_DIR") or os.path.join(VERIF, "replays"), ctx.prop)
        os.makedirs(d, exist_ok=True)
        h = hashlib.sha1(("/".join(sig)).encode()).hexdigest()[:10]
        path = os.path.join(d, f"{h}.json")
        with open(path, "w") as f:
            json.dump(rec, f, indent=1)
            f.write("\n")
        lines.append(f"VIOLATION property={ctx.prop} replay={path}")
        lines.append(f"  site={sig[0]} class={sig[1]} cases={rec['count']}: {rec['message']}")
    wall = time.time() - t0
    if not ctx.replaying:
        path = write_evidence(ctx, wall, n_unlisted, n_known)
        validate_evidence(path)
    for ln in lines:
        print(ln)
    c = ctx.counters
    print(f"[{ctx.prop}] tier={ctx.tier} seed={ctx.seed} evaluations={c.get('evaluations', 0)} "
          f"nontrivial={c.get('distinct_nontrivial', 0)} states={c.get('states', 0)} "
          f"transitions={c.get('transitions', 0)} traces={c.get('traces_validated_against_impl', 0)} "
          f"outcomes={len(ctx.outcomes)} known={n_known} violations={n_unlisted} "
          f"exhaustive={not ctx.caps} wall={wall:.1f}s")
    return 1 if n_unlisted else 0


def replay(prop, mod, path, tier, seed):
    rec = json.load(open(path))
    obs = []
    for _ in range(2):
        ctx = Ctx(prop, tier, seed, module=mod, replaying=True)
        ctx.run(rec["family"], rec["block"])
        obs.append(json.dumps([[list(k), v["observed"], v["expected"]]
                               for k, v in sorted(ctx.violations.items())], sort_keys=True))
    if obs[0] != obs[1]:
        print(f"HARNESS-NONDETERMINISM property={prop} replay={path}: two replays differ")
        return 2
    sig = (rec["site"], rec["class"])
    if sig in ctx.violations:
        v = ctx.violations[sig]
        print(f"VIOLATION property={prop} replay={path}")
        print(f"  site={sig[0]} class={sig[1]}: {v['message']}")
        print(f"  observed={json.dumps(v['observed'])[:600]}")
        print(f"  expected={json.dumps(v['expected'])[:600]}")
        return 1
    others = [k for k in ctx.violations]
    print(f"[{prop}] replay of {path}: violation {sig} did not reproduce"
          + (f" (other signatures seen: {others})" if others else ""))
    return 1 if others else 0


def main(argv=None):
    ap = argparse.ArgumentParser()
    ap.add_argument("prop")
    ap.add_argument("--tier", default=os.environ.get("VERIF_TIER", "quick"), choices=["quick", "thorough"])
    ap.add_argument("--seed", type=int, default=int(os.environ.get("VERIF_SEED", "0") or 0))
    ap.add_argument("--replay", default=None)
    a = ap.parse_args(argv)
    prop = a.prop.upper()
    t0 = time.time()
    try:
        setup_process()
        mod = importlib.import_module(f"mc.checks.{prop.lower()}")
        if a.replay:
            return replay(prop, mod, a.replay, a.tier, a.seed)
        ctx = Ctx(prop, a.tier, a.seed, module=mod)
        mod.run(ctx)
        if ctx.counters.get("evaluations", 0) == 0:
            raise HarnessError("vacuous run: no evaluations counted")
        return finish(ctx, t0)
    except HarnessError as e:
        print(f"HARNESS-ERROR property={prop}: {e}")
        return 2
    except Exception:
        print(f"HARNESS-ERROR property={prop}: uncaught exception in the check\n{traceback.format_exc()}")
        return 2


if __name__ == "__main__":
    sys.exit(main())

"""Known findings file: /verif/known_findings.txt (committed; never written at run time).

Lines:
  known: property=<id> site=<site> class=<class> :: <what fails, with one concrete input>
  fixed: property=<id> <commit> <what failed>          (suppresses nothing)
A ``class`` (or ``site``) ending in ``*`` is a prefix pattern.
"""
import os
import re

VERIF = os.path.dirname(os.path.dirname(os.path.dirname(os.path.abspath(__file__))))
PATH = os.path.join(VERIF, "known_findings.txt")
_LINE = re.compile(r"^known:\s+property=(\S+)\s+site=(\S+)\s+class=(\S+)\s+::\s*(.*)$")


def load_known(prop):
    out = []
    paths = [PATH]
    d = os.path.join(VERIF, "known_findings.d")
    if os.path.isdir(d):
        paths += sorted(os.path.join(d, f) for f in os.listdir(d) if f.endswith(".txt"))
    for path in paths:
        if not os.path.exists(path):
            continue
        for line in open(path):
            line = line.strip()
            m = _LINE.match(line)
            if m and m.group(1) == prop:
                out.append({"site": m.group(2), "class": m.group(3), "text": m.group(4)})
    return out


def _pat(p, s):
    return s.startswith(p[:-1]) if p.endswith("*") else p == s


def match(known, sig):
    for k in known:
        if _pat(k["site"], sig[0]) and _pat(k["class"], sig[1]):
            return k
    return None

"""Reference payoffs (C12): one path at a time, plain Python, exact arithmetic.

Written from the contract wording of the property and the class docstrings, not from
pfhedge expressions.  A path is a list of ``Fraction`` (or anything ordered with
exact arithmetic); the result is a ``Fraction`` (``mpmath.mpf`` for the variance swap,
which needs logarithms).
"""
from __future__ import annotations

from fractions import Fraction

import mpmath as mp

mp.mp.dps = 40

KINDS = ("european", "lookback", "european_binary", "american_binary")


def _highest(path):
    best = path[0]
    for s in path[1:]:
        if s > best:
            best = s
    return best


def _lowest(path):
    best = path[0]
    for s in path[1:]:
        if s < best:
            best = s
    return best


def european(path, strike, call=True):
    """Call pays max(S_T - K, 0), put pays max(K - S_T, 0)."""
    last = path[len(path) - 1]
    gain = last - strike if call else strike - last
    return gain if gain > 0 else gain * 0


def lookback(path, strike, call=True):
    """Fixed-strike lookback: the call is on the highest price of the path, the put on the lowest."""
    if call:
        gain = _highest(path) - strike
    else:
        gain = strike - _lowest(path)
    return gain if gain > 0 else gain * 0


def european_binary(path, strike, call=True):
    """Pays one when the terminal price has reached the strike (from below for a call,
    from above for a put); 'reached' includes equality."""
    last = path[len(path) - 1]
    hit = (last >= strike) if call else (last <= strike)
    return Fraction(1) if hit else Fraction(0)


def american_binary(path, strike, call=True):
    """Pays one when any price on the path has reached the strike."""
    hit = False
    for s in path:
        if (s >= strike) if call else (s <= strike):
            hit = True
    return Fraction(1) if hit else Fraction(0)


def payoff(kind, path, strike, call=True):
    return {"european": european, "lookback": lookback, "european_binary": european_binary,
            "american_binary": american_binary}[kind](path, strike, call)


def forward_start(path, strike, start_index, end_index=None):
    """max(S_end / S_start - K, 0); the end is the terminal price unless stated."""
    end = path[len(path) - 1] if end_index is None else path[end_index]
    gain = Fraction(end) / Fraction(path[start_index]) - strike
    return gain if gain > 0 else gain * 0


ULP = Fraction(1, 2 ** 52)


def start_index(start, dt):
    """Contractual start index for the *floats* ``start`` and ``dt``.

    q = start/dt is taken as the exact rational quotient of the two floats.
      * q an integer k                      -> k                        ('on_grid_exact')
      * |q - k| <= 4 ulp * max(k, 1)        -> k                        ('on_grid_rounded')
        start and dt are each the nearest double of an intended real (k/250, 1/250, k*dt ...), so the
        quotient of an intended exact multiple k*dt/dt is off by at most ~2 ulp relative: such a start
        time *is* k steps (the start time is on the grid), whatever side of k the rounding fell on.
      * farther than 2^-20 from every integer -> floor(q), the last grid time before start ('between')
      * anything else                       -> None (convention not fixed; not enumerated)
    Returns (index or None, kind)."""
    q = Fraction(start) / Fraction(dt)
    k = round(q)
    if q == k:
        return int(k), "on_grid_exact"
    if abs(q - k) <= 4 * ULP * max(k, 1):
        return int(k), "on_grid_rounded"
    if abs(q - k) > Fraction(1, 2 ** 20):
        return q.numerator // q.denominator, "between"
    return None, "undecided"


def forward_start_float(path, strike, start_index, end_index=None):
    """The same contract in plain IEEE double arithmetic (one division, one subtraction): for
    float64 inputs this is bit-for-bit what any correct double implementation returns."""
    end = path[len(path) - 1] if end_index is None else path[end_index]
    gain = float(end) / float(path[start_index]) - float(strike)
    return gain if gain > 0 else 0.0


def realized_variance(path, dt):
    """Annualised mean squared log-return: (1/(T-1)) sum_i log(S_{i+1}/S_i)^2 / dt, T-1 returns.
    Returns (value, error_scale) as mpf; ``error_scale`` is sum_i (|log S_i|+|log S_{i+1}|+|r_i|)*|r_i|
    / ((T-1) dt): the first-order sensitivity of the value to one-ulp errors in the logarithms
    and the differences (used by the checks to derive a tolerance)."""
    n = len(path) - 1
    if n < 1:
        raise ValueError("no return on a one-point path")
    logs = [mp.log(mp.mpf(Fraction(s).numerator) / mp.mpf(Fraction(s).denominator)) for s in path]
    dtm = mp.mpf(Fraction(dt).numerator) / mp.mpf(Fraction(dt).denominator)
    total = mp.mpf(0)
    scale = mp.mpf(0)
    for i in range(n):
        r = logs[i + 1] - logs[i]
        total += r * r
        scale += (abs(logs[i]) + abs(logs[i + 1]) + abs(r)) * abs(r)
    return total / n / dtm, scale / n / dtm


def variance_swap(path, dt, strike):
    v, scale = realized_variance(path, dt)
    k = mp.mpf(Fraction(strike).numerator) / mp.mpf(Fraction(strike).denominator)
    return v - k, scale


# ---------------------------------------------------------------------------
# clauses: a small non-commuting alphabet; model side
# ---------------------------------------------------------------------------

def clause_model(name, barrier):
    """Model of one clause: (path, payoff) -> payoff."""
    if name == "double":
        return lambda path, p: p * 2
    if name == "plus1":
        return lambda path, p: p + 1
    if name == "cap":
        return lambda path, p: p if p < Fraction(1, 2) else Fraction(1, 2)
    if name == "knockout":
        return lambda path, p: p * 0 if _highest(path) >= barrier else p
    raise KeyError(name)


def fold_clauses(path, base, seq, barrier):
    """Apply the clauses of ``seq`` to ``base`` in the order given (= registration order)."""
    p = base
    for name in seq:
        p = clause_model(name, barrier)(path, p)
    return p

"""C16 helpers: observation of side effects, the instrument zoo of the call matrix and
the operation-history system (one hedger, several derivatives) explored by bfs.

Reference model of C16 (what the property allows), written from the property text:

* frame rule - the only public calls that may change an instrument's simulated series
  are ``simulate`` (directly or inside ``compute_loss``/``price``/``fit``: the series of
  the simulated derivative's underliers become exactly what the simulator delivered)
  and ``to`` (the series become the old series cast to the new dtype).  Every other
  computation leaves every buffer of every instrument, and every tensor passed in by the
  caller, bitwise as it was (values, dtype, shape, storage).
* history independence - the result of a query on a hedger after any history equals
  the result of the same query by a *fresh* hedger from the same factory holding the
  same parameters, (a) on the live instruments and (b) in a world in which only the
  data-changing operations of the history (``simulate``/``to`` on derivatives) were
  replayed.  (b) is the literal reading of "depends only on the model parameters, the
  criterion and the derivative's current simulated series".
"""
from __future__ import annotations

import torch

from mc.core import market
from mc.core.explore import all_paths

DT = {"float32": torch.float32, "float64": torch.float64}
NAME = {torch.float32: "float32", torch.float64: "float64"}


# ----------------------------------------------------------------------------
# observation: snapshots of instrument buffers and of caller tensors
# ----------------------------------------------------------------------------

def autograd_state(t):
    """(requires_grad, is_leaf, has grad_fn) - part of the observable state of a tensor."""
    return (bool(t.requires_grad), bool(t.is_leaf), t.grad_fn is not None)


def snap_prims(prims):
    """{(i, name): (values, dtype, shape, data_ptr)} via market.snapshot, plus the autograd state
    (compared: a query must not change it) and the in-place version counter (recorded) of each buffer."""
    data, meta = {}, {}
    for i, p in enumerate(prims):
        for (_, name), v in market.snapshot(p).items():
            data[(i, name)] = v
        for name, b in p.named_buffers():
            meta[(i, name)] = (autograd_state(b), int(b._version))
    return data, meta


def diff_prims(a, b):
    """[(buffer key, kind)] sorted; kind in values/dtype/shape/storage/missing."""
    return sorted(market.snapshot_diff(a[0], b[0]), key=lambda kv: (kv[0][0], kv[0][1], kv[1]))


def flag_changes(a, b):
    """([(buffer key, autograd state before, after)], [buffers written in place with equal values])."""
    grad, version = [], []
    for k in a[1]:
        if k in b[1]:
            if a[1][k][0] != b[1][k][0]:
                grad.append((k, a[1][k][0], b[1][k][0]))
            if a[1][k][1] != b[1][k][1] and a[0][k][3] == b[0][k][3]:
                version.append(k)
    return grad, version


def dirty_autograd(snap):
    """Buffers that are not plain data (require grad / carry a graph): [(key, state)]."""
    return [(k, v[0]) for k, v in sorted(snap[1].items()) if v[0] != (False, True, False)]


def snap_module_buffers(module):
    """Bitwise snapshot of a module's buffers (a hedger's prev_output) incl. identity."""
    if module is None:
        return None
    return {n: (b.detach().clone(), b.data_ptr(), autograd_state(b)) for n, b in module.named_buffers()}


def same_module_buffers(a, b):
    if a is None or b is None:
        return a is None and b is None
    return sorted(a) == sorted(b) and all(
        same_tensor(a[n][0], b[n][0]) and a[n][1] == b[n][1] and a[n][2] == b[n][2] for n in a)


class Caller:
    """Factory of caller tensors.  form 'leaf': a plain tensor; form 'view': a view into a
    larger base with sentinel elements on both sides, the *base* is what is snapshotted
    (an in-place write through a view, or beyond it, is seen)."""

    SENT = -777.0

    def __init__(self, dtype, form="leaf"):
        self.dtype = dtype
        self.form = form
        self.t = {}

    def mk(self, name, data, dtype=None):
        x = torch.as_tensor(data, dtype=dtype or self.dtype).clone()
        if self.form == "view" and x.dim() > 0:
            s = torch.full((1,), self.SENT, dtype=x.dtype)
            base = torch.cat([s, x.flatten(), s])
            t = base[1:-1].view(x.shape)
        else:
            base = t = x
        if name in self.t:
            raise AssertionError("duplicate caller tensor " + name)
        self.t[name] = (t, base)
        return t

    def snap(self):
        return {n: (base.detach().clone(), base.dtype, tuple(t.shape), t.data_ptr(),
                    (autograd_state(t), autograd_state(base)), int(base._version)) for n, (t, base) in self.t.items()}

    def diff(self, a):
        """(mutated [(name, kind)], [(name, autograd state before, after)] where it changed)."""
        bad, flags = [], []
        for n, (t, base) in self.t.items():
            v, d, s, p, rg, _ = a[n]
            if base.dtype != d:
                bad.append((n, "dtype"))
            elif tuple(t.shape) != s:
                bad.append((n, "shape"))
            elif not same_tensor(v, base.detach()):
                bad.append((n, "values"))
            elif t.data_ptr() != p:
                bad.append((n, "storage"))
            if (autograd_state(t), autograd_state(base)) != rg:
                flags.append((n, rg[0], autograd_state(t)))
        return bad, flags


def same_tensor(a, b):
    """Bitwise equality treating NaN == NaN (dtype and shape included)."""
    if a.dtype != b.dtype or tuple(a.shape) != tuple(b.shape):
        return False
    if a.is_floating_point():
        return bool(torch.equal(a.nan_to_num(nan=12345.0, posinf=3e38, neginf=-3e38),
                                b.nan_to_num(nan=12345.0, posinf=3e38, neginf=-3e38))
                    and torch.equal(a.isnan(), b.isnan()) and torch.equal(a.isinf(), b.isinf()))
    return bool(torch.equal(a, b))


def same_result(a, b):
    """Structural bitwise equality of call results (tensors, tuples, lists, dicts, scalars)."""
    if isinstance(a, torch.Tensor) or isinstance(b, torch.Tensor):
        return isinstance(a, torch.Tensor) and isinstance(b, torch.Tensor) and same_tensor(a.detach(), b.detach())
    if isinstance(a, dict) or isinstance(b, dict):
        return isinstance(a, dict) and isinstance(b, dict) and list(a) == list(b) and all(
            same_result(a[k], b[k]) for k in a)
    if isinstance(a, (tuple, list)) or isinstance(b, (tuple, list)):
        return isinstance(a, (tuple, list)) and isinstance(b, (tuple, list)) and len(a) == len(b) and all(
            same_result(x, y) for x, y in zip(a, b))
    if isinstance(a, float) and isinstance(b, float) and a != a and b != b:
        return True
    return a == b


def describe(x):
    """Short JSON-able description of a result for messages."""
    if isinstance(x, torch.Tensor):
        return {"shape": list(x.shape), "dtype": str(x.dtype), "head": x.detach().flatten()[:6].tolist()}
    if isinstance(x, dict):
        return {k: describe(v) for k, v in list(x.items())[:4]}
    if isinstance(x, (tuple, list)):
        return [describe(v) for v in list(x)[:4]]
    return x


def depends_on_data(x):
    """Non-trivial call: the result carries at least one finite non-zero number."""
    if isinstance(x, torch.Tensor):
        y = x.detach()
        if not y.is_floating_point():
            return bool(y.numel())
        return bool((y.isfinite() & (y != 0)).any())
    if isinstance(x, dict):
        return any(depends_on_data(v) for v in x.values())
    if isinstance(x, (tuple, list)):
        return any(depends_on_data(v) for v in x)
    return isinstance(x, (int, float)) and x == x and x != 0


# ----------------------------------------------------------------------------
# the instrument zoo of the call matrix
# ----------------------------------------------------------------------------

PRIMARIES = ("brownian", "heston", "local_vol", "merton", "kou", "rough_bergomi", "cir", "vasicek")
RATES = ("cir", "vasicek")
HAS_VOL = tuple(k for k in PRIMARIES if k not in RATES)          # expose .volatility and .variance
STOCK_ALPHABET = [0.75, 1.25, 1.5]     # below / at / above the strike 1.25; none equals 1 (log != 0), ratios != 1
RATE_ALPHABET = [0.03, 0.05, 0.06]     # strike 0.05
SECOND = {"variance": [0.04, 0.09], "volatility": [0.2, 0.3]}
STRIKE = {"stock": 1.25, "rate": 0.05}


def spot_alphabet(kind):
    return RATE_ALPHABET if kind in RATES else STOCK_ALPHABET


def strike_of(kind):
    return STRIKE["rate"] if kind in RATES else STRIKE["stock"]


class Zoo:
    """One world of the call matrix: a primary of the given kind holding *all* joint paths
    over the alphabets, a derivative of the given kind on it, a second (brownian) stock on
    the same number of paths and a European option on the first primary that pricers list."""

    def __init__(self, spec):
        import pfhedge.instruments as I
        self.spec = spec
        self.kind, self.dkind = spec["primary"], spec["derivative"]
        self.dtype = DT[spec["dtype"]]
        self.T = T = spec.get("T", 3)
        kind = self.kind
        sec = market.TWO_FACTOR.get(kind)
        spot, second, _ = market.joint_paths(spot_alphabet(kind), T, SECOND[sec] if sec else None, dtype=self.dtype)
        rows = spec.get("rows")
        if rows is not None:
            spot = spot[rows]
            second = None if second is None else second[rows]
        self.N = spot.size(0)
        self.script = {"spot": spot} if sec is None else {"spot": spot, sec: second}
        self.p = market.primary(kind, dtype=self.dtype, cost=1 / 64)
        self.K = strike_of(kind)
        kw = {"strike": self.K}
        if self.dkind in ("european", "european_binary") and not spec.get("call", True):
            kw["call"] = False
        if self.dkind == "variance_swap":
            kw = {"strike": 0.0625}
        if self.dkind == "forward_start":
            kw = {"strike": 1.125, "start": market.DT}
        self.d = market.derivative(self.dkind, self.p, T=T, **kw)
        self.p2 = market.primary("brownian", dtype=self.dtype, cost=1 / 32, sigma=0.5)
        s2 = all_paths([0.5, 2.0], T, dtype=self.dtype)
        self.script2 = {"spot": s2[torch.arange(self.N) % s2.size(0)]}
        self.listed = I.EuropeanOption(self.p, strike=self.K * 0.9, maturity=(T - 1) * market.DT)
        # a third stock declared in the OTHER dtype: a hedging instrument whose dtype differs from the underlier's
        other = torch.float32 if self.dtype == torch.float64 else torch.float64
        self.p3 = market.primary("brownian", dtype=other, cost=1 / 16, sigma=0.3)
        self.script3 = {"spot": (self.script2["spot"] * 0.75 + 0.125).to(other)}
        self.prims = [self.p, self.p2, self.p3]
        self.reset()

    def reset(self):
        market.set_buffers(self.p, **self.script)
        market.set_buffers(self.p2, **self.script2)
        market.set_buffers(self.p3, **self.script3)
        self.d.delist()
        self.listed.delist()

    @property
    def is_option(self):
        return self.dkind in market.OPTION_KINDS

    @property
    def has_vol(self):
        return self.kind in HAS_VOL

    @property
    def bs_ok(self):
        """BlackScholes(d) exists and can read the volatility of the underlier."""
        return self.is_option and self.has_vol and (
            self.dkind in ("european", "european_binary") or self.spec.get("call", True))


def pricers(zoo):
    """name -> pricer(derivative) for listing.  'buffer' hands out the simulated series itself
    and 'view' a view of it: the hazardous forms named by the property's anchors."""
    import torch.nn.functional as fn
    out = {
        "buffer": lambda d: d.ul().spot,
        "view": lambda d: d.ul().spot[:, :],
        "convex": lambda d: fn.relu(d.ul().spot - 1.125) + 0.25 * d.ul().spot,
    }
    if zoo.has_vol:
        out["variance"] = lambda d: d.ul().variance + 0.5
    return out


def bs_pricer(d):
    """The Black-Scholes pricer lambda of the Hedger docstring."""
    from pfhedge.nn import BlackScholes
    return BlackScholes(d).price(log_moneyness=d.log_moneyness(), time_to_maturity=d.time_to_maturity(),
                                 volatility=d.ul().volatility)


_WEIGHTS = {}


def generic_linear(n_in, n_out, seed, dtype, tag=0):
    """Linear layer with 'generic' weights fixed by the seed (no structure to cancel on)."""
    key = (n_in, n_out, seed, tag)
    if key not in _WEIGHTS:
        g = torch.Generator().manual_seed(7919 * (seed + 1) + tag)
        _WEIGHTS[key] = (torch.randint(-12, 13, (n_out, n_in), generator=g).to(torch.float32) / 16 + 1 / 32,
                         torch.randint(-6, 7, (n_out,), generator=g).to(torch.float32) / 16)
    lin = torch.nn.Linear(n_in, n_out)
    with torch.no_grad():
        lin.weight.copy_(_WEIGHTS[key][0])
        lin.bias.copy_(_WEIGHTS[key][1])
    return lin.to(dtype)


# ----------------------------------------------------------------------------
# the history system: one hedger, three derivatives
# ----------------------------------------------------------------------------

VARIANTS = ("prev", "mlp", "logfeat", "modout", "ww", "wwpre")     # simplest first: first counterexample per signature is stored
N_PATHS = (2, 3)
BAD_PARTNER = {0: 1, 1: 0, 2: 1}    # a second "hedging instrument" whose series has another number of time steps
LISTED_HEDGE_OF = 2    # index of the derivative that is hedged with a listed option instead of its underlier
#: (primary kind, derivative kind, declared dtype, number of time steps)
H_ALPHABET = [1.28, 1.3125, 1.33]   # around the strike 1.3: Black-Scholes gamma does not underflow, gradients are finite
H_DT = 1 / 250     # not dyadic: float32 and float64 renderings of times differ, a stale dtype is visible
DERIVS = (("brownian", "european", "float32", 3),
          ("heston", "lookback", "float64", 4),
          ("local_vol", "european", "float32", 3))


_SCRIPTS = {}


def script_for(kind, T):
    """Scripted simulator: a pure function of (n_paths, T) - independent of the call index, so
    'the same scripted simulate' delivers the same series to the live and to the fresh hedger."""
    sec = market.TWO_FACTOR.get(kind)

    def script(n_paths, time_horizon, init_state):
        steps = int(round(time_horizon / H_DT)) + 1
        assert steps == T, (steps, T)
        key = (kind, T, n_paths)
        if key not in _SCRIPTS:
            spot = all_paths(H_ALPHABET, T)                           # float64, cast by register_buffer
            rows = [(5 + 7 * i) % spot.size(0) for i in range(n_paths)]  # moving, distinct paths
            out = {"spot": spot[rows] + 0.00390625 * n_paths}
            if sec:
                a = torch.tensor(SECOND[sec], dtype=torch.float64)
                idx = (torch.arange(n_paths).unsqueeze(1) + torch.arange(T).unsqueeze(0)) % 2
                out[sec] = a[idx]
            _SCRIPTS[key] = out
        return _SCRIPTS[key]                                          # ScriptedSimulate registers clones

    return script


class HWorld:
    """Real objects of one history.  ``last`` is the result of the last operation."""

    def __init__(self, variant, seed):
        import pfhedge.instruments as I
        self.variant = variant
        self.seed = seed
        self.prims, self.derivs, self.sims = [], [], []
        for kind, dkind, dt, T in DERIVS:
            p = market.primary(kind, dtype=DT[dt], cost=2.0 ** -20, dt=H_DT)   # small: a narrow Whalley-Wilmott band
            kw = {"strike": 1.3}
            d = market.derivative(dkind, p, T=T, **kw)
            if variant == "logfeat":
                d.list(lambda dd: dd.ul().spot, cost=1 / 128)     # pricer hands out the series itself
            self.sims.append(market.ScriptedSimulate(p, [script_for(kind, T)], cycle=True))
            self.prims.append(p)
            self.derivs.append(d)
        # derivative #2 is hedged with a *listed* option on the same stock (Black-Scholes pricer of the Hedger
        # docstring): its price series is a function of the stock's current series, whichever derivative the
        # stock was re-simulated through
        p2 = self.prims[LISTED_HEDGE_OF]
        self.listed = I.EuropeanOption(p2, strike=1.29, maturity=(DERIVS[LISTED_HEDGE_OF][3] - 1) * H_DT)
        self.listed.list(bs_pricer, cost=1 / 128)
        self.hedges = [None] * len(DERIVS)
        self.hedges[LISTED_HEDGE_OF] = [self.listed]
        self.hedger, self.aux = make_hedger(variant, self.derivs, seed)
        self.copy, self.copy_aux, self.copy_access = None, [], None     # copy.deepcopy of the hedger (operation "copy")
        self.ambient = "float32"    # torch default dtype in force while operations run (operation "default")
        self.last = None
        self.trace = []
        self.access = None      # last evaluation of the hedger's features: (derivative, time step | 'all')
        self.dirty = False
        self.failed = False

    # -- abstract state ---------------------------------------------------------
    def param_dtype(self):
        for p in self.hedger.parameters():
            return p.dtype
        return None

    def copy_param_dtype(self):
        for p in self.copy.parameters():
            return p.dtype
        return None

    def data_dtype(self, i):
        bufs = [b.dtype for _, b in self.prims[i].named_buffers()]
        return bufs[0] if bufs else None

    def simulated(self, i):
        return self.data_dtype(i) is not None

    def canon(self):
        if self.failed:
            return ("failed", tuple(self.trace), str(self.last))
        ds = []
        for i, p in enumerate(self.prims):
            bufs = tuple((n, tuple(b.shape), NAME.get(b.dtype, str(b.dtype))) for n, b in p.named_buffers())
            ds.append((NAME.get(p.dtype, str(p.dtype)), bufs))
        po = getattr(self.hedger, "prev_output", None)
        pd = self.param_dtype()
        bound = None
        for m in self.aux:
            feats = getattr(m.inputs, "features", [])
            tgt = getattr(feats[0], "derivative", None) if feats else None
            bound = next((i for i, d in enumerate(self.derivs) if d is tgt), None)
        # hidden state: the training flag (fit leaves the hedger in eval mode) and the *names* of everything
        # stored on the hedger, its model, the derivatives and their underliers (anything cached on an object
        # makes a new abstract state, so its futures are explored rather than merged away)
        # a ModuleOutput binds in place, so the *bound* feature objects inside it survive from call to call:
        # which time steps they were last asked for is part of the state (access-order histories)
        hidden = (bool(self.hedger.training), _names(self.hedger), _names(self.hedger.model),
                  tuple(_names(d) for d in self.derivs), tuple(_names(p) for p in self.prims),
                  self.access if self.aux else None, self.ambient,
                  any(q.grad is not None for q in self.hedger.parameters()))     # .grad left behind by backward/fit
        cp = None
        if self.copy is not None:
            cpo = getattr(self.copy, "prev_output", None)
            cpd = self.copy_param_dtype()
            cp = (NAME.get(cpd, str(cpd)), None if cpo is None else (tuple(cpo.shape), NAME.get(cpo.dtype, str(cpo.dtype))),
                  bool(self.copy.training), _names(self.copy), self.copy_access if self.copy_aux else None)
        return (tuple(ds), NAME.get(pd, str(pd)),
                None if po is None else (tuple(po.shape), NAME.get(po.dtype, str(po.dtype))), bound, hidden, cp)

    # -- parameters -------------------------------------------------------------
    def state(self):
        """Copies of all parameters (hedger module tree + ModuleOutput inner modules)."""
        out = {"hedger": {k: v.detach().clone() for k, v in self.hedger.state_dict().items()}}
        for j, m in enumerate(self.aux):
            out[f"aux{j}"] = {k: v.detach().clone() for k, v in m.state_dict().items()}
        return out

    def copy_state(self):
        """Parameters of the deep copy of the hedger, in the layout of state()."""
        if self.copy is None:
            return None
        out = {"hedger": {k: v.detach().clone() for k, v in self.copy.state_dict().items()}}
        for j, m in enumerate(self.copy_aux):
            out[f"aux{j}"] = {k: v.detach().clone() for k, v in m.state_dict().items()}
        return out

    def adopt(self, other):
        """Receive ``other``'s parameters the documented way: cast, then load_state_dict."""
        pd = other.param_dtype()
        if pd is not None:
            self.cast(pd)
        st = other.state()
        self.hedger.load_state_dict(st["hedger"])
        for j, m in enumerate(self.aux):
            m.load_state_dict(st[f"aux{j}"])

    def cast(self, dtype):
        self.hedger.to(dtype)
        for m in self.aux:      # a ModuleOutput is not in the hedger's module tree: harness obligation
            m.to(dtype)

    def fresh_hedger(self):
        """A new hedger from the same factory, bound to the *live* derivatives, same parameters."""
        old = (self.hedger, self.aux)
        donor = _Donor(self)
        self.hedger, self.aux = make_hedger(self.variant, self.derivs, self.seed)
        self.adopt(donor)
        return old

    # -- operations ---------------------------------------------------------------
    def enabled(self, op):
        if self.failed:
            return False
        kind = op[0]
        if kind in ("sim", "dto", "eval", "train", "default"):
            return True
        if kind in ("badprice", "badloss", "badpl"):
            i = op[1]
            return self.simulated(BAD_PARTNER[i]) and (kind != "badpl" or self.simulated(i))
        pd = self.param_dtype()
        if kind == "hto":
            return pd is not None
        if kind == "copy":
            # torch cannot deep-copy a module holding a non-leaf buffer: prev_output must be plain data, i.e. the
            # last evaluation ran without grad (compute_hedge/pl under no_grad, price, the validation pass of fit)
            po = getattr(self.hedger, "prev_output", None)
            return po is None or autograd_state(po) == (False, True, False)
        i = op[1]
        if kind == "chedge":
            if self.copy is None or not self.simulated(i):
                return False
            cpd = self.copy_param_dtype()
            return cpd is None or cpd == self.data_dtype(i)
        if kind in ("hedge", "pl", "input"):
            if not self.simulated(i):
                return False
            if kind == "input":
                if self.variant in ("prev", "ww", "wwpre"):
                    return False    # get_input binds features without a hedger: no prev_hedge there
                if not self.aux:
                    return True     # no module is evaluated: the hedger's parameter dtype is irrelevant
            if pd is not None and pd != self.data_dtype(i):
                return False
            return True
        if kind in ("loss", "price", "fit", "backward"):
            if kind in ("fit", "backward") and pd is None:
                return False        # nothing to optimise / differentiate
            return pd is None or pd == self.prims[i].dtype
        raise KeyError(kind)

    def apply(self, op, observe=True, ambient=None):
        """Run one operation under the world's ambient default dtype (or ``ambient``); the process-wide
        state (default dtype, grad mode) is recorded before/after and always restored."""
        d0, g0 = torch.get_default_dtype(), torch.is_grad_enabled()
        try:
            torch.set_default_dtype(DT[ambient or self.ambient])
            self.ambient_pre = (torch.is_grad_enabled(), NAME[torch.get_default_dtype()], bool(self.hedger.training))
            self.ambient_post = None
            return self._apply(op, observe)
        finally:
            self.ambient_post = (torch.is_grad_enabled(), NAME.get(torch.get_default_dtype(), "?"),
                                 bool(self.hedger.training))
            torch.set_default_dtype(d0)
            torch.set_grad_enabled(g0)

    def _apply(self, op, observe=True):
        kind = op[0]
        h = self.hedger
        if observe:
            self.pre, self.pre_state = snap_prims(self.prims), self.state()
            self.pre_copy_state = self.copy_state()
            self.pre_hb = (snap_module_buffers(self.hedger), snap_module_buffers(self.copy))
        if kind == "copy":
            import copy as _copy
            from pfhedge.features import ModuleOutput
            self.copy = _copy.deepcopy(h)
            self.copy_aux = [f for f in self.copy.inputs.features if isinstance(f, ModuleOutput)]
            self.copy_access = None
            out = None
        elif kind == "chedge":
            with torch.no_grad():
                out = self.copy.compute_hedge(self.derivs[op[1]], hedge=self.hedges[op[1]])
            self.copy_access = (op[1], None)
        elif kind == "sim":
            self.derivs[op[1]].simulate(n_paths=op[2])
            out = None
        elif kind == "dto":
            self.derivs[op[1]].to(DT[op[2]])
            out = None
        elif kind == "hto":
            self.cast(DT[op[1]])
            out = None
        elif kind == "hedge":
            with torch.no_grad():
                out = h.compute_hedge(self.derivs[op[1]], hedge=self.hedges[op[1]])
        elif kind == "pl":
            with torch.no_grad():
                out = h.compute_pl(self.derivs[op[1]], hedge=self.hedges[op[1]])
        elif kind == "input":
            out = h.get_input(self.derivs[op[1]], op[2])
        elif kind == "loss":
            # value and gradient: d loss / d parameters runs through the whole hedge sequence (for prev_hedge models
            # through hedge(t) -> prev_hedge -> hedge(t+1)), so it observes the autograd side of the hedger's state
            loss = h.compute_loss(self.derivs[op[1]], hedge=self.hedges[op[1]], n_paths=op[2])
            params = list(h.parameters()) + [q for m in self.aux for q in m.parameters()]
            try:
                grads = torch.autograd.grad(loss, params, allow_unused=True) if params and loss.requires_grad else ()
                grads = [None if g is None else g.detach() for g in grads]
            except RuntimeError as e:       # e.g. a stale graph kept by the hedger: an observation, not a harness error
                grads = Raised(f"RuntimeError: {str(e)[:120]}")
            out = {"loss": loss.detach(), "grad": grads}
        elif kind == "backward":
            # gradient inspection / an interrupted training step: leaves .grad populated on the parameters
            loss = h.compute_loss(self.derivs[op[1]], hedge=self.hedges[op[1]], n_paths=op[2])
            try:
                loss.backward()
                out = loss.detach()
            except RuntimeError as e:       # torch autograd called from the harness (e.g. a stale graph kept alive by the
                out = Raised(f"RuntimeError: {str(e)[:120]}")     # hedger): an outcome to compare with the fresh world
        elif kind in ("eval", "train"):
            getattr(h, kind)()
            out = None
        elif kind == "default":
            self.ambient = op[1]
            out = None
        elif kind in ("badprice", "badloss", "badpl"):
            # hedge list with mismatched simulated sizes: the library raises ValueError/RuntimeError (after simulating, for
            # price/compute_loss); the raise itself is the expected result, the ambient state must survive it
            i = op[1]
            bad = [self.prims[i], self.prims[BAD_PARTNER[i]]]
            try:
                if kind == "badprice":
                    out = h.price(self.derivs[i], hedge=bad, n_paths=op[2])
                elif kind == "badloss":
                    out = h.compute_loss(self.derivs[i], hedge=bad, n_paths=op[2]).detach()
                else:
                    out = h.compute_pl(self.derivs[i], hedge=bad)
            except (ValueError, RuntimeError) as e:      # size check in compute_hedge / torch.stack of the spots
                out = Raised(f"{type(e).__name__}: {str(e)[:160]}")
        elif kind == "price":
            out = h.price(self.derivs[op[1]], hedge=self.hedges[op[1]], n_paths=op[2])
        elif kind == "fit":
            hist = h.fit(self.derivs[op[1]], hedge=self.hedges[op[1]], n_epochs=1, n_paths=op[2], verbose=False)
            out = {"history": list(hist), "parameters": self.state()}
        else:
            raise KeyError(kind)
        if kind == "input":
            self.access = (op[1], op[2])
        elif kind in ("hedge", "pl", "loss", "price", "fit", "backward"):
            self.access = (op[1], None)      # a state-independent hedger evaluates get(None)
        self.post = snap_prims(self.prims) if observe else None
        self.post_hb = (snap_module_buffers(self.hedger), snap_module_buffers(self.copy)) if observe else None
        self.last = out
        self.trace.append(op)
        return out


def _names(obj):
    out = sorted(k for k in vars(obj) if k not in ("dirty",))
    for group in ("_buffers", "_parameters", "_modules"):
        out += sorted(f"{group}.{k}" for k in (vars(obj).get(group) or {}))
    return tuple(out)


class _Donor:
    """Frozen copy of a world's parameters (so that a world can adopt its own old ones)."""

    def __init__(self, w, state=None):
        self._st = w.state() if state is None else state
        self._pd = next((v.dtype for v in self._st["hedger"].values() if v.is_floating_point()), None)

    def param_dtype(self):
        return self._pd

    def state(self):
        return self._st


class PreScaledWW(torch.nn.Module):
    """Whalley-Wilmott no-transaction band behind a trainable pre-layer (one scale per market input; the
    prev_hedge column is passed through): a prev_hedge model whose gradient runs through the clamp."""

    def __init__(self, ww):
        super().__init__()
        self.ww = ww
        self.scale = torch.nn.Parameter(torch.tensor([1.0, 1.0625, 0.9375], dtype=torch.float32))

    def forward(self, input):
        scaled = input[..., :-1] * self.scale.to(input.dtype)
        return self.ww(torch.cat([scaled, input[..., -1:]], dim=-1))


def make_hedger(variant, derivs, seed):
    """The hedger factory.  Models that hold a derivative are bound to the live ``derivs``."""
    from pfhedge.features import Barrier, ModuleOutput, Spot, UnderlierSpot
    from pfhedge.nn import EntropicRiskMeasure, ExpectedShortfall, Hedger, MultiLayerPerceptron, WhalleyWilmott
    aux = []
    f32 = torch.float32
    if variant == "mlp":
        inputs = ["moneyness", "time_to_maturity", "volatility"]
        model = MultiLayerPerceptron(3, 1, n_layers=1, n_units=3)
        g = torch.Generator().manual_seed(104729 + seed)
        with torch.no_grad():
            for p in model.parameters():
                p.copy_(torch.randint(-12, 13, p.shape, generator=g).to(f32) / 16 + 1 / 32)
        crit = EntropicRiskMeasure()
    elif variant == "prev":
        inputs = ["moneyness", "time_to_maturity", "prev_hedge"]
        model = generic_linear(3, 1, seed, f32, tag=1)
        crit = ExpectedShortfall(0.5)
    elif variant == "modout":
        inner = generic_linear(4, 2, seed, f32, tag=2)
        mo = ModuleOutput(inner, ["moneyness", "time_to_maturity", Barrier(1.3, up=True), "max_log_moneyness"])
        aux.append(mo)
        inputs = [mo, "volatility"]
        model = generic_linear(3, 1, seed, f32, tag=3)
        crit = EntropicRiskMeasure()
    elif variant == "logfeat":
        inputs = ["log_moneyness", "max_log_moneyness", UnderlierSpot(log=True), Spot(log=True), "time_to_maturity"]
        model = generic_linear(5, 1, seed, f32, tag=4)
        crit = EntropicRiskMeasure()
    elif variant == "ww":
        model = WhalleyWilmott(derivs[0])      # holds derivs[0]: must stay bound to the live one; no parameters
        inputs = model.inputs()
        crit = EntropicRiskMeasure()
    elif variant == "wwpre":
        model = PreScaledWW(WhalleyWilmott(derivs[0]))      # the same behind a trainable pre-layer (gradients)
        inputs = model.ww.inputs()
        crit = EntropicRiskMeasure()
    else:
        raise KeyError(variant)
    return Hedger(model, inputs, criterion=crit), aux


def operations(variant, tier="thorough"):
    """The operation alphabet.  The quick tier uses a covering subset (every operation kind on at least two
    derivatives, both path counts, both cast directions, get_input at several time steps of one derivative so
    that non-monotone access orders arise as histories); the thorough tier the full product."""
    nd = len(DERIVS)
    if tier == "quick" and variant == "logfeat":
        # log features: the histories that matter are repeated evaluations and re-simulations
        return [("hedge", 0), ("hedge", 1), ("hedge", 2), ("pl", 0), ("sim", 0, 3), ("dto", 1, "float32"),
                ("hto", "float64"), ("loss", 0, 2), ("price", 0, 3), ("fit", 0, 2), ("input", 0, None),
                ("badprice", 0, 2)]
    if tier == "quick" and variant == "wwpre":
        # the trainable Whalley-Wilmott hedger is there for the gradient observations: operations that change
        # mode, parameters, dtype and data around compute_loss (value + gradient)
        return [("hedge", 0), ("loss", 0, 2), ("loss", 1, 3), ("sim", 0, 3), ("hto", "float64"),
                ("fit", 0, 2), ("eval",), ("train",), ("backward", 0, 2)]
    if tier == "quick":
        # deep copies of the hedger: in the quick tier for the Linear+prev_hedge hedger, in the thorough tier for all
        return [("hedge", 0), ("hedge", 2), ("pl", 0), ("pl", 1),
                ("sim", 0, 3), ("sim", 1, 3), ("sim", 2, 2), ("sim", 2, 3),
                ("hto", "float64"),
                ("dto", 0, "float64"), ("dto", 1, "float32"), ("dto", 2, "float64"),
                ("loss", 0, 2), ("loss", 1, 3), ("price", 0, 3),
                ("fit", 0, 2), ("fit", 1, 3),
                ("input", 0, None), ("input", 2, 1), ("badprice", 0, 2),
                # non-monotone get_input orders where bound features survive between calls (ModuleOutput binds in place)
                ] + ([("fit", 2, 2)] if variant == "mlp" else []       # fit with an explicit hedge list [listed option]
                     ) + ([("input", 0, 2), ("input", 0, 1)] if variant == "modout" else []
                     ) + ([("eval",), ("backward", 0, 2)] if variant == "prev" else []                  # gradient path through prev_hedge
                          ) + ([("copy",), ("chedge", 0)] if variant == "prev" else [])
    ops = []
    for i in range(nd):
        ops.append(("hedge", i))
    for i in range(nd):
        ops.append(("pl", i))
    for i in range(nd):
        for n in N_PATHS:
            ops.append(("sim", i, n))
    for dt in ("float64", "float32"):
        ops.append(("hto", dt))
    for i in range(nd):
        for dt in ("float64", "float32"):
            ops.append(("dto", i, dt))
    for i in range(nd):
        ops.append(("loss", i, 2))
    for i in range(nd):
        ops.append(("price", i, 3))
    for i in range(nd):
        ops.append(("fit", i, 2))
    for i in range(nd):
        for t in (None, 0, 1, DERIVS[i][3] - 1):      # non-monotone access orders arise as histories
            ops.append(("input", i, t))
    ops += [("backward", 0, 2), ("backward", 1, 3), ("eval",), ("train",), ("copy",)]
    for i in range(nd):
        ops += [("badprice", i, 2), ("badpl", i)]
    ops.append(("badloss", 0, 2))
    if variant in ("mlp", "ww"):     # ambient default dtype as an operation: vectorised and stepwise branch (all variants: oracle 3c)
        ops += [("default", "float64"), ("default", "float32")]
    for i in range(nd):
        ops.append(("chedge", i))
    return ops


def raised_type(x):
    """Exception type name if the result is (or contains) a Raised outcome, else None."""
    if isinstance(x, Raised):
        return str(x).split(":")[0]
    if isinstance(x, dict):
        return next((raised_type(v) for v in x.values() if raised_type(v)), None)
    return None


class Raised(str):
    """Result of an operation that raised inside pfhedge (the reference model defines a value for
    every enabled operation, so this is compared like a value and reported)."""


def safe_apply(w, op, observe=False, ambient=None):
    """apply(), but an exception raised inside pfhedge becomes a Raised value."""
    from mc.core.runner import blame
    try:
        return w.apply(op, observe=observe, ambient=ambient)
    except Exception as e:
        if blame(e) is None:
            raise
        w.post = snap_prims(w.prims) if observe else None
        w.post_hb = (snap_module_buffers(w.hedger), snap_module_buffers(w.copy)) if observe else None
        w.last = Raised(f"{type(e).__name__}: {str(e)[:200]}")
        w.failed = True
        return w.last


def build(variant, seed, history):
    """Fresh world with the history replayed.  Only the last operation may raise inside pfhedge
    (recorded as a Raised result; such a world is not expanded further)."""
    w = HWorld(variant, seed)
    for k, op in enumerate(history):
        if k == len(history) - 1:
            safe_apply(w, tuple(op), observe=True)
        else:
            w.apply(tuple(op), observe=False)
    return w


def data_projection(history):
    """The data-changing part of a history: simulate/to on derivatives (compute_loss, price and
    fit simulate the derivative they are given with the requested number of paths)."""
    out = []
    for op in history:
        op = tuple(op)
        if op[0] in ("sim", "dto"):
            out.append(op)
        elif op[0] in ("loss", "price", "fit", "backward", "badprice", "badloss"):
            out.append(("sim", op[1], op[2]))
    return out


def may_change(op):
    """Frame rule: index of the derivative whose series the operation may replace / cast."""
    return op[1] if op[0] in ("sim", "dto", "loss", "price", "fit", "backward", "badprice", "badloss") else None


ENTRY = {"backward": "Hedger.compute_loss", "default": "torch.set_default_dtype", "badprice": "Hedger.price", "badloss": "Hedger.compute_loss",
         "badpl": "Hedger.compute_pl", "eval": "Hedger.eval", "train": "Hedger.train", "copy": "copy.deepcopy(Hedger)", "chedge": "Hedger.compute_hedge",
         "sim": "BaseDerivative.simulate", "dto": "BaseDerivative.to", "hto": "Hedger.to",
         "hedge": "Hedger.compute_hedge", "pl": "Hedger.compute_pl", "input": "Hedger.get_input",
         "loss": "Hedger.compute_loss", "price": "Hedger.price", "fit": "Hedger.fit"}

"""Reference model of "a simulated series is well-formed" (C11).

Written from the statement of the property and the documentation of
``pfhedge.stochastic`` / ``pfhedge.instruments`` (signatures, "If None (default), it
uses (theta,)", ``default_init_state``), not from the generator bodies:

* which series a generator / an instrument produces, which of them are
  exponential-type prices (positive), variances (non-negative), and where the
  volatility lives;
* the documented default initial state;
* what "column 0 equals the requested initial state" means for a python scalar, an
  int and a tensor scalar in the requested dtype;
* the dtype a series must have (requested, or the global default in force at the call).

Nothing here draws a random number.
"""
from __future__ import annotations

import math

import torch

DTYPES = {"float16": torch.float16, "bfloat16": torch.bfloat16,
          "float32": torch.float32, "float64": torch.float64}
HALF = (torch.float16, torch.bfloat16)

# ---------------------------------------------------------------------------------
# what each generator returns (documentation of pfhedge.stochastic)
# ---------------------------------------------------------------------------------
# fields: names of the returned series, in the order of the init_state tuple
# exp:     exponential-type price series (property: positive)
# nonneg:  variance series (property: non-negative)
# vol:     how "volatility" and "variance" are exposed ((vol_attr, var_attr) or None)
# init:    documented default initial state as a function of the parameters
# bare:    documentation says init_state "also accepts a torch.Tensor or a float"
GENERATORS = {
    "brownian": dict(fn="generate_brownian", fields=("value",), exp=(), nonneg=(), vol=None,
                     init=lambda p: (0.0,), bare=True),
    "geometric_brownian": dict(fn="generate_geometric_brownian", fields=("spot",), exp=("spot",), nonneg=(),
                               vol=None, init=lambda p: (1.0,), bare=True),
    "cir": dict(fn="generate_cir", fields=("value",), exp=(), nonneg=("value",), vol=None,
                init=lambda p: (p.get("theta", 0.04),), bare=True),
    "heston": dict(fn="generate_heston", fields=("spot", "variance"), exp=("spot",), nonneg=("variance",),
                   vol=("volatility", "variance"), init=lambda p: (1.0, p.get("theta", 0.04)), bare=False),
    "vasicek": dict(fn="generate_vasicek", fields=("value",), exp=(), nonneg=(), vol=None,
                    init=lambda p: (p.get("theta", 0.04),), bare=True),
    "merton_jump": dict(fn="generate_merton_jump", fields=("spot",), exp=("spot",), nonneg=(), vol=None,
                        init=lambda p: (1.0,), bare=True),
    "kou_jump": dict(fn="generate_kou_jump", fields=("spot",), exp=("spot",), nonneg=(), vol=None,
                     init=lambda p: (1.0,), bare=True),
    "rough_bergomi": dict(fn="generate_rough_bergomi", fields=("spot", "variance"), exp=("spot",),
                          nonneg=("variance",), vol=("volatility", "variance"),
                          init=lambda p: (1.0, p.get("xi", 0.04)), bare=False),
    "local_volatility": dict(fn="generate_local_volatility_process", fields=("spot", "volatility"), exp=(),
                             nonneg=(), vol=("volatility", "variance"), init=lambda p: (1.0,), bare=True),
}

# instruments: class, generator whose series it registers, buffers it registers in simulate()
INSTRUMENTS = {
    "BrownianStock": dict(gen="geometric_brownian", buffers=("spot",), vol=("volatility", "variance"),
                          init=lambda p: (1.0,)),
    "HestonStock": dict(gen="heston", buffers=("spot", "variance"), vol=("volatility", "variance"),
                        init=lambda p: (1.0, p.get("theta", 0.04))),
    "CIRRate": dict(gen="cir", buffers=("spot",), vol=None, init=lambda p: (p.get("theta", 0.04),)),
    "VasicekRate": dict(gen="vasicek", buffers=("spot",), vol=None, init=lambda p: (p.get("theta", 0.04),)),
    "MertonJumpStock": dict(gen="merton_jump", buffers=("spot",), vol=("volatility", "variance"),
                            init=lambda p: (1.0,)),
    "KouJumpStock": dict(gen="kou_jump", buffers=("spot",), vol=("volatility", "variance"),
                         init=lambda p: (1.0,)),
    "RoughBergomiStock": dict(gen="rough_bergomi", buffers=("spot", "variance"), vol=("volatility", "variance"),
                              init=lambda p: (1.0, p.get("xi", 0.04))),
    "LocalVolatilityStock": dict(gen="local_volatility", buffers=("spot", "volatility"),
                                 vol=("volatility", "variance"), init=lambda p: (1.0,)),
}
# series of an instrument that are exponential-type prices / variances (statement of C11)
INSTRUMENT_EXP = {"BrownianStock": ("spot",), "HestonStock": ("spot",), "MertonJumpStock": ("spot",),
                  "KouJumpStock": ("spot",), "RoughBergomiStock": ("spot",)}
INSTRUMENT_NONNEG = {"HestonStock": ("variance",), "RoughBergomiStock": ("variance",), "CIRRate": ("spot",)}
# column 0 passes through exp(log(.)) (documented Andersen log-spot scheme): tolerance, not bitwise
EXPLOG_COL0 = {("heston", "spot"), ("HestonStock", "spot")}


def expected_dtype(requested, default):
    """dtype of every returned series: the requested one, else the global default in force."""
    return requested if requested is not None else default


def scalar_in_dtype(x, dtype):
    """The value the python/tensor scalar ``x`` has in ``dtype``: ONE rounding from the
    exact value of x (a python float is a binary64 number, an int is exact)."""
    if isinstance(x, torch.Tensor):
        return x.detach().to(torch.float64).to(dtype) if x.dtype != dtype else x.detach().clone()
    return torch.tensor(float(x), dtype=torch.float64).to(dtype)


def explog_tolerance(x, dtype):
    """|exp(fl(log x)) - x| bound.  log and exp of torch are accurate to 1 ulp (half types: computed in
    float32 and rounded, <= 1 ulp too): fl(log x) = log x + e1, |e1| <= eps*|log x|; exp(.) then
    carries relative error e^{e1}-1 <= eps*|log x| (1st order) plus its own eps.  Total relative
    error <= eps*(1+|log x|); a factor 2 covers the second-order terms and the final rounding."""
    eps = torch.finfo(dtype).eps
    x = abs(float(x))
    return 2.0 * eps * (1.0 + abs(math.log(x))) * x


def sqrt_tolerance(dtype):
    """volatility vs sqrt(variance), relative.  Either vol = fl(sqrt(var)) (error eps/2), or
    var = fl(vol^2) (sqrt(var) = vol*(1+d/2), |d|<=eps/2), or both are casts of sigma and of the
    double sigma^2 (vol = s(1+d1), sqrt(var) = s(1+d2/2): <= 0.75 eps).  2 eps covers all."""
    return 2.0 * torch.finfo(dtype).eps


def is_backend_unsupported(exc, dtype):
    """The property exempts half precisions the backend does not support.  Exactly this is
    exempted: dtype is float16/bfloat16 and torch raised its standard "kernel missing" error,
    ``NotImplementedError: "<kernel>" not implemented for 'Half'|'BFloat16'`` (also seen as
    RuntimeError in older builds).  Dtype *mismatch* errors ("expected scalar type ...",
    "must have the same dtype") are pfhedge's responsibility and are not exempted."""
    if dtype not in HALF:
        return False
    if not isinstance(exc, (NotImplementedError, RuntimeError)):
        return False
    msg = str(exc)
    tag = "'Half'" if dtype == torch.float16 else "'BFloat16'"
    return "not implemented for " + tag in msg

"""Reference automaton of the instrument dtype/device contract (C17).

Written from docs/source/notes/instrument_attributes.rst and the docstrings of
``BaseInstrument.to`` / ``BasePrimary.register_buffer``:

* a primary instrument *declares* a dtype and a device (``None`` = not declared: "The default
  dtype is the global default");
* ``to(dtype)`` / ``float()`` / ``double()`` / ``half()`` / ``bfloat16()`` / ``to(tensor)`` /
  ``to(instrument)`` "modifies the instrument so that subsequent simulations will be performed
  with the desired dtype" and "cast[s] all the buffers that are already simulated";
  an argument that carries no dtype (``to(device=...)``, an instrument that declares none) leaves
  the declared dtype alone, and likewise for the device;
* ``to`` "only accepts floating point dtypes": anything else raises ``TypeError`` and changes nothing;
* ``register_buffer``: "The dtype and device of the buffer are the instrument's dtype and device";
* ``simulate()`` registers the instrument's series in the declared dtype, or in the global default
  dtype in force at the call when none is declared;
* a derivative's ``dtype`` / ``device`` are its underlier's and ``derivative.to(...)`` /
  ``derivative.simulate()`` act on the underlier.

State: (declared dtype | None, declared device | None, ordered buffers name -> dtype, global default).
Operations are JSON lists ``[kind, arg]``; ``step`` returns (new_state, expected_exception | None).
dtype names are strings ("float64"); nothing here touches torch objects.
"""
from __future__ import annotations

FLOATS = ("float16", "bfloat16", "float32", "float64")
NONFLOAT = ("int32", "int64", "complex64", "bool")
ALIASES = {"float": "float32", "double": "float64", "half": "float16", "bfloat16": "bfloat16",
           "float64": "float64", "float32": "float32", "float16": "float16"}
# other instruments / tensors used as arguments of to(): name -> (dtype or None, device or None)
ARG_INSTRUMENTS = {
    "primary_float64": ("float64", None),        # BrownianStock(dtype=float64)
    "primary_undeclared": (None, None),          # BrownianStock()
    "primary_float16_cpu": ("float16", "cpu"),   # BrownianStock(dtype=float16, device="cpu")
    "derivative_float32": ("float32", None),     # EuropeanOption(BrownianStock(dtype=float32))
}


class State:
    __slots__ = ("declared", "device", "buffers", "default")

    def __init__(self, declared=None, device=None, buffers=(), default="float32"):
        self.declared = declared
        self.device = device
        self.buffers = tuple(buffers)      # ((name, dtype), ...) in registration order
        self.default = default

    def key(self):
        return (self.declared, self.device, self.buffers, self.default)

    def copy(self, **kw):
        s = State(self.declared, self.device, self.buffers, self.default)
        for k, v in kw.items():
            setattr(s, k, v)
        return s

    def sim_dtype(self):
        """dtype in which a simulation started now is produced."""
        return self.declared if self.declared is not None else self.default

    def __repr__(self):
        return f"State(declared={self.declared}, device={self.device}, buffers={dict(self.buffers)}, default={self.default})"


def _cast(state, dtype, device):
    """to() with a (possibly absent) dtype and a (possibly absent) device."""
    if dtype is not None and dtype not in FLOATS:
        return state, "TypeError"
    new = state.copy()
    if dtype is not None:
        new.declared = dtype
        new.buffers = tuple((n, dtype) for n, _ in state.buffers)
    if device is not None:
        new.device = device
    return new, None


def step(state, op, sim_buffers):
    """One operation.  ``sim_buffers``: names of the series simulate() registers for this class."""
    kind, arg = op[0], (op[1] if len(op) > 1 else None)
    if kind.startswith("d."):
        kind = kind[2:]                  # derivative operations act on the underlier
    if kind in ("to", "to_kw"):          # to(dtype) / to(dtype=dtype)
        return _cast(state, arg, None)
    if kind == "alias":                  # float() double() half() bfloat16() float64() float32() float16()
        return _cast(state, ALIASES[arg], None)
    if kind == "to_tensor":              # to(tensor): the tensor's dtype and device
        return _cast(state, arg, "cpu")
    if kind == "to_instrument":
        dtype, device = ARG_INSTRUMENTS[arg]
        return _cast(state, dtype, device)
    if kind in ("to_device", "cpu"):     # to(device="cpu") / to("cpu") / cpu()
        return _cast(state, None, "cpu")
    if kind == "to_device_dtype":        # to("cpu", dtype)
        return _cast(state, arg, "cpu")
    if kind in ("simulate", "simulate_init"):
        d = state.sim_dtype()
        names = [n for n, _ in state.buffers]
        new = dict(state.buffers)
        for n in sim_buffers:
            new[n] = d
        order = names + [n for n in sim_buffers if n not in names]
        return state.copy(buffers=tuple((n, new[n]) for n in order)), None
    if kind == "register_buffer":        # register_buffer("aux", tensor of dtype arg)
        d = state.declared if state.declared is not None else arg
        names = [n for n, _ in state.buffers]
        new = dict(state.buffers)
        new["aux"] = d
        order = names + (["aux"] if "aux" not in names else [])
        return state.copy(buffers=tuple((n, new[n]) for n in order)), None
    if kind == "register_spot_int":      # register_buffer("spot", <integer tensor>) on a declared instrument
        cur = dict(state.buffers)
        names = [n for n, _ in state.buffers]
        cur["spot"] = state.declared if state.declared is not None else arg
        order = names + (["spot"] if "spot" not in names else [])
        return state.copy(buffers=tuple((n, cur[n]) for n in order)), None
    if kind == "register_alias":         # register_buffer("reference", <the spot buffer>)
        cur = dict(state.buffers)
        d = state.declared if state.declared is not None else cur["spot"]
        names = [n for n, _ in state.buffers]
        cur["reference"] = d
        order = names + (["reference"] if "reference" not in names else [])
        return state.copy(buffers=tuple((n, cur[n]) for n in order)), None
    if kind == "set_default":
        return state.copy(default=arg), None
    if kind == "noop":                   # an operation on another instrument
        return state.copy(), None
    raise KeyError(op)


def fold(initial, history, sim_buffers):
    """State after a history; an operation expected to raise leaves the state unchanged."""
    s = initial
    for op in history:
        s, _ = step(s, op, sim_buffers)
    return s


def initial_state(ctor_dtype, ctor_device, default):
    """After the constructor: 'A instrument of specific dtype/device can be constructed by passing
    a torch.dtype and/or a torch.device to a constructor.'"""
    return State(declared=ctor_dtype, device=ctor_device, buffers=(), default=default)


def invariant(state):
    """Every buffer has the declared dtype when one is declared."""
    if state.declared is None:
        return True
    return all(d == state.declared for _, d in state.buffers)

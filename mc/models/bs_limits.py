"""Reference model for C18: what a zero-rate, zero-drift Black-Scholes price / delta must be
when the total standard deviation w = sigma*sqrt(t) is zero or negligible.

Written from the contract, not from the pricing formulas:

* w = 0 (t = 0 or sigma = 0): the terminal price equals today's price S = K*exp(s) with
  certainty and the running maximum stays M = K*exp(m), m >= s.  So the value is the payoff
  evaluated at (S, M).
* w > 0 but |log-distance to the kink| >= Z*w (Z = 40): the probability of crossing the kink
  is < Phi(-40) ~ 1e-350 < smallest positive double, so the value and delta are the certain ones up
  to rounding.  "Kink" = the strike for European/binary payoffs, the barrier (= strike) for the
  American binary, the running maximum (or the strike while the maximum is below it) for the lookback.
* otherwise ("uncertain zone"): only model-free bounds are used:
    European / lookback:  payoff - ulps <= price <= payoff + c*S*sqrt(exp(w^2)-1) + ulps
        (Jensen: time value >= 0;  E|S_T - S| <= S*sqrt(exp(w^2)-1) for the European, c = 1;
         Doob L2: E[sup_t (S_t - S)] <= 2*S*sqrt(exp(w^2)-1) for the running maximum, c = 2)
    binaries: 0 <= price <= 1
    deltas: European call in [0,1], put in [-1,0]; lookback in [0,2]; binaries sign only.

All decisions (which zone) are taken in exact rational arithmetic on the float arguments:
|x| >= Z*w  <=>  x^2 >= Z^2 * sigma^2 * t.

Representation slack: an implementation may go through the spot S = K*exp(s) (the autograd Greeks
do), which in a dtype of unit roundoff eps only resolves s up to ~eps.  A log-distance |x| < 4*eps
to the kink is therefore never called 'certain' (e.g. s = 1e-9 in float32 is indistinguishable from
s = 0 once it has been through exp/log); only the bounds of the uncertain zone apply there.
"""
from __future__ import annotations

import math
from fractions import Fraction

Z = 40  # Phi(-40) = 3.7e-350 underflows to 0 in binary64 (and binary32)
KINDS = ("european", "european_binary", "american_binary", "lookback")


def _fr(x):
    return Fraction(x)


def far(x, t, v, eps, z=Z):
    """True iff |x| >= z * v * sqrt(t) (exact) and |x| >= 4*eps (resolvable through the spot)."""
    if x == 0 or abs(x) < 4 * eps:
        return False
    return _fr(x) ** 2 >= (z * z) * _fr(v) ** 2 * _fr(t)


def w_is_zero(t, v):
    return t == 0 or v == 0


def w_float(t, v):
    return v * math.sqrt(t)


def spread(S, t, v):
    """S*sqrt(exp(w^2)-1), an upper bound of E|S_T - S| (double arithmetic, w tiny)."""
    w2 = v * v * t
    return S * math.sqrt(math.expm1(w2)) if w2 > 0 else 0.0


def zone(kind, s, m, t, v, eps):
    """'certain', 'certain_at_kink' (w = 0 exactly on the kink) or 'uncertain'.  m is None for
    European kinds."""
    if kind in ("european", "european_binary"):
        if w_is_zero(t, v) and s == 0:
            return "certain_at_kink"
        return "certain" if far(s, t, v, eps) else "uncertain"
    if kind == "american_binary":
        if m >= 0:
            return "certain"  # already hit: worth 1 whatever happens
        # s <= m < 0: not hit so far; never hit if nothing moves
        return "certain" if far(s, t, v, eps) else "uncertain"
    if kind == "lookback":
        # kinks: S crossing the running maximum (payoff depends on max(M, S_T)); and, while
        # M < K, S crossing the strike.  With s <= m: distance to the nearest relevant kink is
        # (m - s) when m >= 0, and -s (to the strike) when m < 0.
        d = (m - s) if m >= 0 else -s
        if w_is_zero(t, v) and d == 0:
            return "certain_at_kink"
        return "certain" if far(d, t, v, eps) else "uncertain"
    raise KeyError(kind)


def payoff(kind, s, m, K, call=True):
    """The payoff at (S, M) = (K e^s, K e^m) - what the option is worth if nothing moves any more."""
    if kind == "european":
        return K * max(math.expm1(s), 0.0) if call else K * max(-math.expm1(s), 0.0)
    if kind == "european_binary":
        if s == 0:
            return None  # at the strike: not stated by the property
        return float(s > 0) if call else float(s < 0)
    if kind == "american_binary":
        return 1.0 if m >= 0 else 0.0
    if kind == "lookback":
        return K * max(math.expm1(max(m, s)), 0.0)
    raise KeyError(kind)


def price_bounds(kind, s, m, t, v, K, call, eps):
    """(lo, hi, zone) the implementation's price must lie in (inclusive)."""
    zn = zone(kind, s, m, t, v, eps)
    S = K * math.exp(s)
    top = K * math.exp(max(s, m if m is not None else s))
    if kind in ("european", "lookback"):
        p = payoff(kind, s, m, K, call)
        # rounding: exp (1 ulp), product with K, one or two subtractions / additions of
        # quantities of size <= top + K; put adds K*(1-e^s): <= 8 roundings of that size.
        r = 8 * eps * (top + K)
        if zn in ("certain", "certain_at_kink"):
            if kind == "european" and p == 0.0:
                # A worthless option: its value range is [0, K] (put) or [0, S] (call) whatever the model, so an
                # error of half that range is never "rounding" - without this cap the bound above is vacuous for a
                # put once S = K*e^s is so large that K is below the resolution of S (s > ~16 in float32, ~36 in float64).
                r = min(r, 0.5 * (S if call else K))
            return p - r, p + r, zn
        c = 1.0 if kind == "european" else 2.0
        return p - r, p + 1.01 * c * spread(top, t, v) + r, zn
    # binaries
    if zn == "certain":
        p = payoff(kind, s, m, K, call)
        if p is not None:
            return p - eps, p + eps, zn  # 0 or 1 up to 1 ulp of 1
    return 0.0, 1.0 + eps, zn


def delta_bounds(kind, s, m, t, v, K, call, eps):
    """(lo, hi, zone) for the delta (derivative with respect to the spot)."""
    zn = zone(kind, s, m, t, v, eps)
    inf = math.inf
    if kind == "european":
        if zn == "certain":
            d = (1.0 if s > 0 else 0.0) if call else (0.0 if s > 0 else -1.0)
            return d, d, zn
        if zn == "certain_at_kink":
            # limit of Phi(+-w/2) as w -> 0 at the strike
            d = 0.5 if call else -0.5
            return d, d, zn
        return (0.0, 1.0, zn) if call else (-1.0, 0.0, zn)
    if kind == "european_binary":
        if zn == "certain":
            return 0.0, 0.0, zn
        # at / near the strike the delta is a (scaled) density: non-negative for calls, may be +inf
        return (0.0, inf, zn) if call else (-inf, 0.0, zn)
    if kind == "american_binary":
        if zn == "certain":
            return 0.0, 0.0, zn
        return 0.0, inf, zn
    if kind == "lookback":
        if zn == "certain":
            return 0.0, 0.0, zn
        if zn == "certain_at_kink":
            if m < 0:
                # cannot happen (d = -s > 0 when m < 0)
                return 0.0, 0.0, zn
            # S = M >= K, w = 0: the closed-form delta 2*Phi(w/2) + O(w) tends to 1; the payoff
            # itself has one-sided slopes 0 and 1 there.  Accept [0, 2] (the range of the delta).
            return 0.0, 2.0, zn
        # Uncertain zone: the exact delta 2*Phi(d) + w*(d*Phi(d) + phi(d)) lies in [0, 2].  Any
        # implementation that differentiates the price (pfhedge: autograd) forms +phi(d)/w and
        # -phi(d)/w (from S*Phi(m1) and M*(1-Phi(m2))) which cancel analytically; each carries a
        # relative rounding error eps, so the result is only defined up to ~eps*phi(d)/w.  With
        # d = x/w, x the log-distance to the kink.  (For w -> 0 at the kink this is vacuous apart from
        # NaN-freeness - the property does not speak about that zone.)
        x = (m - s) if m >= 0 else -s
        w = w_float(t, v)
        if w > 0:
            d = x / w
            cond = math.exp(-0.5 * d * d) / math.sqrt(2 * math.pi) / w if abs(d) < 39 else 0.0
        else:
            cond = 0.0
        tol = 16 * eps * (1.0 + cond)
        return 0.0 - tol, 2.0 + tol, zn
    raise KeyError(kind)

"""Reference model for the Whalley-Wilmott no-transaction band (C20), in mpmath.

Black-Scholes delta and gamma of a European option at zero rate are written from the
textbook formulas (Hull, ch. 19):

    d1    = (ln(S/K) + sigma^2 t / 2) / (sigma sqrt t)
    delta = N(d1)            (call),   N(d1) - 1   (put)
    gamma = n(d1) / (S sigma sqrt t)

with the limits at sigma^2 t = 0 and S != K:  delta = 1{S>K} (call) / -1{S<K} (put), gamma = 0
(at S = K and sigma^2 t = 0 the gamma is a Dirac mass: not defined, such points are not enumerated).

Band (Whalley & Wilmott 1997, as quoted in the class docstring):
    half-width  w = (3 c Gamma^2 S / (2 a))^(1/3)
    new hedge   = prev            if |prev - delta| <= w
                = delta - w       if prev < delta - w       (the nearer edge)
                = delta + w       if prev > delta + w
"""
from __future__ import annotations

import mpmath as mp

mp.mp.dps = 40


def _m(x):
    return x if isinstance(x, mp.mpf) else mp.mpf(x)


def norm_cdf(x):
    return mp.erfc(-x / mp.sqrt(2)) / 2


def norm_pdf(x):
    return mp.exp(-x * x / 2) / mp.sqrt(2 * mp.pi)


def bs_d1(log_moneyness, t, sigma):
    s, t, sigma = _m(log_moneyness), _m(t), _m(sigma)
    sd = sigma * mp.sqrt(t)
    return (s + sd * sd / 2) / sd


def bs_delta(log_moneyness, t, sigma, call=True):
    s, t, sigma = _m(log_moneyness), _m(t), _m(sigma)
    if sigma * sigma * t == 0:
        if s == 0:
            raise ValueError("delta at the strike at expiry is not defined")
        up = mp.mpf(1) if s > 0 else mp.mpf(0)
        return up if call else up - 1
    d = norm_cdf(bs_d1(s, t, sigma))
    return d if call else d - 1


def bs_gamma(log_moneyness, t, sigma, strike=1.0):
    s, t, sigma, k = _m(log_moneyness), _m(t), _m(sigma), _m(strike)
    if sigma * sigma * t == 0:
        if s == 0:
            raise ValueError("gamma at the strike at expiry is not defined")
        return mp.mpf(0)
    spot = k * mp.exp(s)
    return norm_pdf(bs_d1(s, t, sigma)) / (spot * sigma * mp.sqrt(t))


def half_width(gamma, spot, cost, a):
    gamma, spot, cost, a = _m(gamma), _m(spot), _m(cost), _m(a)
    return mp.cbrt(3 * cost * gamma * gamma * spot / (2 * a))


def band_move(prev, delta, width):
    """(new hedge, region) with region in {'inside', 'below', 'above'}."""
    prev, delta, width = _m(prev), _m(delta), _m(width)
    if abs(prev - delta) <= width:
        return prev, "inside"
    if prev < delta - width:
        return delta - width, "below"
    return delta + width, "above"


def ww_european(log_moneyness, t, sigma, prev, strike, cost, a, call=True):
    """Everything the check needs for one case: dict(delta, gamma, width, out, region, d1)."""
    s = _m(log_moneyness)
    delta = bs_delta(s, t, sigma, call)
    gamma = bs_gamma(s, t, sigma, strike)
    spot = _m(strike) * mp.exp(s)
    w = half_width(gamma, spot, cost, a)
    out, region = band_move(prev, delta, w)
    tt, sg = _m(t), _m(sigma)
    d1 = bs_d1(s, tt, sg) if sg * sg * tt != 0 else mp.inf
    return {"delta": delta, "gamma": gamma, "width": w, "out": out, "region": region, "d1": d1, "spot": spot}

"""Harness helpers shared by C02 and C03: scripted worlds (real instruments carrying the
complete path tree), feature instances from JSON specs, hedging models with dyadic
weights, the "ignored prev_hedge" wrapper that forces the stepwise branch, and a recording
wrapper that logs what the model sees at every call.

Not a reference model (those are feature_ref / hedge_loop); nothing here is compared
against - it only builds the objects under test from a JSON-serialisable description.
"""
from __future__ import annotations

import torch
from torch.nn import Module

from mc.core import market

DTYPES = {"float32": torch.float32, "float64": torch.float64}
DTS = {"dyadic": 1 / 256, "1/250": 1 / 250, "1/365": 1 / 365, "0.01": 0.01}
SIGMA = 0.25            # dyadic constant volatility of the one-factor stocks
PRICER_STRIKE = 1.125   # strike inside the harness' dyadic listed pricer
REGISTERED = ("empty", "expiry_time", "log_moneyness", "max_log_moneyness", "max_moneyness", "moneyness",
              "prev_hedge", "spot", "time_to_maturity", "underlier_spot", "variance", "volatility", "zeros")
OPTION_ONLY = ("moneyness", "log_moneyness", "max_moneyness", "max_log_moneyness", "time_to_maturity",
               "expiry_time")
NEEDS_VOL = ("volatility", "variance")
NO_VOL_UL = ("cir", "vasicek")
NON_DYADIC = ("log_moneyness", "max_log_moneyness", "underlier_log_spot", "log_spot")


class World:
    pass


#: Worlds built on USER SUBCLASSES of library classes that OVERRIDE a library property/method are an optional
#: diagnostic OUTSIDE the claim (the properties quantify over the library's own derivative / underlier types; a
#: behaviour-preserving refactoring of internal dispatch is visible to such a subclass): default OFF.
import os  # noqa: E402
USER_SUBCLASS_WORLDS = os.environ.get("VERIF_USER_SUBCLASS") == "1"

#: underliers with a second scripted buffer, including the harness' user subclasses
TWO_FACTOR = dict(market.TWO_FACTOR, heston_user="variance")
BASE_UL = {"brownian_ts": "brownian", "heston_user": "heston"}
_USER_CLASSES = {}


def user_primary(ul, dtype, cost, dt):
    """USER SUBCLASSES of the built-in primaries that override documented, overridable properties:
    whatever pfhedge computes from an underlier must go through these properties, not through the
    built-in class it happens to derive from.

    brownian_ts   BrownianStock with a volatility term structure: volatility = sigma (1 + t/4) at step t,
                  variance = volatility^2  (dyadic for sigma = 1/4)
    heston_user   HestonStock with a floored volatility: sqrt(max(variance, 0)) + 1/8"""
    import pfhedge.instruments as I
    if not USER_SUBCLASS_WORLDS:
        raise AssertionError("user-subclass worlds are disabled (set VERIF_USER_SUBCLASS=1)")
    if not _USER_CLASSES:
        class TermStructureStock(I.BrownianStock):
            @property
            def volatility(self):
                spot = self.get_buffer("spot")
                t = torch.arange(spot.size(-1), dtype=spot.dtype, device=spot.device)
                return (self.sigma * (1 + 0.25 * t)).expand_as(spot).clone()

            @property
            def variance(self):
                return self.volatility.square()

        class FlooredVolHeston(I.HestonStock):
            @property
            def volatility(self):
                return self.get_buffer("variance").clamp(min=0.0).sqrt() + 0.125

        _USER_CLASSES.update(brownian_ts=TermStructureStock, heston_user=FlooredVolHeston)
    if ul == "brownian_ts":
        return _USER_CLASSES[ul](sigma=SIGMA, cost=cost, dt=dt, dtype=dtype)
    return _USER_CLASSES[ul](cost=cost, dt=dt, dtype=dtype)


def tol(dtype):
    """Slack for quantities whose arithmetic is NOT exact (logarithms, Black-Scholes kernels, matrix
    products over non-dyadic numbers).  Two evaluations of the same row-wise function on the same
    row may differ in the last bits when the row sits at another position of the batch or the batch
    has another shape (SIMD body vs tail, BLAS blocking; observed: 1 ulp in float32 through a
    ModuleOutput chain).  Amplified through a Black-Scholes delta at 1/256 to maturity
    (d1 = s / (sigma sqrt t): factor <= 1/(0.125 * 0.0625) = 128) and a few layers, 4096 eps bounds it
    generously: 9.1e-13 in float64 (the 1e-12 of DESIGN 4/C02-C03), 4.9e-4 in float32.  Any defect in
    scope (a look-ahead, a wrong step index, a stale state) moves values by >= 1e-2 on the alphabets.
    Used as atol + rtol*|ref| with atol = rtol = tol(dtype).  Exact (dyadic) quantities are compared
    bitwise."""
    return max(1e-12, 4096 * torch.finfo(dtype).eps)


def pl_rounding_bound(spot, unit, cost, payoff=None):
    """Per-path bound on how far two correctly implemented evaluations of the terminal P&L of the SAME
    position may be apart: the P&L is a sum of n = 2*H*T + 1 cash flows (gains unit_t (S_{t+1}-S_t), costs
    c |unit_t - unit_{t-1}| S_t, the payoff); each term carries <= 3 roundings and a sum of n terms in ANY
    order is within (n-1) eps * sum|terms| of the exact sum (Higham, Accuracy and Stability, eq. 4.4), so two
    orders are within 2 (n+2) eps * sum|terms| of each other.  spot, unit: (N, H, T).  Returns (N,)."""
    N, H, T = spot.shape
    eps = torch.finfo(spot.dtype).eps
    unit = unit.nan_to_num()
    gains = (unit[..., :-1] * spot.diff(dim=-1)).abs().sum(dim=(-2, -1))
    c = torch.tensor([float(x) for x in cost], dtype=spot.dtype).reshape(1, H, 1)
    traded = torch.cat([unit[..., :1], unit.diff(dim=-1)], dim=-1).abs()
    costs = (c * traded * spot).abs().sum(dim=(-2, -1))
    flows = gains + costs + (0 if payoff is None else payoff.abs())
    n = 2 * H * T + 1
    return 2 * (n + 2) * eps * flows


def loss_rounding_bound(pl_bound, n_paths, dtype, loss_value):
    """EntropicRiskMeasure (log-mean-exp of -pl) is 1-Lipschitz in the sup norm of pl; its own evaluation
    (exp, pairwise mean over N paths, log) adds <= 4 (log2 N + 16) eps (1 + |loss|)."""
    import math
    eps = torch.finfo(dtype).eps
    return float(pl_bound.max()) + 4 * (math.log2(max(n_paths, 2)) + 16) * eps * (1 + abs(float(loss_value)))


def repo_frame(exc):
    """'file:function' of the deepest pfhedge frame in the traceback of ``exc`` (None if the
    exception never passed through pfhedge code: then it is a harness bug).  Unlike runner.blame
    this also blames pfhedge when the exception surfaces inside a harness module that pfhedge
    called (e.g. a model fed an input of the wrong width by the hedge loop)."""
    import os
    from mc.core import runner
    repo = os.path.realpath(runner.REPO) + os.sep
    tb = exc.__traceback__
    name = None
    while tb is not None:
        code = tb.tb_frame.f_code
        fn = os.path.realpath(code.co_filename)
        if fn.startswith(repo):
            name = f"{os.path.relpath(fn, repo)}:{code.co_name}"
        tb = tb.tb_next
    return name


def family_decorator(families):
    """Register a family; an exception that passed through pfhedge code while the reference defines
    a value is reported as a violation of that block (and the enumeration goes on)."""
    import traceback

    def family(fn):
        def wrapped(ctx, block):
            try:
                return fn(ctx, block)
            except Exception as e:   # noqa: BLE001
                site = repo_frame(e)
                if site is None:
                    raise
                ctx.violation(site, f"raises:{type(e).__name__}",
                              f"{type(e).__name__}: {str(e)[:300]} (raised while pfhedge code was running)",
                              observed=traceback.format_exc()[-1500:], expected="no exception", block=block)
        wrapped.__name__ = fn.__name__
        wrapped.__doc__ = fn.__doc__
        families[fn.__name__] = wrapped
        return wrapped
    return family


def _dyadic_pricer(d):
    s = d.ul().spot
    return torch.nn.functional.relu(s - PRICER_STRIKE) + 0.25 * s


def _dyadic_max_pricer(d):
    s = d.ul().spot
    return s.cummax(-1).values * 0.5 + 0.125


def _bs_pricer_european(derivative):
    # the pricer of the Hedger documentation, verbatim
    from pfhedge.nn import BlackScholes
    return BlackScholes(derivative).price(
        log_moneyness=derivative.log_moneyness(),
        time_to_maturity=derivative.time_to_maturity(),
        volatility=derivative.ul().volatility)


def _bs_pricer_max(derivative):
    from pfhedge.nn import BlackScholes
    return BlackScholes(derivative).price(
        log_moneyness=derivative.log_moneyness(),
        max_log_moneyness=derivative.max_log_moneyness(),
        time_to_maturity=derivative.time_to_maturity(),
        volatility=derivative.ul().volatility)


def _varswap_pricer(varswap):
    # the pricer of the Hedger documentation, verbatim
    return varswap.ul().variance - varswap.strike


def build_world(w):
    """w: {"ul","kind","T","As","Av","dtype","dt","rows","call","strike","listed","hedge","cost"}.

    The underlier carries every joint (spot, second factor) path over the alphabets
    (rows in explore.all_paths order) or the sub-list ``rows`` of them."""
    out = World()
    dtype = DTYPES[w.get("dtype", "float64")]
    T = w["T"]
    ul = w["ul"]
    dt = DTS[w.get("dt", "dyadic")]
    two = ul in TWO_FACTOR
    if w.get("period"):
        # long time grids (T in the hundreds): the complete tree is out of reach, so the path set is the
        # complete set of PERIODIC paths of period k over the alphabet (all |A|^k of them), tiled to T
        # columns.  Only used where the oracle is per path (C03: batched == stepwise), never for the
        # prefix-tree oracles.
        k = w["period"]
        s0, v0, n_sym = market.joint_paths(w["As"], k, w.get("Av") if two else None, dtype=dtype)
        reps = -(-T // k)
        spot = s0.repeat(1, reps)[:, :T].contiguous()
        second = None if v0 is None else v0.repeat(1, reps)[:, :T].contiguous()
    else:
        spot, second, n_sym = market.joint_paths(w["As"], T, w.get("Av") if two else None, dtype=dtype)
    orig = torch.arange(spot.size(0))
    if w.get("rows") is not None:
        orig = torch.tensor(sorted(w["rows"]), dtype=torch.long)
        spot = spot[orig]
        second = None if second is None else second[orig]
    kw = {"sigma": SIGMA} if ul in ("brownian", "merton", "kou") else {}
    if ul in BASE_UL:
        p = user_primary(ul, dtype, w.get("cost", 0.0), dt)
    else:
        p = market.primary(ul, dtype=dtype, cost=w.get("cost", 0.0), dt=dt, **kw)
    market.script_primary(p, BASE_UL.get(ul, ul), spot, second)
    kind = w.get("kind", "european")
    dkw = {}
    if kind in market.OPTION_KINDS:
        dkw["strike"] = w.get("strike", 1.0)
        if not w.get("call", True):
            dkw["call"] = False
    elif kind == "forward_start":
        # start date strictly inside the grid where the grid allows it (0 < k < T-1): there are steps
        # before the start, whose information does not contain the start price
        dkw = {"strike": 1.0, "start": max(1, T - 2) * dt}
    elif kind == "variance_swap":
        dkw = {"strike": 0.0625}
    if w.get("mat_k") is not None:
        # the derivative's OWN maturity (mat_k steps) differs from the registered grid (T points): the
        # underlier is shared with / was simulated for another horizon
        dkw["maturity"] = w["mat_k"] * dt
    d = market.derivative(kind, p, T=T, dt=dt, **dkw)
    listed = w.get("listed")
    if listed == "bs":
        d.list(_bs_pricer_max if kind in ("lookback", "american_binary") else _bs_pricer_european, cost=0.0)
    elif listed == "dyadic":
        d.list(_dyadic_pricer, cost=0.0)
    elif listed == "varswap":
        d.list(_varswap_pricer, cost=0.0)
    out.p, out.d, out.spot, out.second, out.n_sym, out.T, out.orig = p, d, spot, second, n_sym, T, orig
    out.N = spot.size(0)
    out.dtype = dtype
    out.full = w.get("rows") is None and not w.get("period")
    out.env = {"ul": ul, "strike": dkw.get("strike"), "dt": dt, "T": T, "sigma": SIGMA}
    # hedging instruments
    import pfhedge.instruments as I
    hv = w.get("hedge", "default")
    l2 = l3 = None
    if hv in ("ul+listed", "listed", "ul+listed+listed3", "listed+ul"):
        l2 = I.EuropeanOption(p, strike=PRICER_STRIKE, maturity=(T - 1) * dt)
        l2.list(_dyadic_pricer, cost=0.0)
    if hv == "ul+listed_short":
        # the Hedger docstring's setting: a short-dated listed option (Black-Scholes pricer of the docs) on
        # the same stock hedges a longer-dated derivative; its maturity is NOT the grid's
        l2 = I.EuropeanOption(p, strike=PRICER_STRIKE, maturity=max(1, T - 3) * dt)
        l2.list(_bs_pricer_european, cost=0.0)
    if hv == "ul+listed+listed3":
        l3 = I.LookbackOption(p, strike=1.0, maturity=(T - 1) * dt)
        l3.list(_dyadic_max_pricer, cost=0.0)
    out.hedge = {"default": None, "ul": [p], "ul+listed": [p, l2], "listed+ul": [l2, p], "listed": [l2],
                 "ul+listed_short": [p, l2],
                 "ul+listed+listed3": [p, l2, l3]}[hv]
    out.H = 1 if out.hedge is None else len(out.hedge)
    return out


def world_ok(w):
    """Is the combination constructible / meaningful?"""
    if w.get("listed") == "varswap" and (w["ul"] not in TWO_FACTOR and w["ul"] not in ("brownian", "merton", "kou", "brownian_ts")):
        return False
    if w.get("listed") == "bs" and (w.get("kind") not in market.OPTION_KINDS or w["ul"] in NO_VOL_UL):
        return False
    if w.get("listed") == "bs" and w.get("kind") in ("lookback", "american_binary") and not w.get("call", True):
        return False
    return True


# ----------------------------------------------------------------------------
# features
# ----------------------------------------------------------------------------

def feature_supported(spec, w):
    f = spec["f"]
    kind = w.get("kind", "european")
    if f in OPTION_ONLY and kind not in market.OPTION_KINDS:
        return False
    if f in NEEDS_VOL and w["ul"] in NO_VOL_UL:
        return False
    if f in ("spot", "log_spot") and not w.get("listed"):
        return False
    if f == "module_output":
        if spec["module"] == "bs" and (kind not in market.OPTION_KINDS or w["ul"] in NO_VOL_UL or (
                kind in ("lookback", "american_binary") and not w.get("call", True))):
            return False
        return all(feature_supported(s, w) for s in spec.get("inputs", []))
    return True


def label(spec):
    f = spec["f"]
    if f == "barrier":
        return f"barrier({spec['threshold']},{'up' if spec['up'] else 'down'})"
    if f == "module_output":
        inner = "bs.inputs" if spec["module"] == "bs" else ",".join(label(s) for s in spec["inputs"])
        return f"module_output[{spec['module']}]({inner})"
    return f


def is_exact(spec):
    """Values are dyadic rationals computed without rounding (on the dyadic alphabets)."""
    f = spec["f"]
    if f in NON_DYADIC:
        return False
    if f == "module_output":
        return spec["module"] != "bs" and all(is_exact(s) for s in spec["inputs"])
    if f in ("spot", "log_spot"):
        return spec.get("pricer") == "dyadic" and f == "spot"
    return True


def make_feature(spec, world, seed=0):
    """Unbound feature object (or registered name) for a JSON spec."""
    import pfhedge.features as PF
    f = spec["f"]
    if f == "underlier_log_spot":
        return PF.UnderlierSpot(log=True)
    if f == "log_spot":
        return PF.Spot(log=True)
    if f == "ones":
        return PF.Ones()
    if f == "barrier":
        return PF.Barrier(spec["threshold"], up=spec["up"])
    if f == "module_output":
        if spec["module"] == "bs":
            from pfhedge.nn import BlackScholes
            m = BlackScholes(world.d)
            return PF.ModuleOutput(m, inputs=list(m.inputs()))
        inputs = [make_feature(s, world, seed) for s in spec["inputs"]]
        n_in = sum(n_columns(s, world.H) for s in spec["inputs"])
        m = make_module(spec["module"], n_in, spec.get("out", 1), world.dtype, seed + 17)
        return PF.ModuleOutput(m, inputs=inputs)
    assert f in REGISTERED, f
    return f


def bind(feature, world, hedger=None):
    from pfhedge.features import get_feature
    return get_feature(feature).of(world.d, hedger)


def site_of(spec):
    return {
        "moneyness": "Moneyness", "log_moneyness": "LogMoneyness", "max_moneyness": "MaxMoneyness",
        "max_log_moneyness": "MaxLogMoneyness", "time_to_maturity": "TimeToMaturity",
        "expiry_time": "ExpiryTime", "volatility": "Volatility", "variance": "Variance", "spot": "Spot",
        "log_spot": "Spot", "underlier_spot": "UnderlierSpot", "underlier_log_spot": "UnderlierSpot",
        "barrier": "Barrier", "zeros": "Zeros", "ones": "Ones", "empty": "Empty", "prev_hedge": "PrevHedge",
        "module_output": "ModuleOutput", "feature_list": "FeatureList",
    }[spec["f"]] + ".get"


# ----------------------------------------------------------------------------
# modules
# ----------------------------------------------------------------------------

def _dyadic(shape, seed, scale=8, lo=-8, hi=9):
    g = torch.Generator().manual_seed(4000 + seed)
    w = torch.randint(lo, hi, shape, generator=g).to(torch.float64) / scale
    w[w == 0] = 0.5
    return w


def dyadic_linear(n_in, n_out, dtype, seed):
    lin = torch.nn.Linear(n_in, n_out).to(dtype)
    with torch.no_grad():
        lin.weight.copy_(_dyadic((n_out, n_in), seed).to(dtype))
        lin.bias.copy_((_dyadic((n_out,), seed + 1, lo=-4, hi=5)).to(dtype))
    return lin


class UserModule(Module):
    """What a user would write: python-level tensor code, no torch.nn layer.  Row-wise,
    exact on dyadic inputs: out_h = |a_h . x + b_h| - max(x_0, c_h)."""

    def __init__(self, n_in, n_out, dtype, seed):
        super().__init__()
        # trainable, like any user network: outputs require grad when autograd is enabled
        self.a = torch.nn.Parameter(_dyadic((n_out, n_in), seed + 5).to(dtype))
        self.b = torch.nn.Parameter(_dyadic((n_out,), seed + 6, lo=-4, hi=5).to(dtype))
        self.c = torch.nn.Parameter(_dyadic((n_out,), seed + 7, lo=4, hi=12).to(dtype))

    def forward(self, x):
        cols = []
        for h in range(self.a.size(0)):
            acc = x[..., 0] * self.a[h, 0]
            for k in range(1, x.size(-1)):
                acc = acc + x[..., k] * self.a[h, k]
            cols.append((acc + self.b[h]).abs() - torch.maximum(x[..., 0], self.c[h]))
        return torch.stack(cols, dim=-1)


def make_module(kind, n_in, n_out, dtype, seed):
    if kind == "linear":
        return dyadic_linear(n_in, n_out, dtype, seed)
    if kind == "mlp":
        from pfhedge.nn import MultiLayerPerceptron
        m = MultiLayerPerceptron(n_in, n_out, n_layers=2, n_units=3).to(dtype)
        k = 0
        with torch.no_grad():
            for layer in m:
                if isinstance(layer, torch.nn.Linear):
                    layer.weight.copy_(_dyadic(tuple(layer.weight.shape), seed + 31 * k, scale=4, lo=-4, hi=5).to(dtype))
                    layer.bias.copy_(_dyadic(tuple(layer.bias.shape), seed + 31 * k + 1, scale=4, lo=-2, hi=3).to(dtype))
                    k += 1
        return m
    if kind == "user":
        return UserModule(n_in, n_out, dtype, seed)
    if kind == "time_mix":
        return TimeMix()
    if kind == "identity":
        assert n_in == n_out
        return torch.nn.Identity()
    if kind == "first":
        return FirstColumns(n_out)
    raise KeyError(kind)


class TimeMix(Module):
    """A module that MIXES the time dimension (like a Conv1d / GRU / attention layer over time):
    out = sum_f x + sum_f mean_t x, with the mean over dim -2.  Fed one step at a time, (N, 1, F), as a
    step-by-step hedger does, it is 2 sum_f x of that step (exact on dyadic inputs); fed a whole path it
    would see the future - which a step-by-step hedger must never make it do."""

    def forward(self, x):
        return x.sum(-1, keepdim=True) + x.mean(dim=-2, keepdim=True).sum(-1, keepdim=True)


class FirstColumns(Module):
    """hedge ratio := the first input feature(s), returned as a VIEW of the input (no new tensor),
    as torch.nn.Identity does: what the hedger does to its model output it does to the input."""

    def __init__(self, n_out):
        super().__init__()
        self.n_out = n_out

    def forward(self, x):
        return x[..., : self.n_out]


class IgnoreLast(Module):
    """Drops the trailing ``n`` input columns (an *ignored* prev_hedge input: the hedger
    becomes state dependent, the strategy stays the same function of the market)."""

    def __init__(self, inner, n):
        super().__init__()
        self.inner = inner
        self.n = n

    def forward(self, x):
        return self.inner(x[..., : x.size(-1) - self.n])


class Recorder(Module):
    """Logs (input, output) of every call of the wrapped model."""

    def __init__(self, inner):
        super().__init__()
        self.inner = inner
        self.log = []

    def forward(self, x):
        xin = x.detach().clone()
        out = self.inner(x)
        self.log.append((xin, out.detach().clone()))
        return out


def model_shape_ok(m, w):
    """Constraints that are about tensor shapes / the harness, not about applicability."""
    H = {"default": 1, "ul": 1, "listed": 1}.get(w.get("hedge", "default"), 2)
    if m["model"] in ("bs", "ww"):
        if H != 1:
            return False
        if m["model"] == "ww" and m.get("mode") == "stepwise":
            return False
    if m["model"] in ("identity", "first"):
        n_in = sum(n_columns(s, H) for s in m["inputs"])
        if H != 1 or (m["model"] == "identity" and n_in != 1):
            return False
    return True


def model_ok(m, w):
    """Static applicability table (what the documentation says works) + shape constraints."""
    kind = w.get("kind", "european")
    if not model_shape_ok(m, w):
        return False
    if m["model"] in ("bs", "ww"):
        if kind not in market.OPTION_KINDS or w["ul"] in NO_VOL_UL:
            return False
        if kind in ("lookback", "american_binary") and not w.get("call", True):
            return False
    if m["model"] in ("identity", "first"):
        H = {"default": 1, "ul": 1, "listed": 1}.get(w.get("hedge", "default"), 2)
        n_in = sum(n_columns(s, H) for s in m["inputs"])
        if H != 1 or (m["model"] == "identity" and n_in != 1):
            return False
    return all(feature_supported(s, w) for s in m.get("inputs", []))


def n_columns(spec, H):
    if spec["f"] == "prev_hedge":
        return H
    if spec["f"] == "module_output":
        return spec.get("out", 1)
    return 1


def depends_on_state(spec):
    if spec["f"] == "prev_hedge":
        return True
    if spec["f"] == "module_output" and spec["module"] != "bs":
        return any(depends_on_state(s) for s in spec["inputs"])
    return False


class HedgerKit:
    """hedger + what the harness needs to know about it"""


def make_hedger(m, world, seed=0, record=False):
    """m: {"model": linear|mlp|user|bs|ww|naked, "inputs": [feature specs], "mode": vectorised|stepwise}.

    In stepwise mode a ``prev_hedge`` input is appended and the model is wrapped so that it ignores
    it: the hedger becomes state dependent, the strategy stays the same function of the market.
    WhalleyWilmott uses prev_hedge itself, and so does any model whose ``inputs`` contain a
    prev_hedge spec (directly or inside a module_output); those are stepwise by construction.

    Returns a HedgerKit: .hedger, .recorder (or None), .specs (input feature specs in model-input order,
    including {"f": "prev_hedge"} where the state enters), .exact, .raw (the unwrapped model, which maps
    the full input row to the output row), .state_dependent."""
    from pfhedge.nn import BlackScholes, Hedger, Naked, WhalleyWilmott
    H = world.H
    mode = m.get("mode", "vectorised")
    kind = m["model"]
    exact = True
    if kind == "bs":
        model = BlackScholes(world.d)
        specs = [{"f": n} for n in model.inputs()]
        exact = False
    elif kind == "ww":
        model = WhalleyWilmott(world.d)
        specs = [{"f": n} for n in model.inputs()]
        exact = False
    elif kind == "naked":
        model = Naked(H)
        specs = list(m.get("inputs", [{"f": "zeros"}]))
    else:
        specs = list(m["inputs"])
        n_in = sum(n_columns(s, H) for s in specs)
        model = make_module(kind, n_in, H, world.dtype, seed)
        exact = all(is_exact(s) for s in specs if s["f"] != "prev_hedge")
    if mode == "stepwise":
        model = IgnoreLast(model, H)
        specs = specs + [{"f": "prev_hedge"}]
    kit = HedgerKit()
    kit.raw = model
    kit.recorder = None
    if record:
        kit.recorder = Recorder(model)
        model = kit.recorder
    kit.specs = specs
    kit.features = [make_feature(s, world, seed) for s in specs]
    kit.hedger = Hedger(model, list(kit.features))
    if m.get("module_mode") == "eval":
        kit.hedger.eval()            # the mode price() is typically called in, and the one fit() leaves behind
    elif m.get("module_mode") == "train":
        kit.hedger.train()
    hook = m.get("user_hook")
    if hook == "lot":
        # a user's forward hook registered after construction: round positions to lots of 1/16
        # (exact on dyadic outputs)
        kit.hedger.register_forward_hook(lambda mod, inp, out: (out * 16).round() / 16)
    elif hook == "limit":
        # ... or a position limit
        kit.hedger.register_forward_hook(lambda mod, inp, out: out.clamp(min=-0.5, max=0.5))
    kit.exact = exact
    kit.state_dependent = any(depends_on_state(s) for s in specs)
    return kit


def cross_hedge(world, short, kind="primary"):
    """A hedging instrument on ANOTHER stock whose series is ``short`` steps shorter than the series of
    the derivative's underlier (same paths axis): its prices are a dyadic function of the first
    T - short prices of the underlier.  kind: 'primary' (the other stock itself) or 'listed' (a listed
    European option on it, dyadic pricer)."""
    import pfhedge.instruments as I
    Th = world.T - short
    other = market.primary("brownian", dtype=world.dtype, cost=1 / 64, dt=world.env["dt"], sigma=SIGMA)
    market.set_buffers(other, spot=(world.spot[:, :Th] * 2 - 0.5).clamp(min=0.125))
    if kind == "primary":
        return [other], Th
    opt = I.EuropeanOption(other, strike=PRICER_STRIKE, maturity=(Th - 1) * world.env["dt"])
    opt.list(_dyadic_pricer, cost=1 / 64)
    return [opt], Th

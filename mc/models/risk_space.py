"""Sample space, implementation adapters and derived tolerances shared by C04, C05, C06.

Sample space (DESIGN 4/C04 "E"): every sample of length N over a small alphabet of
dyadic rationals k/8 (ties, constants and sign mixes arise by construction), as the
columns of one (N, M) tensor, M = |A|^N, multiplied by a scale.  A column is described in
blocks and replay files by its integer numerators (``[-8, 0, 4]`` = (-1, 0, 0.5)).
"""
from __future__ import annotations

import math
from fractions import Fraction

import torch

from mc.core.explore import all_paths

DEN = 8
DT = {"float32": torch.float32, "float64": torch.float64}

#: base alphabets (numerators over 8): quick has 3 base symbols + 1 seed symbol,
#: thorough 4 base symbols + 1 seed symbol (DESIGN: |A| = 4 | 5)
BASE = {"quick": [-8, 0, 4], "thorough": [-8, -2, 0, 4]}
EXTRA = [-12, -4, -1, 2, 6, 12, 20]
#: positive alphabets for the isoelastic utility (domain x > 0)
BASE_POS = {"quick": [2, 8, 20], "thorough": [2, 8, 11, 20]}
EXTRA_POS = [1, 4, 6, 12, 16, 28]


def alphabet(ctx, positive=False):
    base = (BASE_POS if positive else BASE)[ctx.tier]
    extra = ctx.extra_symbol("pos" if positive else "pl", [e for e in (EXTRA_POS if positive else EXTRA)
                                                           if e not in base])
    return list(base) + [extra]


def columns(block):
    """int64 tensor (N, M): the samples of a block, either every sample over the
    alphabet ``A`` (itertools.product order) or the explicit list ``cols``."""
    if block.get("cols") is not None:
        c = torch.tensor(block["cols"], dtype=torch.int64)
        return c.t().contiguous()
    return all_paths(block["A"], block["N"], dtype=torch.float64).long().t().contiguous()


def realise(cols, scale, dtype, offset=0.0):
    """The float tensor handed to pfhedge: numerators / 8 * scale (+ offset)."""
    x = cols.to(torch.float64) / DEN * scale
    if offset:
        x = x + offset
    return x.to(DT[dtype] if isinstance(dtype, str) else dtype)


def col_list(cols, j):
    return [int(v) for v in cols[:, j].tolist()]


# ----------------------------------------------------------------------------
# implementation adapters
# ----------------------------------------------------------------------------

MEASURES = ("erm", "es", "qcvar", "eloss", "iso")
SITE = {"erm": "EntropicRiskMeasure", "es": "ExpectedShortfall", "qcvar": "QuadraticCVaR",
        "eloss": "EntropicLoss", "iso": "IsoelasticLoss", "oce": "OCE", "var": "value_at_risk"}
FSITE = {"erm": "entropic_risk_measure", "es": "expected_shortfall", "qcvar": "quadratic_cvar",
         "eloss": "exp_utility", "iso": "isoelastic_utility", "var": "value_at_risk"}


def module(measure, param):
    import pfhedge.nn as nn
    if measure == "erm":
        return nn.EntropicRiskMeasure(a=param)
    if measure == "es":
        return nn.ExpectedShortfall(p=param)
    if measure == "qcvar":
        from pfhedge.nn.modules.loss import QuadraticCVaR
        return QuadraticCVaR(lam=param)
    if measure == "eloss":
        return nn.EntropicLoss(a=param)
    if measure == "iso":
        return nn.IsoelasticLoss(a=param)
    raise KeyError(measure)


def evaluate(measure, param, x, via="module", target=None, dim=0):
    """Value of the criterion along ``dim`` (modules: always dim 0)."""
    import pfhedge.nn.functional as F
    with torch.no_grad():
        if via == "module":
            m = module(measure, param)
            if target is None:
                return m(x)
            return m(x, target)
        pl = x if target is None else x - target
        if measure == "erm":
            return F.entropic_risk_measure(pl, a=param)
        if measure == "es":
            return F.expected_shortfall(pl, p=param, dim=dim)
        if measure == "qcvar":
            return F.quadratic_cvar(pl, lam=param, dim=dim)
        if measure == "var":
            return F.value_at_risk(pl, p=param, dim=dim)
        if measure == "eloss":
            return -F.exp_utility(pl, a=param).mean(dim if dim is not None else 0)
        if measure == "iso":
            return -F.isoelastic_utility(pl, a=param).mean(dim if dim is not None else 0)
    raise KeyError(measure)


# ----------------------------------------------------------------------------
# derived tolerances: a bound on |computed - exact value at the given float inputs|
# ----------------------------------------------------------------------------

QC_SLACK = 1e-8       # absolute widening of the search interval written in quadratic_cvar
QC_RELPREC = 1e-5     # see tol_value("qcvar")


def eps_of(x):
    return torch.finfo(x.dtype).eps


def tol_value(measure, param, x, value=None):
    """x: (N, M) the P&L actually reduced (after target subtraction), any float dtype.
    Returns a float64 tensor (M,).  Derivations (eps = machine epsilon of x.dtype,
    A = max|x| of the column, r = max - min of the column, N = length):

    es     -mean of the k <= N worst values: k-1 additions and a division, each relative eps:
           <= (k + 1) eps A_tail with A_tail = max|x_i| over the tail (the larger accepted tail at a
           borderline level); bound used: 2 (N + 1) eps A_tail.
    var    linear interpolation between two order statistics: (N + 1) eps A; doubled.
    erm    z = -a x (eps a A); logsumexp = max + log(sum exp(z - max)): the exponent
           carries eps |z| <= eps a 2A, the sum of <= N terms in [0, N] relative (N+1) eps,
           log of a number in [1, N] turns relative into absolute error; - log N and / a:
           absolute <= eps (5 a A + N + 6 + 2 log N) / a.  Bound used (doubled, rounded
           up): eps (10 A + 2 (N + 8) / a).
    qcvar  rounding: centring x - mean (eps A), then w + lam mean(relu(-w - x)^2) - base
           with |w| <= r + 1e-8 and, at the minimiser as well as at the end of the
           searched interval when the minimiser is outside, every active term <= N/(2 lam),
           so the quadratic part is <= Q = min(lam r^2, N^2/(4 lam)):
           <= 8 (N + 4) eps (A + Q).
           search: the bisection halves all columns of one call together and stops when
           the widest interval is below precision = 1e-6 * 10^int(log10(width_max)); int()
           truncates toward zero, so precision / width_max < 1e-5 (< 1e-6 when width >= 1):
           every column's w is within 1e-5 (r + 2e-8) of the root, and the objective has a
           2 lam-Lipschitz slope vanishing at the root: excess <= lam (1e-5 (r + 2e-8))^2.
    eloss  mean exp(-a x): exponent error eps a A, exp/mean relative (N + 2) eps:
           relative <= eps (a A + N + 3); doubled.
    iso    -mean u(x): pow/log a few ulp of |u| (log: absolute eps (|log x| + 1)):
           <= 2 eps (N + 4) (max|u| + 1).
    """
    eps = eps_of(x)
    N = x.size(0)
    xd = x.to(torch.float64)
    A = xd.abs().amax(0)
    if measure == "es":
        # only the k = ceil(pN) worst outcomes are summed (selection by comparison is exact), so the
        # magnitude that matters is the largest |outcome| *inside the tail*, not max|x| of the sample:
        # a sample mixing 0.03 with 1e7 still has an expected shortfall exact to eps * 0.03 * k
        return 2 * (N + 1) * eps * tail_magnitude(xd, param)
    if measure == "var":
        return 2 * (N + 1) * eps * A
    if measure == "erm":
        return eps * (10 * A + 2 * (N + 8) / param)
    if measure == "qcvar":
        r = xd.amax(0) - xd.amin(0)
        Q = torch.minimum(param * r * r, torch.full_like(r, N * N / (4 * param)))
        return 8 * (N + 4) * eps * (A + Q) + param * (QC_RELPREC * (r + 2 * QC_SLACK)) ** 2
    if measure == "eloss":
        v = torch.exp(-param * xd).mean(0) if value is None else value.to(torch.float64).abs()
        return 2 * eps * (param * A + N + 3) * v
    if measure == "iso":
        u = xd.log().abs() if param == 1 else xd.pow(1 - param)
        return 2 * eps * (N + 4) * (u.amax(0) + 1)
    raise KeyError(measure)


def tail_magnitude(xd, p):
    """max |x_i| over the ceil(pN) worst outcomes of every column of xd (N, M) (float64);
    at a borderline level the larger accepted tail is used."""
    from mc.models.risk_ref import tail_counts
    k = max(tail_counts(p, xd.size(0))[0])
    return xd.sort(0).values[:k].abs().amax(0)


def input_rounding(measure, param, x):
    """Bound on the effect of the rounding of a *computed* input x (each entry carries a relative
    error eps) expressed as a sup-norm perturbation delta to feed lipschitz_slack.  In general
    eps * max|x|.  Expected shortfall is -(1/k) min over k-subsets of the subset sums, so entry
    errors only enter through the entries of an optimal subset; rounding is monotone, hence the
    optimal subset of the rounded input is a tail of the exact one: eps * max|x_i| over the tail."""
    eps = eps_of(x)
    xd = x.to(torch.float64)
    if measure == "es":
        return eps * tail_magnitude(xd, param)
    return eps * xd.abs().amax(0)


def lipschitz_slack(measure, param, x, delta):
    """Effect on the value of perturbing every entry of the column by <= delta (the
    rounding of a computed input such as x + c or t x + (1-t) y).  Risk measures
    (erm, es, qcvar) are 1-Lipschitz in the sup norm; eloss: |d/dx exp(-a x)| = a exp(-a x);
    iso: u'(x) = (1-a) x^-a or 1/x, largest at the smallest outcome."""
    xd = x.to(torch.float64)
    if measure in ("erm", "es", "qcvar", "var"):
        return delta
    if measure == "eloss":
        return param * delta * torch.exp(-param * xd).amax(0) * 2
    if measure == "iso":
        mn = xd.amin(0)
        return delta * (1 / mn if param == 1 else (1 - param) * mn.pow(-param)) * 2
    raise KeyError(measure)


# ----------------------------------------------------------------------------
# vectorised float64 quadratic-CVaR model (classification / counting only; the exact
# Fraction model in risk_ref decides)
# ----------------------------------------------------------------------------

def qcvar_f64(x, lam):
    """x (N, M) -> dict of float64 (M,) tensors:
    ``min`` the minimum of the objective (smallest objective among the N active-set
    candidates w_k = -(S_k + N/(2 lam))/k, one of which is the minimiser),
    ``restricted`` the minimum over w in [-max x, -min x] only (model of finding 11),
    ``below`` whether the minimiser is below -max x, i.e. mean(max x - x) < 1/(2 lam)."""
    xd = x.to(torch.float64)
    N = xd.size(0)
    s = xd.sort(0).values
    k = torch.arange(1, N + 1, dtype=torch.float64).unsqueeze(-1)
    w = -(s.cumsum(0) + N / (2 * lam)) / k                      # (N, M) candidates

    def objective(wk):                                           # wk (K, M) -> (K, M)
        return wk + lam * torch.relu(-wk.unsqueeze(1) - xd.unsqueeze(0)).square().mean(1)

    f = objective(w)
    best = f.argmin(0, keepdim=True)
    wstar = w.gather(0, best)
    mx, mn = xd.amax(0), xd.amin(0)
    wclip = torch.minimum(torch.maximum(wstar, -mx.unsqueeze(0)), -mn.unsqueeze(0))
    gap = (mx.unsqueeze(0) - xd).mean(0) - 1 / (2 * lam)
    return {"min": f.gather(0, best).squeeze(0), "restricted": objective(wclip).squeeze(0),
            "below": gap < 0, "gap": gap}


def frac(x):
    return Fraction(x)


def is_finite_number(v):
    return not (math.isnan(v) or math.isinf(v))

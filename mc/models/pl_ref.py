"""Reference model of the self-financing wealth identity (C01).

PL = -Z + sum_h sum_{t<T-1} d[h][t] (S[h][t+1]-S[h][t])
        - sum_h c[h] ( first*|d[h][0]| S[h][0] + sum_{t>=1} |d[h][t]-d[h][t-1]| S[h][t] )

Written from the statement of the property as plain double loops; two
implementations: exact rational per path, and exact integer arithmetic on scaled
dyadic inputs (vectorised over paths only, loops over h and t kept explicit).
"""
from fractions import Fraction

import torch


def pl_fraction(spot, unit, cost=None, payoff=None, first=True):
    """spot, unit: nested lists [H][T] of numbers convertible to Fraction (floats are
    converted exactly).  Returns a Fraction."""
    H = len(spot)
    T = len(spot[0])
    S = [[Fraction(x) for x in row] for row in spot]
    D = [[Fraction(x) for x in row] for row in unit]
    total = Fraction(0)
    if payoff is not None:
        total -= Fraction(payoff)
    for h in range(H):
        for t in range(T - 1):
            total += D[h][t] * (S[h][t + 1] - S[h][t])
        if cost is not None:
            c = Fraction(cost[h])
            traded = Fraction(0)
            if first:
                traded += abs(D[h][0]) * S[h][0]
            for t in range(1, T):
                traded += abs(D[h][t] - D[h][t - 1]) * S[h][t]
            total -= c * traded
    return total


def pl_int(spot_i, unit_i, cost_i=None, payoff_i=None, first=True):
    """Exact integer version.  spot_i, unit_i: int64 tensors (N,H,T) holding the
    values scaled by ``s`` (any common scale); cost_i: list of ints scaled by s;
    payoff_i: int64 (N,) scaled by s.  Returns int64 (N,) scaled by s**3."""
    N, H, T = spot_i.shape
    out = torch.zeros(N, dtype=torch.int64)
    s_unknown = None  # scale handled by caller: gains are scale^2, cost terms scale^3
    gains = torch.zeros(N, dtype=torch.int64)
    costs = torch.zeros(N, dtype=torch.int64)
    for h in range(H):
        for t in range(T - 1):
            gains += unit_i[:, h, t] * (spot_i[:, h, t + 1] - spot_i[:, h, t])
        if cost_i is not None:
            traded = torch.zeros(N, dtype=torch.int64)
            if first:
                traded += unit_i[:, h, 0].abs() * spot_i[:, h, 0]
            for t in range(1, T):
                traded += (unit_i[:, h, t] - unit_i[:, h, t - 1]).abs() * spot_i[:, h, t]
            costs += int(cost_i[h]) * traded
    return gains, costs, (payoff_i if payoff_i is not None else torch.zeros(N, dtype=torch.int64))

"""Reference model of the training protocol of ``Hedger.fit`` (property C15).

Two independent pieces, both written from the documentation of ``fit`` /
``compute_loss`` and from the property text, not from the body of ``fit``:

* :class:`FitAutomaton` - an acceptor for the *event trace* of one ``fit`` call.
  Events are recorded by harness-side instrumentation (see ``mc/checks/c15.py``):

      ("mode", training)                 hedger.train(flag) / hedger.eval()
      ("zero_grad",)                     optimiser.zero_grad() (or hedger.zero_grad())
      ("simulate", n_paths, init, grad)  underlier.simulate(...) as requested by the code
      ("forward", training, grad)        one forward of the hedging model
      ("backward",)                      Tensor.backward()
      ("step",)                          optimiser.step()

  The language accepted is

      [lazy-init]  EPOCH^k          with
      lazy-init = simulate(any) forward+                       (only when announced)
      EPOCH     = TRAIN [VALIDATION]
      TRAIN     = { zero_grad, simulate(n, init) } in any order; forward(training=True,
                  grad=True)+ after the simulate; backward after >=1 forward and after a
                  zero_grad since the previous backward; step after backward
                  (exactly one of each of simulate / backward / step per epoch)
      VALIDATION= ( simulate(n, init) forward(training=False, grad=False)+ )^n_times
      mode(flag) events are accepted anywhere (the forward events carry the mode that counts)

  The partial order inside TRAIN is deliberately not stricter than what the property
  states (fresh batch of the requested size and initial state, training mode while the
  batch is processed, gradients not accumulated, one step per epoch).

* :func:`reference_fit` - the explicit simulate / loss / backward / step loop the
  property compares ``fit`` with, parameter for parameter.
"""
from __future__ import annotations


def _same_init(a, b):
    """init_state tuples compare by value (floats / 0-dim tensors)."""
    if a is None or b is None:
        return a is None and b is None
    try:
        a = tuple(float(x) for x in a)
        b = tuple(float(x) for x in b)
    except TypeError:
        return False
    return a == b


class Reject(Exception):
    def __init__(self, code, index, event, state, expected):
        super().__init__(f"{code}: event #{index} {event!r} in state {state}; expected {expected}")
        self.code = code
        self.index = index
        self.event = event
        self.state = state
        self.expected = expected


class FitAutomaton:
    """Acceptor for one fit() trace.  ``visited`` collects abstract states (phase, flags)
    and ``matched`` counts accepted events, for the evidence counters.

    ``mode`` events are accepted everywhere and change nothing: what the property constrains is the
    mode *seen by the model while it processes a batch*, which every ``forward`` event carries."""

    def __init__(self, k, n_paths, n_times, init_state, validation, lazy_init):
        self.k = int(k)
        self.n_paths = n_paths
        self.n_times = int(n_times)
        self.init_state = init_state
        self.validation = bool(validation)
        self.lazy_init = bool(lazy_init)
        self.visited = set()
        self.matched = 0
        self.epoch = 0
        self.zero_carry = False
        self._reset_epoch()
        self.phase = "lazy0" if self.lazy_init else "train"
        self.lazy_fwd = 0
        self._visit()

    # -- state ------------------------------------------------------------------------
    def _reset_epoch(self):
        self.zeroed = self.zero_carry
        self.zero_carry = False
        self.simulated = False
        self.n_fwd = 0
        self.backward_done = False
        self.val_done = 0          # completed evaluations
        self.val_sim = False       # evaluation in progress: simulated
        self.val_fwd = 0

    def state(self):
        if self.phase in ("lazy0", "lazy1"):
            return (self.phase, min(self.lazy_fwd, 1))
        if self.phase == "train":
            return ("train", self.zeroed, self.simulated, min(self.n_fwd, 1), self.backward_done)
        if self.phase == "val":
            return ("val", min(self.val_done, 3), self.val_sim, min(self.val_fwd, 1), self.zero_carry)
        return (self.phase,)

    def _visit(self):
        self.visited.add(self.state())

    def _rej(self, code, i, ev, expected):
        raise Reject(code, i, ev, (self.epoch,) + self.state(), expected)

    # -- helpers ----------------------------------------------------------------------
    def _close_eval(self):
        """An evaluation ends when the next simulate (or the next epoch / the end) arrives."""
        if self.val_sim:
            if self.val_fwd < 1:
                return False
            self.val_done += 1
            self.val_sim = False
            self.val_fwd = 0
        return True

    def _next_epoch(self, i, ev):
        """Called in phase 'val' when the validation of this epoch must be complete."""
        if not self._close_eval():
            self._rej("val_evaluation_without_forward", i, ev, "forward(training=False, grad=False)")
        if self.val_done == 0:
            self._rej("val_missing", i, ev, f"{self.n_times} validation evaluations")
        if self.val_done != self.n_times:
            self._rej("val_n_times", i, ev, f"{self.n_times} evaluations, saw {self.val_done}")
        self.epoch += 1
        self._reset_epoch()
        self.phase = "train"

    # -- one event --------------------------------------------------------------------
    def feed(self, i, ev):
        kind = ev[0]
        if kind == "mode":
            pass
        elif self.phase == "lazy0":
            if kind != "simulate":
                self._rej("lazy_init_missing", i, ev, "placeholder simulate before the optimiser is built")
            self.phase = "lazy1"
        elif self.phase == "lazy1":
            if kind == "forward":
                self.lazy_fwd += 1
            elif self.lazy_fwd >= 1:
                self.phase = "train"
                return self.feed(i, ev)
            else:
                self._rej("lazy_init_no_forward", i, ev, "placeholder forward")
        elif self.phase == "train":
            if self.epoch >= self.k:
                self._rej("extra_epoch", i, ev, f"end of trace after {self.k} epochs")
            if kind == "zero_grad":
                if self.backward_done:
                    self._rej("zero_grad_after_backward", i, ev, "step")
                self.zeroed = True
            elif kind == "simulate":
                if self.backward_done:
                    self._rej("simulate_before_step", i, ev, "step")
                if self.simulated:
                    self._rej("train_second_simulate", i, ev, "one fresh batch per epoch")
                if ev[1] != self.n_paths:
                    self._rej("train_n_paths", i, ev, f"n_paths={self.n_paths}")
                if not _same_init(ev[2], self.init_state):
                    self._rej("train_init_state", i, ev, f"init_state={self.init_state}")
                self.simulated = True
            elif kind == "forward":
                if self.backward_done:
                    self._rej("forward_before_step", i, ev, "step")
                if not self.simulated:
                    self._rej("train_forward_on_stale_batch", i, ev, "simulate first")
                if not ev[1]:
                    self._rej("train_not_training_mode", i, ev, "forward(training=True)")
                if not ev[2]:
                    self._rej("train_grad_disabled", i, ev, "forward(grad=True)")
                self.n_fwd += 1
            elif kind == "backward":
                if self.backward_done:
                    self._rej("second_backward", i, ev, "step")
                if self.n_fwd < 1:
                    self._rej("backward_without_forward", i, ev, "forward")
                if not self.zeroed:
                    self._rej("no_zero_grad", i, ev, "zero_grad before backward")
                self.backward_done = True
            elif kind == "step":
                if not self.backward_done:
                    self._rej("step_without_backward", i, ev, "backward")
                if self.validation:
                    self.phase = "val"
                else:
                    self.epoch += 1
                    self._reset_epoch()
            else:
                self._rej("unknown_event", i, ev, "a protocol event")
        elif self.phase == "val":
            if kind == "simulate":
                if not self._close_eval():
                    self._rej("val_evaluation_without_forward", i, ev, "forward")
                if self.val_done >= self.n_times:
                    # can only be the training batch of the next epoch
                    self._next_epoch(i, ev)
                    return self.feed(i, ev)
                if ev[1] != self.n_paths:
                    self._rej("val_n_paths", i, ev, f"n_paths={self.n_paths}")
                if not _same_init(ev[2], self.init_state):
                    self._rej("val_init_state", i, ev, f"init_state={self.init_state}")
                self.val_sim = True
            elif kind == "forward":
                if not self.val_sim:
                    self._rej("val_forward_on_stale_batch", i, ev, "simulate first")
                if ev[1]:
                    self._rej("val_not_eval_mode", i, ev, "forward(training=False)")
                if ev[2]:
                    self._rej("val_grad_enabled", i, ev, "forward(grad=False)")
                self.val_fwd += 1
            elif kind == "zero_grad":
                if self.val_done == 0 and not self.val_sim:
                    self.zero_carry = True      # zeroing right after the step also keeps gradients fresh
                else:
                    self._next_epoch(i, ev)
                    return self.feed(i, ev)
            elif kind == "backward":
                self._rej("val_backward", i, ev, "no backward during validation")
            elif kind == "step":
                self._rej("val_step", i, ev, "no step during validation")
            else:
                self._rej("unknown_event", i, ev, "a protocol event")
        self.matched += 1
        self._visit()

    def finish(self, n_events):
        ev = ("end",)
        if self.phase == "lazy0":
            self._rej("lazy_init_missing", n_events, ev, "placeholder simulate")
        if self.phase == "lazy1":
            if self.lazy_fwd < 1:
                self._rej("lazy_init_no_forward", n_events, ev, "placeholder forward")
            self.phase = "train"
        if self.phase == "val":
            self._next_epoch(n_events, ev)
        if self.epoch != self.k:
            self._rej("missing_epochs", n_events, ev, f"{self.k} epochs, saw {self.epoch} complete")
        if self.simulated or self.n_fwd or self.backward_done:
            self._rej("incomplete_epoch", n_events, ev, "backward and step")
        self.phase = "end"
        self._visit()

    def run(self, trace):
        for i, ev in enumerate(trace):
            self.feed(i, ev)
        self.finish(len(trace))
        return True


def expected_trace(k, n_paths, n_times, init_state, validation, lazy_init, fwd_per_eval,
                   initial_training=True):
    """The canonical word of the language (used for samples and as a self-test of the acceptor)."""
    tr = []
    if lazy_init:
        tr.append(("simulate", 1, None, True))
        tr += [("forward", initial_training, True)] * fwd_per_eval
    for _ in range(k):
        tr += [("mode", True), ("zero_grad",), ("simulate", n_paths, init_state, True)]
        tr += [("forward", True, True)] * fwd_per_eval
        tr += [("backward",), ("step",)]
        if validation:
            tr.append(("mode", False))
            for _ in range(n_times):
                tr.append(("simulate", n_paths, init_state, False))
                tr += [("forward", False, False)] * fwd_per_eval
    return tr


def loss_of_pl(criterion, pl):
    """The criterion of a profit-and-loss tensor.  A hedging loss (pfhedge HedgeLoss) is a function of the P&L
    distribution alone: ``criterion(pl)``.  A plain torch loss with a mandatory target (MSELoss, ...) measures the
    distance of the portfolio from the payoff, i.e. of the P&L from zero: ``criterion(pl, 0)``.
    Exactness: every built-in loss starts with ``input - target``; here target is the python float 0.0 (or a zero
    tensor) and ``x - 0`` is exact in IEEE arithmetic, so the value and the gradient are bitwise those of
    ``criterion(portfolio, payoff)`` whenever that is the criterion of ``portfolio - payoff``."""
    import torch
    from pfhedge.nn import HedgeLoss
    if isinstance(criterion, HedgeLoss):
        return criterion(pl)
    return criterion(pl, torch.zeros_like(pl))


def reference_fit(hedger, derivative, hedge, make_optimizer, k, n_paths, n_times, init_state,
                  validation, on_grad=None, on_step=None, payoff_of=None, portfolio_of=None):
    """The explicit training loop of the property: k times (fresh batch of n_paths paths from
    init_state, criterion of the hedging portfolio against the payoff in training mode,
    backward from zeroed gradients, one optimiser step), each followed - when validation is on -
    by n_times gradient-free evaluations in evaluation mode whose plain mean is the epoch's
    history entry.  The liability is the CONTRACTUAL payoff ``payoff_of()`` (the harness passes its own model of
    the contract: base payoff folded through every clause), never a shortcut of the library; the hedging
    portfolio ``portfolio_of()`` is the self-financing wealth of the hedge the model computes, priced and charged with the
    harness' own list of instruments and cost rates.  The loss of a batch is the criterion APPLIED TO THE P&L TENSOR
    ``pl = portfolio - payoff`` (one argument; see ``loss_of_pl``), as fit() documents, never ``criterion(portfolio, payoff)``:
    a criterion whose two-argument form is not the criterion of the difference then diverges from this loop.
    ``make_optimizer()`` builds (or returns) the optimiser; it is called once,
    before the first epoch, and also when k == 0."""
    import torch
    if payoff_of is None:
        payoff_of = derivative.payoff      # the contractual payoff (all clauses applied)
    if portfolio_of is None:
        portfolio_of = lambda: hedger.compute_portfolio(derivative, hedge=hedge)
    opt = make_optimizer()
    history = []
    for e in range(k):
        hedger.train()
        opt.zero_grad()
        derivative.simulate(n_paths=n_paths, init_state=init_state)
        with torch.enable_grad():
            portfolio = portfolio_of()
            loss = loss_of_pl(hedger.criterion, portfolio - payoff_of())
        loss.backward()
        if on_grad is not None:
            on_grad(e, opt)
        opt.step()
        if on_step is not None:
            on_step(e, opt)
        if validation:
            hedger.eval()
            vals = []
            with torch.no_grad():
                for _ in range(n_times):
                    derivative.simulate(n_paths=n_paths, init_state=init_state)
                    portfolio = portfolio_of()
                    vals.append(float(loss_of_pl(hedger.criterion, portfolio - payoff_of())))
            history.append(vals)
    return (history if validation else None), opt

"""Reference models for the small helpers of C20: clamps (exact, Fractions), bilinear
interpolation (exact), SVI total variance and Box-Muller (mpmath).  Written from the class /
function docstrings of pfhedge.nn (LeakyClamp, Clamp, SVIVariance, bilerp, box_muller).
"""
from __future__ import annotations

from fractions import Fraction

import mpmath as mp

mp.mp.dps = 40


def _mf(x):
    f = Fraction(x)
    return mp.mpf(f.numerator) / mp.mpf(f.denominator)


# ---------------------------------------------------------------------------
# clamps
# ---------------------------------------------------------------------------

def region(x, lo, hi):
    """Name of the piece of the piecewise definition the case lies in."""
    if lo is not None and hi is not None and lo > hi:
        return "inverted"
    if lo is not None and x < lo:
        return "below"
    if hi is not None and x > hi:
        return "above"
    if lo is not None and hi is not None and lo == hi:
        return "pinched"          # lo == x == hi
    if lo is not None and x == lo:
        return "at_min"
    if hi is not None and x == hi:
        return "at_max"
    return "inside"


def leaky_clamp(x, lo, hi, slope=0, inverted_output="mean"):
    """Docstring of pfhedge.nn.LeakyClamp, one element.  ``lo``/``hi`` may be None (one-sided).
    All arguments Fractions (slope: the exact value of the float that is passed)."""
    x = Fraction(x)
    slope = Fraction(slope)
    lo = None if lo is None else Fraction(lo)
    hi = None if hi is None else Fraction(hi)
    if lo is not None and hi is not None and lo > hi:
        if inverted_output == "mean":
            return (lo + hi) / 2
        if inverted_output == "max":
            return hi
        raise ValueError(inverted_output)
    if lo is not None and x < lo:
        return lo + slope * (x - lo)
    if hi is not None and x > hi:
        return hi + slope * (x - hi)
    return x


def clamp(x, lo, hi, inverted_output="mean"):
    """Docstring of pfhedge.nn.Clamp: inside -> x, outside -> the nearer bound, inverted -> mean / max."""
    return leaky_clamp(x, lo, hi, 0, inverted_output)


# ---------------------------------------------------------------------------
# bilinear interpolation
# ---------------------------------------------------------------------------

def bilerp(x1, x2, x3, x4, w1, w2):
    x1, x2, x3, x4, w1, w2 = (Fraction(v) for v in (x1, x2, x3, x4, w1, w2))
    return ((1 - w1) * (1 - w2) * x1 + w1 * (1 - w2) * x2
            + (1 - w1) * w2 * x3 + w1 * w2 * x4)


# ---------------------------------------------------------------------------
# SVI
# ---------------------------------------------------------------------------

def svi_variance(k, a, b, rho, m, sigma):
    """w = a + b [rho (k-m) + sqrt((k-m)^2 + sigma^2)].  Returns (value, magnitude) where magnitude
    is the sum of the absolute values of the terms (natural scale of rounding errors)."""
    k, a, b, rho, m, sigma = (_mf(v) for v in (k, a, b, rho, m, sigma))
    d = k - m
    root = mp.sqrt(d * d + sigma * sigma)
    value = a + b * (rho * d + root)
    mag = abs(a) + abs(b) * (abs(rho * d) + root)
    return value, mag


# ---------------------------------------------------------------------------
# Box-Muller
# ---------------------------------------------------------------------------

def box_muller(u1, u2, epsilon=1e-10):
    """(sqrt(-2 log u1) cos(2 pi u2), sqrt(-2 log u1) sin(2 pi u2)), u1 floored at epsilon.
    Returns (z1, z2, radius)."""
    u1, u2, eps = _mf(u1), _mf(u2), _mf(epsilon)
    if u1 < eps:
        u1 = eps
    radius = mp.sqrt(-2 * mp.log(u1))
    ang = 2 * mp.pi * u2
    return radius * mp.cos(ang), radius * mp.sin(ang), radius

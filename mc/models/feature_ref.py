"""Reference model of the built-in input features (C02, C03).

Every function receives the *prefix* of one path only - ``spot[0..t]`` (and the
second factor ``second[0..t]`` where the underlier has one) as python floats -
so a value computed here is a function of the information available at step t
by construction.  Plain per-path python loops written from the feature
documentation (``S/K``, ``log(S/K)``, running maximum, remaining time
``(T-1-t)*dt``, ``sqrt(max(v,0))``, "has the price touched the barrier so far").

``value(spec, t, spot_prefix, second_prefix, env)`` returns a float or ``None``
when the documented value is not a closed function this model knows (listed
prices computed by a pricer, module outputs): those are only checked
relationally.
"""
from __future__ import annotations

import math

#: how the two-factor underliers expose their second buffer
SECOND = {"heston": "variance", "rough_bergomi": "variance", "local_vol": "volatility"}
CONST_VOL = ("brownian", "merton", "kou")


def _running_max(xs):
    m = xs[0]
    for x in xs[1:]:
        if x > m:
            m = x
    return m


def _running_min(xs):
    m = xs[0]
    for x in xs[1:]:
        if x < m:
            m = x
    return m


def _log(x):
    if x > 0:
        return math.log(x)
    if x == 0:
        return -math.inf
    return math.nan


def volatility_at(env, second_t, t=0):
    ul = env["ul"]
    if ul == "brownian_ts":
        # the harness' user subclass of BrownianStock: volatility term structure sigma (1 + t/4)
        return env["sigma"] * (1 + 0.25 * t)
    if ul == "heston_user":
        # the harness' user subclass of HestonStock: floored volatility sqrt(max(v, 0)) + 1/8
        return math.sqrt(max(second_t, 0.0)) + 0.125
    if ul in CONST_VOL:
        return env["sigma"]
    if SECOND.get(ul) == "variance":
        return math.sqrt(max(second_t, 0.0))
    if SECOND.get(ul) == "volatility":
        return second_t
    return None


def variance_at(env, second_t, t=0):
    ul = env["ul"]
    if ul == "brownian_ts":
        return (env["sigma"] * (1 + 0.25 * t)) ** 2
    if ul == "heston_user":
        return second_t
    if ul in CONST_VOL:
        return env["sigma"] ** 2
    if SECOND.get(ul) == "variance":
        return second_t
    if SECOND.get(ul) == "volatility":
        return second_t * second_t
    return None


def value(spec, t, spot_prefix, second_prefix, env):
    """Documented value of feature ``spec`` at step ``t`` on one path prefix.

    spec: dict {"f": name, ...}; env: {"ul", "strike", "dt", "T", "sigma"}.
    ``len(spot_prefix) == t + 1`` is asserted: nothing later than t is visible here.
    """
    assert len(spot_prefix) == t + 1
    assert second_prefix is None or len(second_prefix) == t + 1
    f = spec["f"]
    K = env.get("strike")
    s_t = spot_prefix[-1]
    v_t = None if second_prefix is None else second_prefix[-1]
    if f == "moneyness":
        return s_t / K
    if f == "log_moneyness":
        return _log(s_t / K)
    if f == "max_moneyness":
        return _running_max([s / K for s in spot_prefix])
    if f == "max_log_moneyness":
        return _running_max([_log(s / K) for s in spot_prefix])
    if f in ("time_to_maturity", "expiry_time"):
        return (env["T"] - 1 - t) * env["dt"]
    if f == "volatility":
        return volatility_at(env, v_t, t)
    if f == "variance":
        return variance_at(env, v_t, t)
    if f == "underlier_spot":
        return s_t
    if f == "underlier_log_spot":
        return _log(s_t)
    if f == "barrier":
        if spec["up"]:
            return 1.0 if _running_max(spot_prefix) >= spec["threshold"] else 0.0
        return 1.0 if _running_min(spot_prefix) <= spec["threshold"] else 0.0
    if f == "zeros":
        return 0.0
    if f == "ones":
        return 1.0
    if f in ("spot", "log_spot") and spec.get("pricer") == "dyadic":
        # the harness' own listed pricer: relu(S-K') + S/4 with K' = spec["pricer_strike"]
        p = max(s_t - spec["pricer_strike"], 0.0) + 0.25 * s_t
        return p if f == "spot" else _log(p)
    return None


def lookahead_visible(spec, t, spot_path, second_path, env):
    """True when a *whole-path* version of the feature (the look-ahead a wrong
    implementation would compute: value at t+1, or the statistic over the whole path)
    differs from the adapted value at t on this path - i.e. the node is one where
    anticipation would be observable.  Used only to count non-trivial nodes."""
    T = len(spot_path)
    if t >= T - 1:
        return False
    now = value(spec, t, spot_path[: t + 1], None if second_path is None else second_path[: t + 1], env)
    if now is None:
        return spot_path[t + 1:] != [spot_path[t]] * (T - 1 - t)
    later = value(spec, T - 1, spot_path, second_path, env)
    nxt = value(spec, t + 1, spot_path[: t + 2], None if second_path is None else second_path[: t + 2], env)
    return later != now or nxt != now

"""Finite-difference reference for gradients (property C14).

The oracle for ``d loss / d theta_i`` is the central difference of the *same* scalar function
(the real ``Hedger.compute_loss`` on the same scripted paths) at two step sizes.  Nothing of the
autograd machinery is used here: parameters are perturbed in place under ``no_grad`` and the
function is re-evaluated.

For a function that is three times differentiable on the stencil,

    D(h) = (f(x+h) - f(x-h)) / (2h) = f'(x) + h^2 f'''(xi)/6 + rounding,
    |rounding| <= eps * (|f(x+h)| + |f(x-h)|) * c_eval / (2h),

where ``c_eval`` bounds the relative rounding error of one evaluation of f (a few hundred
floating-point operations of moderate condition; c_eval = 256 is used).  Two differences at steps
h_l > h_{l+1} agree to ``|D(h_l)-D(h_{l+1})| <= (h_l^2 - h_{l+1}^2) M3/6 + rounding(h_l) + rounding(h_{l+1})``
for a coordinate that is smooth on the wider stencil, with ``M3 >= |f'''|``, and their Richardson
combination is O(h^4)-accurate.  A kink of f at distance c from x contaminates exactly the differences
with h > |c| by a first-order amount; the checks therefore use a ladder of steps (ratio 4): a coordinate
whose coarse pair is contaminated is decided on the first finer pair that is clean, counted as
non-smooth at the coarse stencil and never silently skipped; only a kink closer than the finest step
leaves the derivative undecided (then the value must lie between the one-sided slopes).
"""
from __future__ import annotations

import torch

EPS = 2.220446049250313e-16
C_EVAL = 256.0


def coordinates(params):
    """[(name, flat_index)] for every scalar coordinate of the named parameters (ordered)."""
    out = []
    for name, p in params:
        for i in range(p.numel()):
            out.append((name, i))
    return out


def central_differences(f, params, h):
    """Central differences of the scalar python-float function ``f()`` w.r.t. every scalar coordinate
    of ``params`` (list of (name, tensor)); returns (list of floats, max |f| seen)."""
    out = []
    fmax = 0.0
    with torch.no_grad():
        for name, p in params:
            flat = p.view(-1)
            for i in range(flat.numel()):
                x0 = flat[i].item()
                flat[i] = x0 + h
                fp = f()
                flat[i] = x0 - h
                fm = f()
                flat[i] = x0
                # the actual step (x0+h)-(x0-h) is used, not 2h: removes the representation error of x0 +- h
                step = (x0 + h) - (x0 - h)
                out.append((fp - fm) / step)
                fmax = max(fmax, abs(fp), abs(fm))
    return out, fmax


def central_difference_one(f, p, i, h):
    """Central difference w.r.t. the single coordinate ``p.view(-1)[i]``; returns (value, max |f|)."""
    with torch.no_grad():
        flat = p.view(-1)
        x0 = flat[i].item()
        flat[i] = x0 + h
        fp = f()
        flat[i] = x0 - h
        fm = f()
        flat[i] = x0
    return (fp - fm) / ((x0 + h) - (x0 - h)), max(abs(fp), abs(fm))


def rounding_bound(fmax, h):
    return EPS * C_EVAL * 2 * fmax / (2 * h)


def richardson(d1, d2, h1, h2):
    """Extrapolation of two central differences to O(h^4)."""
    r = (h1 / h2) ** 2
    return (r * d2 - d1) / (r - 1)

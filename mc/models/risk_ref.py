"""Reference model of the hedging criteria (C04, C05, C06).

Written from the mathematical definitions (Foellmer-Schied convex risk measures;
Buehler "Statistical Hedging" for the quadratic CVaR), never from pfhedge
expressions.  A *sample* is a python list of numbers (floats are taken exactly:
``Fraction(float)`` / ``mpf(float)`` are the exact binary values the
implementation received).

Exact rational arithmetic (``fractions.Fraction``) is used wherever the definition
is piecewise rational (expected shortfall, value at risk, quadratic CVaR, OCE
bookkeeping); ``mpmath`` at 50 digits where a transcendental function appears
(entropic risk, exponential / isoelastic utility).
"""
from __future__ import annotations

import math
from fractions import Fraction

import mpmath as mp

DPS = 50


def _mpf(x):
    if isinstance(x, Fraction):
        return mp.mpf(x.numerator) / mp.mpf(x.denominator)
    return mp.mpf(x)


# ----------------------------------------------------------------------------
# utilities and expected-utility criteria
# ----------------------------------------------------------------------------

def exp_utility(x, a=1.0):
    """u(x) = -exp(-a x)."""
    with mp.workdps(DPS):
        return -mp.exp(-_mpf(a) * _mpf(x))


def isoelastic_utility(x, a):
    """u(x) = x^(1-a) for a != 1, log x for a == 1 (x > 0)."""
    with mp.workdps(DPS):
        if a == 1:
            return mp.log(_mpf(x))
        return mp.power(_mpf(x), 1 - _mpf(a))


def entropic_risk(xs, a=1.0):
    """(1/a) log mean exp(-a x)."""
    with mp.workdps(DPS):
        n = len(xs)
        total = mp.mpf(0)
        for x in xs:
            total += mp.exp(-_mpf(a) * _mpf(x))
        return mp.log(total / n) / _mpf(a)


def entropic_loss(xs, a=1.0):
    """-mean u(x), u = exponential utility: mean exp(-a x)."""
    with mp.workdps(DPS):
        total = mp.mpf(0)
        for x in xs:
            total -= exp_utility(x, a)
        return total / len(xs)


def isoelastic_loss(xs, a):
    """-mean u(x), u = isoelastic utility."""
    with mp.workdps(DPS):
        total = mp.mpf(0)
        for x in xs:
            total -= isoelastic_utility(x, a)
        return total / len(xs)


def oce(xs, w, utility):
    """w - mean u(x + w) for a utility given as a function of an mpf."""
    with mp.workdps(DPS):
        total = mp.mpf(0)
        for x in xs:
            total += utility(_mpf(x) + _mpf(w))
        return _mpf(w) - total / len(xs)


def entropic_cash(xs, a=1.0):
    """Certainty equivalent of the exponential utility: -(1/a) log mean exp(-a x)."""
    return -entropic_risk(xs, a)


def isoelastic_cash(xs, a):
    """u^{-1}(mean u(x))."""
    with mp.workdps(DPS):
        m = -isoelastic_loss(xs, a)
        if a == 1:
            return mp.exp(m)
        return mp.power(m, 1 / (1 - _mpf(a)))


# ----------------------------------------------------------------------------
# order-statistic criteria (exact)
# ----------------------------------------------------------------------------

BORDERLINE = Fraction(1, 10 ** 9)


def tail_counts(p, n):
    """Accepted numbers of worst outcomes entering the expected shortfall at level p.

    Definition: ceil(p n).  ``p`` is the binary float the caller passed; when p*n is
    within 1e-9 of an integer k without being exactly k the level is *borderline*
    (a decimal like 0.2 meant as 1/5) and both adjacent counts are accepted, as
    the property states.  Returns (sorted list of accepted counts, borderline flag).
    """
    pn = Fraction(p) * n
    k = round(pn)
    if pn != k and abs(pn - k) < BORDERLINE:
        ks = sorted({min(max(k, 1), n), min(max(k + 1, 1), n)})
        return ks, True
    return [min(max(math.ceil(pn), 1), n)], False


def expected_shortfall(xs, p, count=None):
    """Minus the mean of the ceil(p n) worst (smallest) outcomes; exact Fraction."""
    s = sorted(Fraction(x) for x in xs)
    k = tail_counts(p, len(s))[0][0] if count is None else count
    return -sum(s[:k], Fraction(0)) / k


def expected_shortfall_accepted(xs, p):
    """All accepted values (one, or two at a borderline level)."""
    ks, _ = tail_counts(p, len(xs))
    return [expected_shortfall(xs, p, count=k) for k in ks]


def value_at_risk(xs, p):
    """Value at risk as the property states it.

    Returns ("exact", [accepted values]) when the value is prescribed
    (p <= 1/n: minimum; p > 1 - 1/n: maximum; p n = k integral: k-th worst;
    borderline levels accept the adjacent order statistics), else
    ("between", lo, hi): only monotonicity in p is prescribed, hence the value lies
    between the order statistics at the neighbouring integral levels.
    """
    s = sorted(Fraction(x) for x in xs)
    n = len(s)
    P = Fraction(p)
    pn = P * n
    k = round(pn)
    if pn == k:
        k = min(max(k, 1), n)
        return ("exact", [s[k - 1]])
    if abs(pn - k) < BORDERLINE:
        ks = sorted({min(max(k, 1), n), min(max(k + 1, 1), n)})
        return ("exact", [s[j - 1] for j in ks])
    if P <= Fraction(1, n):
        return ("exact", [s[0]])
    if P > 1 - Fraction(1, n):
        return ("exact", [s[-1]])
    lo = math.floor(pn)
    hi = math.ceil(pn)
    return ("between", s[max(lo, 1) - 1], s[min(hi, n) - 1])


# ----------------------------------------------------------------------------
# quadratic CVaR (exact)
# ----------------------------------------------------------------------------

def quadratic_objective(xs, lam, w):
    """w + lam * mean(max(-w - x, 0)^2), exact."""
    lam = Fraction(lam)
    w = Fraction(w)
    total = Fraction(0)
    for x in xs:
        d = -w - Fraction(x)
        if d > 0:
            total += d * d
    return w + lam * total / len(xs)


def quadratic_slope(xs, lam, w):
    """Derivative of the objective in w: 1 - 2 lam mean(max(-w - x, 0))."""
    lam = Fraction(lam)
    w = Fraction(w)
    total = Fraction(0)
    for x in xs:
        d = -w - Fraction(x)
        if d > 0:
            total += d
    return 1 - 2 * lam * total / len(xs)


def quadratic_cvar_argmin(xs, lam):
    """The unique minimiser w* of the convex piecewise-quadratic objective.

    Active-set solve: if exactly the k worst outcomes are "active" (x_i < -w) the
    stationarity condition 1 = 2 lam (1/n) sum_active (-w - x_i) is linear in w:
        w_k = -(S_k + n / (2 lam)) / k,      S_k = sum of the k worst outcomes.
    w_k is the minimiser iff its active set is consistent: x_(k) < -w_k <= x_(k+1).
    The objective is strictly convex where its slope is below 1, so exactly one k
    is consistent; the result is double-checked by the exact slope being zero.
    """
    lam = Fraction(lam)
    s = sorted(Fraction(x) for x in xs)
    n = len(s)
    found = None
    S = Fraction(0)
    for k in range(1, n + 1):
        S += s[k - 1]
        w = -(S + Fraction(n) / (2 * lam)) / k
        if s[k - 1] < -w and (k == n or -w <= s[k]):
            if found is not None:
                raise AssertionError("two consistent active sets")
            found = w
    if found is None:
        raise AssertionError("no consistent active set")
    if quadratic_slope(xs, lam, found) != 0:
        raise AssertionError("active-set solution is not stationary")
    return found


def quadratic_cvar(xs, lam):
    """min_w w + lam mean(max(-w - x, 0)^2), exact Fraction."""
    return quadratic_objective(xs, lam, quadratic_cvar_argmin(xs, lam))


def quadratic_gap(xs, lam):
    """mean(max x - x) - 1/(2 lam).  Negative iff the minimiser lies *below*
    -max(x), i.e. every outcome is active at the optimum (then
    w* = -mean(x) - 1/(2 lam) and the minimum is -mean(x) - 1/(4 lam) + lam var(x))."""
    s = [Fraction(x) for x in xs]
    mx = max(s)
    return sum((mx - x for x in s), Fraction(0)) / len(s) - 1 / (2 * Fraction(lam))


def minimiser_below_range(xs, lam):
    """Classifier of finding 11: the minimiser is smaller than -max(x)."""
    return quadratic_gap(xs, lam) < 0


def quadratic_cvar_range_restricted(xs, lam):
    """Model of the *defective* search of finding 11 (used only to classify a
    violation, never as the oracle): the objective minimised over
    w in [-max x, -min x] only.  By convexity this is the objective at the
    minimiser clipped to that interval."""
    s = [Fraction(x) for x in xs]
    w = quadratic_cvar_argmin(xs, lam)
    w = min(max(w, -max(s)), -min(s))
    return quadratic_objective(xs, lam, w)


# ----------------------------------------------------------------------------
# self-test (run by hand: /venv/bin/python -m mc.models.risk_ref)
# ----------------------------------------------------------------------------

def _selftest():
    import itertools
    A = [Fraction(-1), Fraction(-1, 4), Fraction(0), Fraction(1, 2), Fraction(3)]
    n_checked = 0
    for n in (1, 2, 3, 4):
        for xs in itertools.product(A, repeat=n):
            for lam in (1, 2, 10, 100):
                w = quadratic_cvar_argmin(xs, lam)
                v = quadratic_objective(xs, lam, w)
                # no w on a fine grid around w* and around the data does better
                pts = [w + Fraction(j, 64) for j in range(-24, 25)]
                pts += [-x + Fraction(j, 8) for x in set(xs) for j in range(-8, 9)]
                assert all(quadratic_objective(xs, lam, q) >= v for q in pts)
                if minimiser_below_range(xs, lam):
                    m = sum(xs) / n
                    var = sum((x - m) ** 2 for x in xs) / n
                    assert v == -m - Fraction(1, 4 * lam) + lam * var
                    assert quadratic_cvar_range_restricted(xs, lam) > v
                else:
                    assert quadratic_cvar_range_restricted(xs, lam) == v
                # axioms on the model itself
                assert quadratic_cvar([x + 3 for x in xs], lam) == v - 3
                assert -max(xs) - Fraction(1, 4 * lam) <= v <= -min(xs) - Fraction(1, 4 * lam)
                n_checked += 1
    assert quadratic_cvar([-0.5, 0.0], 1) == Fraction(1, 16)
    assert quadratic_cvar_range_restricted([-0.5, 0.0], 1) == Fraction(1, 8)
    assert quadratic_cvar([2, 2, 2], 2) == -2 - Fraction(1, 8)
    # expected shortfall / VaR
    xs = [-float(i) for i in range(10)]
    assert expected_shortfall(xs, 0.3) in (8, Fraction(15, 2)) and tail_counts(0.3, 10)[1]
    assert expected_shortfall(xs, 0.25) == 8
    assert value_at_risk(xs, 0.5) == ("exact", [Fraction(-5)])
    assert value_at_risk(xs, 0.05) == ("exact", [Fraction(-9)])
    assert value_at_risk(xs, 0.95) == ("exact", [Fraction(0)])
    assert value_at_risk(xs, 0.45) == ("between", Fraction(-6), Fraction(-5))
    with mp.workdps(DPS):
        assert abs(entropic_risk([-0.0, -1.0, -2.0, -3.0], 1.0) - mp.mpf("2.0539")) < 1e-4
        assert abs(isoelastic_cash([1.0, 2.0, 3.0, 4.0], 0.5) - mp.mpf("2.3610")) < 1e-4
        assert abs(entropic_risk([1e6, -1e6], 10.0) - (1e6 - mp.log(2) / 10)) < 1e-30
    print("risk_ref selftest ok:", n_checked, "quadratic cases")


if __name__ == "__main__":
    _selftest()

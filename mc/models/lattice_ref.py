"""Reference model for C07 (model-level validation): recombining binomial lattice.

The zero-rate Cox-Ross-Rubinstein lattice in log-price: steps of +-h, h = sigma sqrt(t/n),
up-probability p = (1 - d)/(u - d) = 1/(1 + e^h) (the price is a martingale on the lattice).
The path-dependent contracts need an augmented state, which is kept *explicitly*:

    barrier (American binary call)   state (step k, level j, hit flag)
    lookback call                    state (step k, level j, running-max level jm)

``explore_*`` walks the whole state graph forward (every reachable state, every transition -
they are counted) and then computes the expected payoff by exhaustive backward induction over
that graph.  No reflection principle, no normal distribution, no closed form is used: only the
contract's payoff and the one-step martingale probabilities.

Why the lattice *brackets* the continuous-time value (used by C07 for the band):
the lattice walk is the continuous log-price X observed at the successive times it has moved
by +-h from the last observed value (for a martingale S, P(S reaches S*u before S*d) is exactly
p above).  Between two observations X moves by less than h, so with tau_n the n-th observation
time,   walk_max <= max_{u <= tau_n} X_u < walk_max + h.
Therefore, for a level b = jb*h on a node,
    P(max_{tau_n} X >= b + h) <= P(walk_max >= jb) <= P(max_{tau_n} X >= b),
    E payoff(walk_max) <= E payoff(max_{tau_n} X) <= e^h E payoff(walk_max) + (e^h - 1) K,
and tau_n = t (1 + O(n^{-1/2})): E tau_n = t * tanh(h/2)/(h/2), sd(tau_n) ~ t sqrt(2/(3n)).

Plain float64 numpy: the band is O(n^{-1/2}), rounding is O(1e-13).
"""
from __future__ import annotations

import math

import numpy as np


def _p_up(h):
    return 1.0 / (1.0 + math.exp(h))


def explore_barrier(n, h, jb):
    """P(walk reaches level jb within n steps | start at level 0, not hit unless jb <= 0).

    State (k, j, hit): j = number of up-moves minus down-moves, hit = 1 once j >= jb was seen.
    Returns dict(value, states, transitions, leaves)."""
    p = _p_up(h)
    q = 1.0 - p
    size = 2 * n + 1          # index j + n
    # ---- forward: reachable states ----
    reach = np.zeros((2, size), dtype=bool)   # [hit, j]
    hit0 = 1 if jb <= 0 else 0
    reach[hit0, n] = True
    layers = [reach.copy()]
    states = 1
    transitions = 0
    levels = np.arange(-n, n + 1)
    for k in range(n):
        cur = layers[-1]
        nxt = np.zeros_like(cur)
        # down moves keep the flag
        nxt[:, :-1] |= cur[:, 1:]
        # up moves: flag becomes 1 when the new level >= jb
        up_from_unhit = np.zeros(size, dtype=bool)
        up_from_unhit[1:] = cur[0, :-1]
        up_from_hit = np.zeros(size, dtype=bool)
        up_from_hit[1:] = cur[1, :-1]
        crosses = levels >= jb
        nxt[0] |= up_from_unhit & ~crosses
        nxt[1] |= (up_from_unhit & crosses) | up_from_hit
        transitions += 2 * int(cur.sum())
        states += int(nxt.sum())
        layers.append(nxt)
    # ---- backward induction over the explored graph ----
    V = np.zeros((2, size))
    V[1, :] = 1.0                              # payoff = hit flag
    leaves = int(layers[-1].sum())
    crosses = levels >= jb
    for k in range(n - 1, -1, -1):
        up = np.zeros((2, size))
        dn = np.zeros((2, size))
        # value after an up move from (hit, j): V[hit or crosses(j+1), j+1]
        v_up_unhit = np.where(crosses[1:], V[1, 1:], V[0, 1:])
        up[0, :-1] = v_up_unhit
        up[1, :-1] = V[1, 1:]
        dn[:, 1:] = V[:, :-1]
        V = p * up + q * dn
        V = np.where(layers[k], V, 0.0)        # unreachable states carry no value
    return {"value": float(V[hit0, n]), "states": states, "transitions": transitions, "leaves": leaves}


def explore_lookback(n, h, jM, S, K):
    """E ( S * exp(h * max(jM, walk_max)) - K )^+ over n steps, walk started at level 0 with the
    running maximum already at level jM >= 0.

    State (k, j, jm), jm = running-max level.  Returns dict(value, states, transitions, leaves)."""
    if jM < 0:
        raise ValueError("running maximum below the spot")
    p = _p_up(h)
    q = 1.0 - p
    nj = 2 * n + 1            # index j + n
    nm = n + jM + 1           # jm in 0..n+jM (index jm)
    levels = np.arange(-n, n + 1)[:, None]          # j
    maxes = np.arange(nm)[None, :]                  # jm
    reach = np.zeros((nj, nm), dtype=bool)
    reach[n, jM] = True
    layers = [reach]
    states = 1
    transitions = 0
    for k in range(n):
        cur = layers[-1]
        nxt = np.zeros_like(cur)
        nxt[:-1, :] |= cur[1:, :]                    # down: j-1, jm unchanged
        upm = np.zeros_like(cur)
        upm[1:, :] = cur[:-1, :]                     # up: j+1 ...
        stays = upm & (levels <= maxes)              # ... new level does not exceed jm
        nxt |= stays
        newmax = upm & (levels > maxes)              # ... new level j+1 = jm+1 becomes the max
        # move those to column jm = j (their new level)
        rows, cols = np.nonzero(newmax)
        if len(rows):
            nxt[rows, rows - n] = True               # level value of row r is r - n = new jm
        transitions += 2 * int(cur.sum())
        states += int(nxt.sum())
        layers.append(nxt)
    leaves = int(layers[-1].sum())
    payoff = np.maximum(S * np.exp(h * maxes.astype(float)) - K, 0.0)
    V = np.broadcast_to(payoff, (nj, nm)).copy()
    diag_rows = np.arange(nj)
    for k in range(n - 1, -1, -1):
        up = np.zeros((nj, nm))
        dn = np.zeros((nj, nm))
        dn[1:, :] = V[:-1, :]
        # up move from (j, jm): new level j+1; if j+1 > jm the max becomes j+1
        Vup = np.zeros((nj, nm))
        Vup[:-1, :] = V[1:, :]                       # V[j+1, jm]
        # value at (j+1, jm'=j+1) for each j:  V[j+1, j+1] (needs j+1 in 0..nm-1)
        newlev = diag_rows + 1 - n                   # level j+1 for row index of j
        ok = (newlev >= 0) & (newlev < nm) & (diag_rows + 1 < nj)
        Vdiag = np.zeros(nj)
        Vdiag[ok] = V[diag_rows[ok] + 1, newlev[ok]]
        exceeds = (levels + 1) > maxes
        up = np.where(exceeds, Vdiag[:, None], Vup)
        V = p * up + q * dn
        V = np.where(layers[k], V, 0.0)
    return {"value": float(V[n, jM]), "states": states, "transitions": transitions, "leaves": leaves}


def brute_force_barrier(n, h, jb):
    """All 2^n paths (tiny n only): validates explore_barrier itself."""
    import itertools
    p = _p_up(h)
    tot = 0.0
    for path in itertools.product((1, -1), repeat=n):
        j = 0
        hit = jb <= 0
        pr = 1.0
        for step in path:
            j += step
            pr *= p if step == 1 else 1 - p
            hit = hit or j >= jb
        tot += pr * hit
    return tot


def brute_force_lookback(n, h, jM, S, K):
    import itertools
    p = _p_up(h)
    tot = 0.0
    for path in itertools.product((1, -1), repeat=n):
        j = 0
        jm = jM
        pr = 1.0
        for step in path:
            j += step
            pr *= p if step == 1 else 1 - p
            jm = max(jm, j)
        tot += pr * max(S * math.exp(h * jm) - K, 0.0)
    return tot


# ----------------------------------------------------------------------------
# the lattice clock: tau_n = time the continuous log-price needs for n moves of size h
# ----------------------------------------------------------------------------

def _log_mgf(lam, h):
    """log E exp(lam * theta) for theta = sigma^2 tau_1 / h^2, tau_1 the exit time of
    X_u = -sigma^2 u/2 + sigma W_u from (-h, h):  E exp(-a theta) = cosh(h/2) / cosh(sqrt(h^2/4 + 2a))
    (textbook Laplace transform of the two-sided exit time of Brownian motion with drift),
    continued to a = -lam < 0:  cosh(sqrt(x)) = cos(sqrt(-x)) for x < 0."""
    x = h * h / 4 - 2 * lam
    if x >= 0:
        den = math.cosh(math.sqrt(x))
    else:
        r = math.sqrt(-x)
        if r >= math.pi / 2:
            return math.inf
        den = math.cos(r)
    return math.log(math.cosh(h / 2)) - math.log(den)


def clock_tail_bound(n, h, delta):
    """Chernoff bound on P(tau_n > t(1+delta)) + P(tau_n < t(1-delta)), t = n h^2 / sigma^2, i.e. on
    P(sum theta_i > n(1+delta)) + P(sum theta_i < n(1-delta)); the exponent is maximised over a
    fixed ladder of 4000 tilts per side (any tilt gives a valid bound)."""
    lam_max = (math.pi ** 2 / 4 + h * h / 4) / 2
    best_up = 0.0
    best_dn = 0.0
    for i in range(1, 4000):
        lam = lam_max * i / 4000
        e = lam * (1 + delta) - _log_mgf(lam, h)
        best_up = max(best_up, e)
        lam2 = 40.0 * i / 4000            # lower tail: tilt -lam2
        e2 = -lam2 * (1 - delta) - _log_mgf(-lam2, h)
        best_dn = max(best_dn, e2)
    return math.exp(-n * best_up) + math.exp(-n * best_dn)


def second_moment_at_clock(n, h):
    """E (S_{tau_n}/S)^2 = (p e^{2h} + q e^{-2h})^n exactly (the walk has n steps of +-h)."""
    p = _p_up(h)
    return (p * math.exp(2 * h) + (1 - p) * math.exp(-2 * h)) ** n

"""Reference models of the simulation schemes pfhedge names (C10), in mpmath.

Everything here is written from the published scheme / the SDE's closed-form
solution, never from pfhedge's expressions:

* Brownian motion, geometric Brownian motion: exact solution of the SDE.
* Vasicek / Ornstein-Uhlenbeck: exact transition (Gillespie 1996, eq. 3.3-3.4 /
  Glasserman 2004, eq. 3.46).
* CIR: exact conditional mean and variance (Cox-Ingersoll-Ross 1985; Andersen 2007,
  Proposition 2 / eq. 17-18); the quadratic-exponential (QE) step of Andersen 2007,
  section 3.2 (eq. 23, 25, 27, 28, 29, 30) with both branches and its moments.
* Heston log-spot: Andersen 2007 eq. 33 with K0..K4 (central discretisation
  gamma1 = gamma2 = 1/2), its one-step correlation and E[S'/S].
* Merton (1976) and Kou (2002) jump diffusions: exact solution given the jump
  count and sizes, the compensators E[e^Y]-1, with mp.quad / mp.nsum derivations.
* Rough Bergomi: hybrid scheme of Bennedsen-Lunde-Pakkanen (2017) with kappa = 1 as
  used by McCrickerd-Pakkanen (2018): covariance of (dW, int (t_{i+1}-s)^a dW), the
  optimal evaluation points b*_k and the Riemann weights (b*_k dt)^a.
* Local volatility: Euler-Maruyama step of dS = sigma(t,S) S dW.
* Box-Muller transform.

All functions take/return ``mpf`` (python floats are converted exactly); the caller
sets ``mp.dps`` (>= 30).  No torch in this module.
"""
from __future__ import annotations

from mpmath import mp, mpf

PSI_CRIT = mpf(3) / 2  # Andersen 2007 section 3.2.3: any value in [1, 2]; 1.5 recommended


def M(x):
    """Exact conversion of a python float / int / mpf to mpf."""
    return x if isinstance(x, mpf) else mpf(x)


# ----------------------------------------------------------------------------
# Brownian motion and geometric Brownian motion
# ----------------------------------------------------------------------------

def brownian_step(x, mu, sigma, dt, z):
    """X(t+dt) = X(t) + mu dt + sigma sqrt(dt) Z   (exact: dX = mu dt + sigma dW)."""
    return M(x) + M(mu) * M(dt) + M(sigma) * mp.sqrt(M(dt)) * M(z)


def gbm_step(s, mu, sigma, dt, z):
    """S(t+dt) = S(t) exp((mu - sigma^2/2) dt + sigma sqrt(dt) Z)   (exact solution)."""
    mu, sigma, dt = M(mu), M(sigma), M(dt)
    return M(s) * mp.exp((mu - sigma ** 2 / 2) * dt + sigma * mp.sqrt(dt) * M(z))


def gbm_mean(s0, mu, t):
    return M(s0) * mp.exp(M(mu) * M(t))


def gbm_logvar(sigma, t):
    return M(sigma) ** 2 * M(t)


# ----------------------------------------------------------------------------
# Ornstein-Uhlenbeck / Vasicek
# ----------------------------------------------------------------------------

def ou_step(x, kappa, theta, sigma, dt, z):
    """Exact transition of dX = kappa (theta - X) dt + sigma dW."""
    kappa, theta, sigma, dt = M(kappa), M(theta), M(sigma), M(dt)
    e = mp.exp(-kappa * dt)
    sd = sigma * mp.sqrt((1 - e * e) / (2 * kappa))
    return theta + (M(x) - theta) * e + sd * M(z)


def ou_mean(x0, kappa, theta, t):
    return M(theta) + (M(x0) - M(theta)) * mp.exp(-M(kappa) * M(t))


def ou_var(kappa, sigma, t):
    return M(sigma) ** 2 * (1 - mp.exp(-2 * M(kappa) * M(t))) / (2 * M(kappa))


# ----------------------------------------------------------------------------
# CIR: exact moments and the QE scheme
# ----------------------------------------------------------------------------

def cir_mean(v, kappa, theta, t):
    """E[V(t) | V(0) = v] for dV = kappa (theta - V) dt + sigma sqrt(V) dW."""
    return M(theta) + (M(v) - M(theta)) * mp.exp(-M(kappa) * M(t))


def cir_var(v, kappa, theta, sigma, t):
    """Var[V(t) | V(0) = v]."""
    kappa, theta, sigma = M(kappa), M(theta), M(sigma)
    e = mp.exp(-kappa * M(t))
    return M(v) * sigma ** 2 * e * (1 - e) / kappa + theta * sigma ** 2 * (1 - e) ** 2 / (2 * kappa)


class QE:
    """One QE step from state v: the branch, its constants, the sampling map."""

    def __init__(self, v, kappa, theta, sigma, dt, psi_crit=PSI_CRIT):
        self.v = M(v)
        self.m = cir_mean(v, kappa, theta, dt)
        self.s2 = cir_var(v, kappa, theta, sigma, dt)
        self.psi = self.s2 / self.m ** 2
        self.quadratic = self.psi <= psi_crit
        if self.quadratic:
            # eq. 27: b^2 = 2/psi - 1 + sqrt(2/psi) sqrt(2/psi - 1) ; eq. 28: a = m / (1 + b^2)
            ip = 2 / self.psi
            self.b2 = ip - 1 + mp.sqrt(ip) * mp.sqrt(ip - 1)
            self.b = mp.sqrt(self.b2)
            self.a = self.m / (1 + self.b2)
        else:
            # eq. 29-30: p = (psi - 1)/(psi + 1), beta = (1 - p)/m
            self.p = (self.psi - 1) / (self.psi + 1)
            self.beta = (1 - self.p) / self.m

    def sample(self, z=None, u=None):
        """eq. 23: a (b + Z)^2 ;  eq. 25-26: Psi^{-1}(U) = 0 for U <= p, log((1-p)/(1-U))/beta above."""
        if self.quadratic:
            return self.a * (self.b + M(z)) ** 2
        u = M(u)
        if u <= self.p:
            return mpf(0)
        return mp.log((1 - self.p) / (1 - u)) / self.beta

    def u_of_x(self, x):
        """The uniform that maps to the Exp(1) quantile x of the exponential tail."""
        return 1 - (1 - self.p) * mp.exp(-M(x))

    # moments of the scheme's own one-step law (section 3.2.1 / 3.2.2)
    def scheme_mean(self):
        if self.quadratic:
            return self.a * (1 + self.b2)
        return (1 - self.p) / self.beta

    def scheme_var(self):
        if self.quadratic:
            return 2 * self.a ** 2 * (1 + 2 * self.b2)
        return (1 - self.p ** 2) / self.beta ** 2

    def mgf(self, A):
        """E[exp(A V')] under the scheme's one-step law (Andersen Prop. 5/6); None when infinite."""
        A = M(A)
        if self.quadratic:
            if 2 * A * self.a >= 1:
                return None
            return mp.exp(A * self.a * self.b2 / (1 - 2 * A * self.a)) / mp.sqrt(1 - 2 * A * self.a)
        if A >= self.beta:
            return None
        return self.p + (1 - self.p) * self.beta / (self.beta - A)


# ----------------------------------------------------------------------------
# Heston log-spot (Andersen eq. 33)
# ----------------------------------------------------------------------------

def andersen_k(kappa, theta, sigma, rho, dt, g1=mpf(1) / 2, g2=mpf(1) / 2):
    kappa, theta, sigma, rho, dt = M(kappa), M(theta), M(sigma), M(rho), M(dt)
    k0 = -rho * kappa * theta / sigma * dt
    k1 = g1 * dt * (kappa * rho / sigma - mpf(1) / 2) - rho / sigma
    k2 = g2 * dt * (kappa * rho / sigma - mpf(1) / 2) + rho / sigma
    k3 = g1 * dt * (1 - rho ** 2)
    k4 = g2 * dt * (1 - rho ** 2)
    return k0, k1, k2, k3, k4


def heston_logspot_step(logs, v0, v1, k, z):
    """ln S' = ln S + K0 + K1 V + K2 V' + sqrt(K3 V + K4 V') Z."""
    k0, k1, k2, k3, k4 = k
    return M(logs) + k0 + k1 * M(v0) + k2 * M(v1) + mp.sqrt(k3 * M(v0) + k4 * M(v1)) * M(z)


def heston_step_corr(qe, k):
    """Corr(ln S' - ln S, V' - V | V) of the scheme: Z is independent of V' so
    Cov = K2 Var V', Var(dlnS) = K2^2 Var V' + K3 V + K4 E V'."""
    k0, k1, k2, k3, k4 = k
    s2, m = qe.scheme_var(), qe.scheme_mean()
    return k2 * s2 / mp.sqrt(s2 * (k2 ** 2 * s2 + k3 * qe.v + k4 * m))


def heston_step_growth(qe, k):
    """E[S'/S | V] of the scheme = exp(K0 + (K1 + K3/2) V) E[exp((K2 + K4/2) V')]; None if infinite."""
    k0, k1, k2, k3, k4 = k
    g = qe.mgf(k2 + k4 / 2)
    if g is None:
        return None
    return mp.exp(k0 + (k1 + k3 / 2) * qe.v) * g


# ----------------------------------------------------------------------------
# Jump diffusions
# ----------------------------------------------------------------------------

def merton_compensator(jump_mean, jump_std):
    """k = E[e^Y] - 1, Y ~ N(jump_mean, jump_std^2)."""
    return mp.exp(M(jump_mean) + M(jump_std) ** 2 / 2) - 1


def merton_step(s, mu, sigma, lam, jump_mean, jump_std, dt, z, count, zj):
    """Exact solution over one step given the number of jumps ``count`` in the step:
    the sum of ``count`` iid N(jump_mean, jump_std^2) log-jumps is
    count*jump_mean + jump_std*sqrt(count)*ZJ."""
    mu, sigma, lam, dt = M(mu), M(sigma), M(lam), M(dt)
    k = merton_compensator(jump_mean, jump_std)
    jump = M(jump_mean) * count + M(jump_std) * mp.sqrt(count) * M(zj)
    return M(s) * mp.exp((mu - lam * k - sigma ** 2 / 2) * dt + sigma * mp.sqrt(dt) * M(z) + jump)


def merton_step_logvar(sigma, lam, jump_mean, jump_std, dt):
    """Var of the log-return over dt: diffusion + compound Poisson  lam dt E[Y^2]."""
    return M(sigma) ** 2 * M(dt) + M(lam) * M(dt) * (M(jump_mean) ** 2 + M(jump_std) ** 2)


def kou_compensator(p, eta_up, eta_dn):
    """E[e^Y] - 1 for the double exponential log-jump: density
    p eta_up e^{-eta_up y} 1{y>0} + (1-p) eta_dn e^{eta_dn y} 1{y<0}   (eta_up > 1)."""
    p, e1, e2 = M(p), M(eta_up), M(eta_dn)
    return p * e1 / (e1 - 1) + (1 - p) * e2 / (e2 + 1) - 1


def kou_jump_second_moment(p, eta_up, eta_dn):
    p, e1, e2 = M(p), M(eta_up), M(eta_dn)
    return 2 * p / e1 ** 2 + 2 * (1 - p) / e2 ** 2


def kou_step(s, mu, sigma, lam, p, eta_up, eta_dn, dt, z, jumps):
    """Exact solution over one step given the signed log-jumps in the step."""
    mu, sigma, lam, dt = M(mu), M(sigma), M(lam), M(dt)
    m = kou_compensator(p, eta_up, eta_dn)
    tot = mpf(0)
    for y in jumps:
        tot += M(y)
    return M(s) * mp.exp((mu - lam * m - sigma ** 2 / 2) * dt + sigma * mp.sqrt(dt) * M(z) + tot)


def kou_step_logvar(sigma, lam, p, eta_up, eta_dn, dt):
    return M(sigma) ** 2 * M(dt) + M(lam) * M(dt) * kou_jump_second_moment(p, eta_up, eta_dn)


def derive_merton(lam, jump_mean, jump_std, dt, mu=0, sigma=mpf(1) / 5):
    """Derivation by quadrature/summation (not by the closed forms above):
    E[e^Y] by mp.quad against the normal density, E[exp(sum of N jumps)] by mp.nsum over
    the Poisson law, and the one-step growth and log-variance of the compensated scheme.
    Returns dict of (derived, closed_form) pairs."""
    lam, jm, js, dt, mu, sigma = M(lam), M(jump_mean), M(jump_std), M(dt), M(mu), M(sigma)
    out = {}
    if js > 0:
        pdf = lambda y: mp.exp(-(y - jm) ** 2 / (2 * js ** 2)) / (js * mp.sqrt(2 * mp.pi))
        lo, hi = jm - 40 * js, jm + 40 * js
        ey = mp.quad(lambda y: mp.exp(y) * pdf(y), [lo, jm, hi])
        ey2 = mp.quad(lambda y: y * y * pdf(y), [lo, jm, hi])
    else:
        ey, ey2 = mp.exp(jm), jm ** 2
    out["E[e^Y]"] = (ey, 1 + merton_compensator(jm, js))
    L = lam * dt
    pois = lambda n: mp.exp(-L) * L ** n / mp.factorial(n)
    esum = mp.nsum(lambda n: pois(n) * ey ** n, [0, mp.inf])
    out["E[exp(sum Y)]"] = (esum, mp.exp(L * merton_compensator(jm, js)))
    # growth of one step: E[e^{sigma sqrt(dt) Z}] = e^{sigma^2 dt/2} by quadrature too
    c = sigma * mp.sqrt(dt)
    ez = mp.quad(lambda z: mp.exp(c * z - z * z / 2) / mp.sqrt(2 * mp.pi), [-40, 0, 40])
    growth = mp.exp((mu - lam * (ey - 1) - sigma ** 2 / 2) * dt) * ez * esum
    out["E[S'/S]"] = (growth, mp.exp(mu * dt))
    # log-variance: Var(sum of N iid) = E[N] Var Y + Var N (E Y)^2 = L E[Y^2]
    en = mp.nsum(lambda n: pois(n) * n, [0, mp.inf])
    en2 = mp.nsum(lambda n: pois(n) * n * n, [0, mp.inf])
    var_jump = en * (ey2 - jm ** 2) + (en2 - en ** 2) * jm ** 2
    out["Var dlogS"] = (sigma ** 2 * dt + var_jump, merton_step_logvar(sigma, lam, jm, js, dt))
    return out


def derive_kou(lam, p, eta_up, eta_dn, dt, mu=0, sigma=mpf(1) / 5):
    lam, p, e1, e2, dt, mu, sigma = M(lam), M(p), M(eta_up), M(eta_dn), M(dt), M(mu), M(sigma)
    out = {}
    up = lambda f: mp.quad(lambda y: f(y) * e1 * mp.exp(-e1 * y), [0, 1 / e1, 10 / e1, mp.inf])
    dn = lambda f: mp.quad(lambda y: f(-y) * e2 * mp.exp(-e2 * y), [0, 1 / e2, 10 / e2, mp.inf])
    ey = p * up(mp.exp) + (1 - p) * dn(mp.exp)
    ey1 = p * up(lambda y: y) + (1 - p) * dn(lambda y: y)
    ey2 = p * up(lambda y: y * y) + (1 - p) * dn(lambda y: y * y)
    out["E[e^Y]"] = (ey, 1 + kou_compensator(p, e1, e2))
    L = lam * dt
    pois = lambda n: mp.exp(-L) * L ** n / mp.factorial(n)
    esum = mp.nsum(lambda n: pois(n) * ey ** n, [0, mp.inf])
    out["E[exp(sum Y)]"] = (esum, mp.exp(L * kou_compensator(p, e1, e2)))
    c = sigma * mp.sqrt(dt)
    ez = mp.quad(lambda z: mp.exp(c * z - z * z / 2) / mp.sqrt(2 * mp.pi), [-40, 0, 40])
    growth = mp.exp((mu - lam * (ey - 1) - sigma ** 2 / 2) * dt) * ez * esum
    out["E[S'/S]"] = (growth, mp.exp(mu * dt))
    en = mp.nsum(lambda n: pois(n) * n, [0, mp.inf])
    en2 = mp.nsum(lambda n: pois(n) * n * n, [0, mp.inf])
    var_jump = en * (ey2 - ey1 ** 2) + (en2 - en ** 2) * ey1 ** 2
    out["Var dlogS"] = (sigma ** 2 * dt + var_jump, kou_step_logvar(sigma, lam, p, e1, e2, dt))
    return out


# ----------------------------------------------------------------------------
# Rough Bergomi: hybrid scheme, kappa = 1
# ----------------------------------------------------------------------------

def hybrid_cov(alpha, dt):
    """Covariance of (W(t+dt)-W(t), int_t^{t+dt} (t+dt-s)^alpha dW(s)):
    [[dt, dt^{a+1}/(a+1)], [., dt^{2a+1}/(2a+1)]]  (Ito isometry)."""
    a, dt = M(alpha), M(dt)
    c01 = dt ** (a + 1) / (a + 1)
    return [[dt, c01], [c01, dt ** (2 * a + 1) / (2 * a + 1)]]


def derive_hybrid_cov(alpha, dt):
    a, dt = M(alpha), M(dt)
    # substitute u = t+dt-s (singularity at the endpoint 0) and u = w^q with an integer q large
    # enough that the integrand q w^{q(e+1)-1} vanishes at 0: tanh-sinh then converges to full precision
    def power_integral(e):
        q = int(mp.ceil(2 / (e + 1)))
        top = dt ** (mpf(1) / q)
        return mp.quad(lambda w: q * w ** (q * (e + 1) - 1), [0, top])
    c01 = power_integral(a)
    c11 = power_integral(2 * a)
    return [[dt, c01], [c01, c11]]


def hybrid_bstar(k, alpha):
    """Optimal evaluation point b*_k = ((k^{a+1} - (k-1)^{a+1})/(a+1))^{1/a}  (BLP 2017, Prop. 2.8)."""
    a = M(alpha)
    return ((mpf(k) ** (a + 1) - mpf(k - 1) ** (a + 1)) / (a + 1)) ** (1 / a)


def hybrid_gamma(k, alpha, steps_per_unit_time):
    """Riemann weight of the increment k steps back: g(b*_k / n), g(x) = x^a, n = 1/dt."""
    return (hybrid_bstar(k, alpha) / M(steps_per_unit_time)) ** M(alpha)


def hybrid_matrix(n_steps, alpha, dt, steps_per_unit_time=None):
    """Coefficients of Y(t_i), i = 0..n_steps-1, on the two components of the step
    noises j = 0..n_steps-2 (step j covers [t_j, t_{j+1}]):
        Y_i = sqrt(2a+1) ( I_{i-1} + sum_{k=2..i} (b*_k dt)^a  dW_{i-k} ),
    I_j = int_{t_j}^{t_{j+1}} (t_{j+1}-s)^a dW,  dW_j = W(t_{j+1})-W(t_j).
    Returns (K0, K1): K0[i][j] multiplies dW_j, K1[i][j] multiplies I_j."""
    a = M(alpha)
    n = 1 / M(dt) if steps_per_unit_time is None else M(steps_per_unit_time)
    c = mp.sqrt(2 * a + 1)
    g = {k: hybrid_gamma(k, a, n) for k in range(2, n_steps)}
    K0 = [[mpf(0)] * (n_steps - 1) for _ in range(n_steps)]
    K1 = [[mpf(0)] * (n_steps - 1) for _ in range(n_steps)]
    for i in range(1, n_steps):
        K1[i][i - 1] = c
        for k in range(2, i + 1):
            K0[i][i - k] = c * g[k]
    return K0, K1


def volterra_var(K0row, K1row, cov):
    """Var of sum_j K0[j] dW_j + K1[j] I_j, step noises independent across j."""
    tot = mpf(0)
    for x, y in zip(K0row, K1row):
        tot += x * x * cov[0][0] + 2 * x * y * cov[0][1] + y * y * cov[1][1]
    return tot


def rbergomi_variance(level, eta, alpha, t, y):
    """V(t) = xi exp(eta Y(t) - eta^2/2 t^{2a+1})  (Bayer-Friz-Gatheral 2016)."""
    eta, a, t = M(eta), M(alpha), M(t)
    comp = eta ** 2 / 2 * (t ** (2 * a + 1) if t > 0 else mpf(0))
    return M(level) * mp.exp(eta * M(y) - comp)


def rbergomi_forward_ratio(eta, alpha, t, var_y):
    """E[V(t)]/xi given Var Y(t): exp(eta^2/2 (Var Y - t^{2a+1}))."""
    eta, a, t = M(eta), M(alpha), M(t)
    return mp.exp(eta ** 2 / 2 * (M(var_y) - t ** (2 * a + 1)))


def rbergomi_logret(v, rho, dw1, dw2, dt):
    """d ln S = sqrt(V) dB - V dt/2, dB = rho dW1 + sqrt(1-rho^2) dW2."""
    rho = M(rho)
    db = rho * M(dw1) + mp.sqrt(1 - rho ** 2) * M(dw2)
    return mp.sqrt(M(v)) * db - M(v) * M(dt) / 2


# ----------------------------------------------------------------------------
# Local volatility: Euler-Maruyama
# ----------------------------------------------------------------------------

def euler_lv_step(s, sigma_value, dt, z):
    """S' = S (1 + sigma(t, S) sqrt(dt) Z)."""
    return M(s) * (1 + M(sigma_value) * mp.sqrt(M(dt)) * M(z))


# ----------------------------------------------------------------------------
# Box-Muller
# ----------------------------------------------------------------------------

def box_muller(u1, u2, epsilon=mpf("1e-10")):
    """(sqrt(-2 ln u1) cos 2 pi u2, sqrt(-2 ln u1) sin 2 pi u2), u1 clamped below by epsilon
    (documented argument of pfhedge.nn.functional.box_muller)."""
    u1, u2 = M(u1), M(u2)
    if u1 < epsilon:
        u1 = M(epsilon)
    r = mp.sqrt(-2 * mp.log(u1))
    return r * mp.cos(2 * mp.pi * u2), r * mp.sin(2 * mp.pi * u2)


def derive_box_muller_moments():
    """Mean, variance and cross moment of the Box-Muller pair for independent uniforms,
    by separable quadrature: R^2 = -2 ln U1, Theta = 2 pi U2."""
    er2 = mp.quad(lambda u: -2 * mp.log(u), [0, mp.mpf(1) / 2, 1])
    er = mp.quad(lambda u: mp.sqrt(-2 * mp.log(u)), [0, mpf("1e-30"), mpf("1e-6"), mp.mpf(1) / 2, 1])
    ec = mp.quad(lambda v: mp.cos(2 * mp.pi * v), [0, 1])
    es = mp.quad(lambda v: mp.sin(2 * mp.pi * v), [0, 1])
    ec2 = mp.quad(lambda v: mp.cos(2 * mp.pi * v) ** 2, [0, 1])
    es2 = mp.quad(lambda v: mp.sin(2 * mp.pi * v) ** 2, [0, 1])
    ecs = mp.quad(lambda v: mp.cos(2 * mp.pi * v) * mp.sin(2 * mp.pi * v), [0, 1])
    return {"mean0": er * ec, "mean1": er * es, "var0": er2 * ec2 - (er * ec) ** 2,
            "var1": er2 * es2 - (er * es) ** 2, "cov": er2 * ecs - er * ec * er * es}

"""Reference model for C07: Black-Scholes prices as *defining expectations*.

Zero rates, S a geometric Brownian motion (a martingale):

    S_u = S exp(X_u),  X_u = -sigma^2 u / 2 + sigma W_u,   0 <= u <= t.

Nothing in this file uses a closed-form option price.  Every value is a numerical
quadrature (mpmath, 30 digits) of the *payoff* of the contract

    European call/put      (S_t - K)^+ , (K - S_t)^+
    European binary        1{S_t >= K} , 1{S_t <= K}
    American binary call   1{ max(M0, max_u S_u) >= K }
    lookback call          ( max(M0, max_u S_u) - K )^+          (M0 >= S running max so far)

against
  (a) the law of the terminal value: X_t = -w^2/2 + w Z, Z standard normal, w = sigma sqrt(t)
      (integration variable z, weight = the normal density);
  (b) for the path-dependent contracts the law of the running maximum
      Y = max_u X_u.  Two independent routes to its survival function G(b) = P(Y >= b), b >= 0:
        G_girsanov  quadrature over the terminal value x of driftless Brownian motion B
                    (B_t ~ N(0, t)) of  exp(theta x - theta^2 t / 2) * P(max B >= y | B_t = x)
                    with the elementary reflection principle for *driftless* motion,
                    P(max B >= y, B_t in dx) = phi_t(x) dx (x > y),  phi_t(2y - x) dx (x <= y),
                    and the Cameron-Martin-Girsanov density for the drift theta = -sigma/2
                    (X = sigma * (B + theta u));
        G_closed    the textbook survival function of the maximum of drifted Brownian motion
                    N((-b + mu t)/w) + exp(2 mu b / sigma^2) N((-b - mu t)/w),  mu = -sigma^2/2.
      The American binary oracle uses G_girsanov (a quadrature); the lookback oracle is the
      layer-cake integral  E g(Y) = g(0) + int_0^inf g'(b) G(b) db  of the payoff
      g(b) = (max(M0, S e^b) - K)^+  with G = G_closed, and C07 checks G_closed == G_girsanov
      at the same (t, sigma) for several levels b (model-level cross-check), and the lattice model
      (lattice_ref) brackets both without any reflection argument.

All functions take python floats / mpf (exact binary values of the tensors fed to
pfhedge) and return (value, error_estimate) with value an mpf.  The quadrature error
estimate is returned so that the check can refuse an oracle value that is not converged.

Homogeneity: every payoff is positively homogeneous of degree 1 (prices) or 0 (binaries) in
(S, M0, K), so E[payoff] = K * E[payoff with S/K, M0/K, 1]; ``unit`` functions compute the
K = 1 expectation from log-moneyness s = log(S/K), m = log(M0/K); ``*_explicit`` functions
integrate the payoff with S, M0, K as given (used to cross-check the reduction).
"""
from __future__ import annotations

import mpmath as mp

DPS = 30


def _phi(z):
    return mp.exp(-z * z / 2) / mp.sqrt(2 * mp.pi)


def _N(x):
    """Standard normal distribution function, through the complementary error function."""
    return mp.erfc(-x / mp.sqrt(2)) / 2


REACH = (4, 12, 40)


def _panels(center_points, scale, lo=None, hi=None):
    """Break points: every centre of mass / kink of the integrand plus centre +- k*scale for k in REACH,
    clipped to [lo, hi] and closed by the (possibly infinite) interval ends.  Every panel that carries
    mass is thus well scaled with respect to the integrand's own length scale, and beyond the last finite
    break point (40 length scales past every centre) the integrand is below exp(-700)."""
    pts = set()
    for c in center_points:
        pts.add(c)
        for k in REACH:
            pts.add(c + k * scale)
            pts.add(c - k * scale)
    lo_ = -mp.inf if lo is None else lo
    hi_ = mp.inf if hi is None else hi
    inner = sorted(p for p in pts if lo_ < p < hi_)
    return [lo_] + inner + [hi_]


METHOD = "gauss-legendre"


def _quad(f, pts):
    """Composite quadrature over the panels ``pts``.  All mass that is not below exp(-700) lies in
    finite panels (the outermost break points are 40 length scales away from every centre), on
    which the integrands are analytic, so Gauss-Legendre converges geometrically; mpmath doubles
    the degree until two successive results agree to working precision and returns that
    difference as the error estimate.  (C07 additionally recomputes a fixed subset of oracle
    values with tanh-sinh rules, finer panels and 40 digits and requires agreement.)"""
    val, err = mp.quad(f, pts, error=True, method=METHOD)
    return val, err


# ----------------------------------------------------------------------------
# (a) terminal-value law
# ----------------------------------------------------------------------------

def european_explicit(S, K, t, v, call=True):
    """E (S_t - K)^+  or  E (K - S_t)^+ with S_t = S exp(-w^2/2 + w z)."""
    with mp.workdps(DPS):
        S, K, t, v = mp.mpf(S), mp.mpf(K), mp.mpf(t), mp.mpf(v)
        w = v * mp.sqrt(t)
        zk = (mp.log(K / S) + w * w / 2) / w      # S_t = K  <=>  z = zk  (kink of the payoff)

        def ST(z):
            return S * mp.exp(-w * w / 2 + w * z)

        if call:
            f = lambda z: (ST(z) - K) * _phi(z)
            # integrand ~ S*phi(z - w) - K*phi(z): centres of mass at w and 0
            pts = _panels([zk, w, mp.mpf(0)], mp.mpf(1), lo=zk)
        else:
            f = lambda z: (K - ST(z)) * _phi(z)
            pts = _panels([zk, w, mp.mpf(0)], mp.mpf(1), hi=zk)
        return _quad(f, pts)


def european_unit(s, t, v, call=True):
    """K = 1: spot exp(s), strike 1."""
    with mp.workdps(DPS):
        return european_explicit(mp.exp(mp.mpf(s)), 1, t, v, call)


def european_binary_explicit(S, K, t, v, call=True):
    """P(S_t >= K) (call) or P(S_t <= K) (put): the indicator payoff against the normal density."""
    with mp.workdps(DPS):
        S, K, t, v = mp.mpf(S), mp.mpf(K), mp.mpf(t), mp.mpf(v)
        w = v * mp.sqrt(t)
        zk = (mp.log(K / S) + w * w / 2) / w
        if call:
            pts = _panels([zk, mp.mpf(0)], mp.mpf(1), lo=zk)
        else:
            pts = _panels([zk, mp.mpf(0)], mp.mpf(1), hi=zk)
        return _quad(_phi, pts)


def european_binary_unit(s, t, v, call=True):
    with mp.workdps(DPS):
        return european_binary_explicit(mp.exp(mp.mpf(s)), 1, t, v, call)


# ----------------------------------------------------------------------------
# (b) running-maximum law
# ----------------------------------------------------------------------------

def G_girsanov(b, t, v):
    """P(max_{u<=t} X_u >= b), b >= 0, X_u = -v^2 u/2 + v W_u, by quadrature over the terminal
    value of the driftless motion B (X = v (B + theta u), theta = -v/2):

        int exp(theta x - theta^2 t/2) [ 1{x > y} phi_t(x) + 1{x <= y} phi_t(2y - x) ] dx,  y = b / v.
    """
    with mp.workdps(DPS):
        b, t, v = mp.mpf(b), mp.mpf(t), mp.mpf(v)
        if b < 0:
            raise ValueError("level below the starting point")
        if b == 0:
            return mp.mpf(1), mp.mpf(0)
        y = b / v
        th = -v / 2
        rt = mp.sqrt(t)

        def phit(x):
            return _phi(x / rt) / rt

        def dens(x):
            return mp.exp(th * x - th * th * t / 2)

        # completing the square: dens*phi_t(x) is centred at th*t; dens*phi_t(2y-x) at 2y + th*t
        up, e1 = _quad(lambda x: dens(x) * phit(x), _panels([y, th * t], rt, lo=y))
        lo, e2 = _quad(lambda x: dens(x) * phit(2 * y - x), _panels([y, 2 * y + th * t], rt, hi=y))
        return up + lo, e1 + e2


def G_closed(b, t, v):
    """Textbook survival function of the maximum of Brownian motion with drift mu = -v^2/2 and
    volatility v over [0, t] at level b >= 0."""
    b, t, v = mp.mpf(b), mp.mpf(t), mp.mpf(v)
    if b <= 0:
        return mp.mpf(1)
    w = v * mp.sqrt(t)
    mu_t = -v * v * t / 2
    # exp(2 mu b / v^2) = exp(-b)
    return _N((-b + mu_t) / w) + mp.exp(-b) * _N((-b - mu_t) / w)


def american_binary_unit(s, m, t, v):
    """P( max(M0, max_u S_u) >= K ) with log(S/K) = s, log(M0/K) = m >= s."""
    with mp.workdps(DPS):
        s, m = mp.mpf(s), mp.mpf(m)
        if m < s:
            raise ValueError("running maximum below the spot")
        if m >= 0:
            return mp.mpf(1), mp.mpf(0)      # already hit: certain payoff
        return G_girsanov(-s, t, v)            # the spot has to climb b = log(K/S) = -s > 0


def lookback_explicit(S, M0, K, t, v):
    """E ( max(M0, S e^Y) - K )^+  = (M0 - K)^+ + int_{b0}^inf S e^b G(b) db,
    b0 = log(max(M0, K) / S) >= 0   (layer-cake formula; g'(b) = S e^b for b > b0, else 0)."""
    with mp.workdps(DPS):
        S, M0, K, t, v = mp.mpf(S), mp.mpf(M0), mp.mpf(K), mp.mpf(t), mp.mpf(v)
        if M0 < S:
            raise ValueError("running maximum below the spot")
        w = v * mp.sqrt(t)
        b0 = mp.log(max(M0, K) / S)
        locked = max(M0 - K, mp.mpf(0))

        def f(b):
            return S * mp.exp(b) * G_closed(b, t, v)

        # e^b G(b) ~ Gaussian tails in b centred near +-w^2/2 with width w; start panel at b0
        pts = _panels([b0, w * w / 2], w, lo=b0)
        val, err = _quad(f, pts)
        return locked + val, err


def lookback_unit(s, m, t, v):
    with mp.workdps(DPS):
        return lookback_explicit(mp.exp(mp.mpf(s)), mp.exp(mp.mpf(m)), 1, t, v)


def lookback_density_form(S, M0, K, t, v):
    """Same expectation, integrating the payoff against the *density* of Y (minus the numerical
    derivative-free closed density of G_closed) plus the atom-free boundary term; used only as a
    model-level self-check of the layer-cake form on a few points."""
    with mp.workdps(DPS):
        S, M0, K, t, v = mp.mpf(S), mp.mpf(M0), mp.mpf(K), mp.mpf(t), mp.mpf(v)
        w = v * mp.sqrt(t)
        mu_t = -v * v * t / 2

        def dens(b):  # -dG/db
            return (2 / w) * _phi((b - mu_t) / w) + mp.exp(-b) * _N((-b - mu_t) / w)

        def g(b):
            return max(max(M0, S * mp.exp(b)) - K, mp.mpf(0))

        b0 = mp.log(max(M0, K) / S)
        pts = _panels([b0, w * w / 2, mp.mpf(0)], w, lo=mp.mpf(0))
        return _quad(lambda b: g(b) * dens(b), pts)

"""Closed-form Black-Scholes prices with zero rates, in mpmath, written from the textbook
(Hull ch. 15/26; Haug, "Option pricing formulas", fixed-strike lookback of Conze & Viswanathan
in the limit r = b = 0; reflection principle for the one-touch), as functions of the *dimensional*
arguments (S spot, M running maximum, K strike, T time to maturity, sig volatility).

Greeks are NOT written down: they are obtained by numerical differentiation of these prices with
``mpmath.diff`` (which raises the working precision itself), so the only formulas trusted are the
prices; ``validate_*`` re-derive those prices from the defining expectations by quadrature.

    delta = dP/dS   gamma = d2P/dS2   vega = dP/dsig   theta = -dP/dT      (M, K held fixed)
"""
from __future__ import annotations

import mpmath as mp

mp.mp.dps = 30

PRODUCTS = ("european", "european_binary", "american_binary", "lookback")
GREEKS = ("delta", "gamma", "vega", "theta")


def _N(x):
    return mp.ncdf(x)


def _n(x):
    return mp.npdf(x)


def _d1(S, K, T, sig):
    w = sig * mp.sqrt(T)
    return (mp.log(S / K) + w * w / 2) / w


def _d2(S, K, T, sig):
    w = sig * mp.sqrt(T)
    return (mp.log(S / K) - w * w / 2) / w


def european(S, K, T, sig, call=True):
    """C = S N(d1) - K N(d2);  P = K N(-d2) - S N(-d1)   (Hull 15.20/15.21 with r = 0)."""
    d1, d2 = _d1(S, K, T, sig), _d2(S, K, T, sig)
    if call:
        return S * _N(d1) - K * _N(d2)
    return K * _N(-d2) - S * _N(-d1)


def european_binary(S, K, T, sig, call=True):
    """Cash-or-nothing paying 1: call N(d2), put N(-d2)."""
    d2 = _d2(S, K, T, sig)
    return _N(d2) if call else _N(-d2)


def hit_probability(S, B, T, sig):
    """P(max_{[0,T]} S_u >= B) for a driftless (martingale) geometric Brownian motion started
    at S < B: the log has drift mu = -sig^2/2; reflection principle
        P = N((-b + mu T)/w) + exp(2 mu b / sig^2) N((-b - mu T)/w),  b = log(B/S), w = sig sqrt(T).
    """
    if S >= B:
        return mp.mpf(1)
    w = sig * mp.sqrt(T)
    b = mp.log(B / S)
    mu = -sig * sig / 2
    return _N((-b + mu * T) / w) + mp.exp(2 * mu * b / (sig * sig)) * _N((-b - mu * T) / w)


def american_binary(S, M, K, T, sig):
    """One-touch (up) paying 1 at maturity if the maximum, including the running maximum M so
    far, reaches K.  Already hit (M >= K): 1.  Otherwise the hit probability of S."""
    if M >= K:
        return mp.mpf(1)
    # as a formula in S (analytic in S, also used for the one-sided derivative at S = M)
    w = sig * mp.sqrt(T)
    b = mp.log(K / S)
    mu = -sig * sig / 2
    return _N((-b + mu * T) / w) + mp.exp(2 * mu * b / (sig * sig)) * _N((-b - mu * T) / w)


def lookback(S, M, K, T, sig):
    """Fixed-strike lookback call, payoff max(max(M, max_u S_u) - K, 0), r = b = 0.

    Haug 4.15.2 in the limit b -> 0 (the term (sig^2/2b)(...) tends to
    S w (n(d) + d N(d)) ):
        K >= M:  S N(d1) - K N(d2) + S w [ n(d1) + d1 N(d1) ],          d's with strike K
        K <  M:  (M - K) + S N(e1) - M N(e2) + S w [ n(e1) + e1 N(e1) ],  e's with strike M
    """
    w = sig * mp.sqrt(T)
    if K >= M:
        d1 = _d1(S, K, T, sig)
        d2 = d1 - w
        return S * _N(d1) - K * _N(d2) + S * w * (_n(d1) + d1 * _N(d1))
    e1 = _d1(S, M, T, sig)
    e2 = e1 - w
    return (M - K) + S * _N(e1) - M * _N(e2) + S * w * (_n(e1) + e1 * _N(e1))


def lookback_time_value(S, M, K, T, sig):
    """lookback(S, M, K, T, sig) - max(M - K, 0): the part of the price that depends on the volatility,
    written without the cancellation against the intrinsic value (for K < M every term below is small
    when the volatility is small, so its relative precision survives in mpmath)."""
    S, M, K, T, sig = map(mp.mpf, (S, M, K, T, sig))
    if K >= M:
        return lookback(S, M, K, T, sig)
    w = sig * mp.sqrt(T)
    e1 = _d1(S, M, T, sig)
    e2 = e1 - w
    # S N(e1) - M N(e2) + S w (n(e1) + e1 N(e1)) with M N(e2) = M - M N(-e2): the constant M - K is dropped
    # and  S N(e1) - M N(e2)  is evaluated as it stands (both small for S < M, no cancellation with O(1) terms)
    return S * _N(e1) - M * _N(e2) + S * w * (_n(e1) + e1 * _N(e1))


def price(product, S, M, K, T, sig, call=True):
    S, K, T, sig = mp.mpf(S), mp.mpf(K), mp.mpf(T), mp.mpf(sig)
    if product == "european":
        return european(S, K, T, sig, call)
    if product == "european_binary":
        return european_binary(S, K, T, sig, call)
    M = mp.mpf(M)
    if product == "american_binary":
        return american_binary(S, M, K, T, sig)
    if product == "lookback":
        return lookback(S, M, K, T, sig)
    raise KeyError(product)


def greek(name, product, S, M, K, T, sig, call=True):
    """Derivative of price() by mpmath.diff (central differences at raised precision)."""
    S, K, T, sig = mp.mpf(S), mp.mpf(K), mp.mpf(T), mp.mpf(sig)
    if name == "delta":
        return mp.diff(lambda x: price(product, x, M, K, T, sig, call), S)
    if name == "gamma":
        return mp.diff(lambda x: price(product, x, M, K, T, sig, call), S, 2)
    if name == "vega":
        return mp.diff(lambda x: price(product, S, M, K, T, x, call), sig)
    if name == "theta":
        return -mp.diff(lambda x: price(product, S, M, K, x, sig, call), T)
    raise KeyError(name)


def price_and_greeks(product, S, M, K, T, sig, call=True):
    out = {"price": price(product, S, M, K, T, sig, call)}
    for g in GREEKS:
        out[g] = greek(g, product, S, M, K, T, sig, call)
    return out


# ----------------------------------------------------------------------------
# validation of the closed forms against the defining expectations (quadrature)
# ----------------------------------------------------------------------------

def _lognormal_expectation(payoff, S, T, sig, breaks):
    """E[payoff(S_T)], S_T = S exp(-w^2/2 + w Z)."""
    w = sig * mp.sqrt(T)

    def integrand(z):
        return payoff(S * mp.exp(-w * w / 2 + w * z)) * mp.npdf(z)

    pts = sorted(set([-mp.mpf(40)] + [b for b in breaks if -40 < b < 40] + [mp.mpf(40)]))
    return mp.quad(integrand, pts)


def validate_european(S, K, T, sig, call=True):
    S, K, T, sig = map(mp.mpf, (S, K, T, sig))
    w = sig * mp.sqrt(T)
    zk = (mp.log(K / S) + w * w / 2) / w
    pay = (lambda x: max(x - K, 0)) if call else (lambda x: max(K - x, 0))
    return _lognormal_expectation(pay, S, T, sig, [zk]), european(S, K, T, sig, call)


def validate_european_binary(S, K, T, sig, call=True):
    S, K, T, sig = map(mp.mpf, (S, K, T, sig))
    w = sig * mp.sqrt(T)
    zk = (mp.log(K / S) + w * w / 2) / w
    pay = (lambda x: mp.mpf(1) if x >= K else mp.mpf(0)) if call else (lambda x: mp.mpf(1) if x < K else mp.mpf(0))
    return _lognormal_expectation(pay, S, T, sig, [zk]), european_binary(S, K, T, sig, call)


def validate_lookback(S, M, K, T, sig):
    """E[(max(M, Y) - K)^+] = (M - K)^+ + int_{max(M,K)}^inf P(Y >= y) dy,  Y = max_u S_u."""
    S, M, K, T, sig = map(mp.mpf, (S, M, K, T, sig))
    lo = max(M, K)
    tail = mp.quad(lambda y: hit_probability(S, y, T, sig), [lo, lo * 2, lo * 8, lo * 64, mp.inf])
    return max(M - K, 0) + tail, lookback(S, M, K, T, sig)

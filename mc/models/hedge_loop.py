"""Reference automaton of the hedge loop (C03).

The documented contract of ``Hedger.compute_hedge`` as a transition system whose state is
``prev_output`` (the value the ``prev_hedge`` feature returns):

    s_0      = zeros of shape (N, 1, H)            one entry per hedging instrument
    in_i     = concat(features(i), s_i)            state-independent features first, in the
                                                   order they were given, prev_hedge last
    out_i    = model(in_i)            for i = 0 .. T-2   (exactly T-1 model calls)
    s_{i+1}  = out_i
    hedge    = [out_0, ..., out_{T-2}, out_{T-2}]  as (N, H, T): the last column repeats the
                                                   position held over the last step

A hedger without a state-dependent input has the same semantics with in_i = features(i),
however the implementation chooses to evaluate it (all steps at once).

``features(i)`` is supplied by the caller as a function of the step.  The automaton never
looks at pfhedge objects; the model is called as a plain function.
"""
from __future__ import annotations

import torch


class HedgeLoop:
    def __init__(self, n_paths, n_hedges, n_steps, dtype, with_state=True):
        self.N, self.H, self.T = n_paths, n_hedges, n_steps
        self.dtype = dtype
        self.with_state = with_state
        self.state = torch.zeros((n_paths, 1, n_hedges), dtype=dtype)
        self.i = 0
        self.outputs = []
        self.states = [self.state]

    def done(self):
        return self.i >= self.T - 1

    def expected_input(self, parts):
        """parts: the model input of step i in column order - a list whose items are tensors
        (N, 1, k) (state-independent features), ``None`` (the prev_hedge slot: the state itself) or
        callables state -> tensor (a module output computed from prev_hedge)."""
        return torch.cat(self.fill(parts), dim=-1)

    def fill(self, parts):
        if isinstance(parts, torch.Tensor):
            parts = [parts] + ([None] if self.with_state else [])
        cols = []
        for p in parts:
            if p is None:
                assert self.with_state
                cols.append(self.state)
            elif callable(p):
                cols.append(p(self.state))
            else:
                cols.append(p)
        return cols

    def step(self, out_i):
        """The model answered ``out_i`` (N, 1, H) at step i."""
        assert not self.done(), "the loop makes exactly T-1 model calls"
        assert tuple(out_i.shape) == (self.N, 1, self.H), tuple(out_i.shape)
        self.outputs.append(out_i)
        self.state = out_i
        self.states.append(out_i)
        self.i += 1

    def hedge(self):
        assert self.done()
        cols = self.outputs + [self.outputs[-1]]
        return torch.cat(cols, dim=-2).transpose(-1, -2)  # (N, H, T)


def run(model_fn, features_at, n_paths, n_hedges, n_steps, dtype, with_state=True):
    """Run the automaton with ``model_fn`` as the model.  Returns (hedge (N,H,T), automaton)."""
    a = HedgeLoop(n_paths, n_hedges, n_steps, dtype, with_state)
    while not a.done():
        a.step(model_fn(a.expected_input(features_at(a.i))))
    return a.hedge(), a


def same(x, y, rtol=0.0, atol=0.0):
    """Equality with NaN == NaN; bitwise when both tolerances are 0."""
    if tuple(x.shape) != tuple(y.shape) or x.dtype != y.dtype:
        return False
    if rtol == 0.0 and atol == 0.0:
        return bool(((x == y) | (x.isnan() & y.isnan())).all())
    ok = ((x - y).abs() <= atol + rtol * y.abs()) | (x.isnan() & y.isnan()) | (x == y)
    return bool(ok.all())


def conform(trace, features_at, n_paths, n_hedges, n_steps, dtype, final_state=None, exact_part=None,
            rtol=0.0, atol=0.0):
    """Replay a recorded trace [(input_i, output_i)] of a *state-dependent* hedger against
    the automaton.  ``features_at(i)`` gives the parts of the expected input (see
    HedgeLoop.expected_input).  The prev_hedge slot is compared bitwise; feature parts bitwise
    unless ``exact_part[k]`` is False (then within rtol/atol) or None (not compared).
    Returns a list of (step, what, observed, expected) discrepancies."""
    bad = []
    a = HedgeLoop(n_paths, n_hedges, n_steps, dtype, True)
    if len(trace) != n_steps - 1:
        bad.append((len(trace), "n_model_calls", len(trace), n_steps - 1))
    for i, (xin, out) in enumerate(trace):
        if a.done():
            break
        parts = features_at(i)
        cols = a.fill(parts)
        exp = torch.cat(cols, dim=-1)
        if tuple(xin.shape) != tuple(exp.shape) or xin.dtype != exp.dtype:
            what = "zero_state_shape" if i == 0 else "input_shape"
            bad.append((i, what, [list(xin.shape), str(xin.dtype)], [list(exp.shape), str(exp.dtype)]))
            return bad
        c0 = 0
        for k, (p, col) in enumerate(zip(parts, cols)):
            c1 = c0 + col.size(-1)
            got = xin[..., c0:c1]
            if p is None:
                ok = same(got, col)
                what = "zero_state_value" if i == 0 else "prev_hedge_not_last_output"
            elif callable(p):
                ok = same(got, col, rtol, atol)
                what = "module_over_prev_hedge"
            else:
                ex = True if exact_part is None else exact_part[k]
                if ex is None:     # uninitialised memory (the 'empty' feature): never compared
                    c0 = c1
                    continue
                ok = same(got, col) if ex else same(got, col, rtol, atol)
                what = "feature_columns"
            if not ok:
                neq = (got != col) & ~(got.isnan() & col.isnan())
                r = int(neq.flatten(1).any(1).nonzero()[0])
                bad.append((i, what, {"row": r, "columns": [c0, c1], "seen_by_model": got[r, 0].tolist()},
                            col[r, 0].tolist()))
            c0 = c1
        if tuple(out.shape) != (n_paths, 1, n_hedges):
            bad.append((i, "output_shape", list(out.shape), [n_paths, 1, n_hedges]))
            return bad
        a.step(out)
    if final_state is not None and a.outputs:
        if not same(final_state, a.state):
            bad.append((len(trace), "final_state_not_last_output", list(final_state.shape), list(a.state.shape)))
    return bad

"""Reference model for C13: the number of time points of a simulation of horizon M with step dt,
and the time to maturity on that grid - in exact rational arithmetic on the float arguments.

The property: T = ceil(M/dt) + 1 points; when M/dt is within rounding distance of an integer k,
k + 1 points.  "Within rounding distance": the caller wrote M as k*dt, k/den or a decimal literal;
each of these is the real number k*dt rounded once or twice (relative error <= 2^-53 each), and dt
itself is a rounded 1/den, so the exact quotient q = Fraction(M)/Fraction(dt) of the two floats
satisfies |q - k| <= ~1.5 * 2^-52 * k.  We accept 4 * 2^-52 * k as "the integer k".  A quotient further
than that but closer than 1e-6 to an integer is in the zone the property leaves undefined; the
enumerations never produce one (asserted by the check).
"""
from __future__ import annotations

import math
from fractions import Fraction

EPS = Fraction(1, 2 ** 52)


def quotient(M, dt):
    return Fraction(M) / Fraction(dt)


def expected_points(M, dt):
    """(T, kind, k): kind 'integer' (q is the integer k up to rounding), 'noninteger', or
    'undefined' (T None)."""
    q = quotient(M, dt)
    if q == 0:
        return 1, "integer", 0      # maturity exactly 0: ceil(0) + 1 = 1 point (the initial state)
    k = math.floor(q + Fraction(1, 2))
    if k >= 1 and abs(q - k) <= 4 * EPS * k:
        return k + 1, "integer", k
    if abs(q - k) < Fraction(1, 10 ** 6):
        return None, "undefined", k
    return math.ceil(q) + 1, "noninteger", k


def classify_steps(M, dt, observed_T):
    """Class of a wrong number of points, computed from the failing input."""
    T, kind, k = expected_points(M, dt)
    diff = observed_T - T
    if kind == "integer":
        q = quotient(M, dt)
        fq = M / dt  # the correctly rounded float quotient
        if diff == 1 and fq > k and abs(q - k) <= 2 * EPS * k:
            # float(M/dt) lands just above the integer k although M/dt is k up to 2 ulp, and the
            # implementation took the ceiling of it.  Finding #7 is the documented expression
            # ceil(M/dt + 1): the addition of 1 sometimes rounds the excess away again, so the
            # signature of #7 is "fl(fl(M/dt) + 1) is still above k + 1"; an implementation that has
            # the extra point although the addition absorbs the excess fails differently.
            if math.ceil(fq + 1) == k + 2:
                return "extra_step_float_quotient_above_integer"
            return "extra_step_quotient_excess_absorbed_by_plus_one"
        if diff == -1 and fq < k and abs(q - k) <= 2 * EPS * k:
            return "missing_step_float_quotient_below_integer"
    return f"points_off_by_{diff:+d}_{kind}"


def time_to_maturity(T, i, dt):
    """Exact (T-1-i)*dt for a step index in [-T, T)."""
    j = i % T
    return (T - 1 - j) * Fraction(dt)

"""Reference model for pfhedge.autogreek on enumerated pricer programs (C08 part ii).

A *program* is an expression tree over abstract leaves

    X  the spot-like argument      (named spot | moneyness | log_moneyness by the pricer)
    V  the volatility-like argument (named volatility | variance)
    T  time_to_maturity
    K  strike (only when the caller passes one)
    C  the constant 2

with unary nodes exp, log, sqrt, square, neg and binary nodes add, mul, div.  A tree is written
as nested tuples: ("X",), ("C",), ("exp", a), ("add", a, b).  Sub-trees made of constants only
are not generated (they are just other constants).

The model differentiates the *abstract* function P(x, y, T, K) with sympy (P_x, P_xx, P_y, P_T)
and applies the re-parameterisation chain rule itself:

    x = S            x' = 1      x'' = 0           (pricer names its argument `spot`)
    x = S/K          x' = 1/K    x'' = 0           (`moneyness`)
    x = log(S/K)     x' = 1/S    x'' = -1/S^2      (`log_moneyness`)
    y = sigma        y' = 1                          (`volatility`)
    y = sigma^2      y' = 2 sigma                    (`variance`)

    delta = P_x x'     gamma = P_xx x'^2 + P_x x''     vega = P_y y'     theta = -P_T

Everything is evaluated in mpmath (30 digits).  Next to each derivative the model evaluates a
*magnitude*: the derivative propagated through the tree by the differentiation rules with every
sum replaced by the sum of absolute values (``jet``), the standard running bound for the rounding
error of any floating-point evaluation of that tree: tolerance = c*eps*magnitude.  The signed
version of the same propagation must reproduce the sympy derivative (model self-check).
"""
from __future__ import annotations

import itertools

import mpmath as mp
import sympy as sp

mp.mp.dps = 30

UNARY = ("exp", "log", "sqrt", "square", "neg")
BINARY = ("add", "mul", "div")
COMMUTATIVE = ("add", "mul")
XNAMES = ("spot", "moneyness", "log_moneyness")
VNAMES = ("volatility", "variance")

# no assumptions on the symbols: with real symbols sympy rewrites sqrt(x**2) as Abs(x), whose second
# derivative is a DiracDelta; the formal derivatives are what the chain rule needs on the smooth domain
_x, _y, _T, _K = sp.symbols("x y T K")
SYMS = (_x, _y, _T, _K)


# ----------------------------------------------------------------------------
# enumeration
# ----------------------------------------------------------------------------

def is_const(tree):
    if tree[0] == "C":
        return True
    if tree[0] in ("X", "V", "T", "K"):
        return False
    return all(is_const(a) for a in tree[1:])


def depth(tree):
    return 0 if len(tree) == 1 else 1 + max(depth(a) for a in tree[1:])


def leaves_used(tree):
    if len(tree) == 1:
        return {tree[0]}
    out = set()
    for a in tree[1:]:
        out |= leaves_used(a)
    return out


def programs(max_depth, leaves=("X", "V", "T", "C")):
    """All programs of depth <= max_depth over the leaf set, each exactly once; commutative
    nodes are generated with ordered operands only (a <= b in generation order), which removes
    mirror images and nothing else.  Programs without a parameter leaf are excluded, and so are
    unary nodes over constant-only sub-trees."""
    by_depth = {0: [(l,) for l in leaves]}
    for d in range(1, max_depth + 1):
        lower = [p for k in range(d) for p in by_depth[k]]
        prev = by_depth[d - 1]
        index = {p: i for i, p in enumerate(lower)}
        new = []
        for op in UNARY:
            for a in prev:
                if not is_const(a):
                    new.append((op, a))
        for op in BINARY:
            for a in lower:
                for b in lower:
                    if depth(a) != d - 1 and depth(b) != d - 1:
                        continue
                    if is_const(a) and is_const(b):
                        continue
                    if op in COMMUTATIVE and index[a] > index[b]:
                        continue
                    new.append((op, a, b))
        by_depth[d] = new
    out = []
    for d in range(max_depth + 1):
        out += [p for p in by_depth[d] if not is_const(p)]
    return out


# ----------------------------------------------------------------------------
# compilation to a python pricer (the program under test) and to sympy (the model)
# ----------------------------------------------------------------------------

def source(tree, xname, vname):
    k = tree[0]
    if k == "X":
        return xname
    if k == "V":
        return vname
    if k == "T":
        return "time_to_maturity"
    if k == "K":
        return "strike"
    if k == "C":
        return "2.0"
    if k in UNARY:
        a = source(tree[1], xname, vname)
        return {"exp": f"torch.exp({a})", "log": f"torch.log({a})", "sqrt": f"torch.sqrt({a})",
                "square": f"torch.square({a})", "neg": f"(-{a})"}[k]
    a, b = source(tree[1], xname, vname), source(tree[2], xname, vname)
    return {"add": f"({a} + {b})", "mul": f"({a} * {b})", "div": f"({a} / {b})"}[k]


def param_names(tree, xname, vname):
    used = leaves_used(tree)
    names = []
    if "X" in used:
        names.append(xname)
    if "V" in used:
        names.append(vname)
    if "T" in used:
        names.append("time_to_maturity")
    if "K" in used:
        names.append("strike")
    return names


def pricer_source(tree, xname, vname, style="def", defaults=None):
    """Source of the pricer.  ``style``: "def" (a function called ``pricer``, what a user writes) or
    "lambda"; ``defaults``: {argument name: python number} gives those arguments default values."""
    defaults = defaults or {}
    params = [n if n not in defaults else f"{n}={defaults[n]!r}" for n in param_names(tree, xname, vname)]
    body = source(tree, xname, vname)
    if style == "lambda":
        return f"pricer = lambda {', '.join(params)}: {body}\n"
    return f"def pricer({', '.join(params)}):\n    return {body}\n"


#: every compiled pricer lives in a module of this name and is called ``pricer`` (or is a lambda): like the
#: functions a user writes in one script, they all share (__module__, __qualname__) while their signatures differ
USER_MODULE = "user_pricers"


def compile_pricer(tree, xname, vname, style="def", defaults=None):
    import torch
    ns = {"torch": torch, "__name__": USER_MODULE}
    exec(pricer_source(tree, xname, vname, style, defaults), ns)
    return ns["pricer"]


def to_sympy(tree):
    k = tree[0]
    if k == "X":
        return _x
    if k == "V":
        return _y
    if k == "T":
        return _T
    if k == "K":
        return _K
    if k == "C":
        return sp.Integer(2)
    if k in UNARY:
        a = to_sympy(tree[1])
        return {"exp": sp.exp(a), "log": sp.log(a), "sqrt": sp.sqrt(a), "square": a ** 2, "neg": -a}[k]
    a, b = to_sympy(tree[1]), to_sympy(tree[2])
    return {"add": a + b, "mul": a * b, "div": a / b}[k]


def reparam_spot(xname, S, K):
    """(x, dx/dS, d2x/dS2) of the pricer's spot-like argument as a function of the spot S."""
    S = mp.mpf(S)
    if xname in (None, "spot"):
        return S, mp.mpf(1), mp.mpf(0)
    K = mp.mpf(K)
    if xname == "moneyness":
        return S / K, 1 / K, mp.mpf(0)
    if xname == "log_moneyness":
        return mp.log(S / K), 1 / S, -1 / (S * S)
    raise KeyError(xname)


def reparam_vol(vname, sigma):
    """(y, dy/dsigma) of the pricer's volatility-like argument as a function of the volatility."""
    sigma = mp.mpf(sigma)
    if vname in (None, "volatility"):
        return sigma, mp.mpf(1)
    if vname == "variance":
        return sigma * sigma, 2 * sigma
    raise KeyError(vname)


def _selfcheck(sym_value, jet_value, mag, tree):
    if abs(sym_value - jet_value) > mp.mpf(10) ** -22 * (mag + abs(sym_value)) + mp.mpf(10) ** -300:
        raise AssertionError(f"expr_ref: sympy derivative {sym_value} != propagated derivative {jet_value} for {tree}")


def jet(tree, wrt, x, y, T, K):
    """(u, u', u'', m', m'') at the point: value, first and second derivative of the tree w.r.t. the
    leaf ``wrt`` by the differentiation rules, and their magnitudes (same rules, every sum replaced
    by a sum of absolute values).  None outside the smooth domain (log/sqrt of a non-positive
    number, division by zero)."""
    k = tree[0]
    zero = mp.mpf(0)
    if len(tree) == 1:
        u = {"X": x, "V": y, "T": T, "K": K, "C": mp.mpf(2)}[k]
        d = mp.mpf(1) if k == wrt else zero
        return u, d, zero, d, zero
    ja = jet(tree[1], wrt, x, y, T, K)
    if ja is None:
        return None
    a, a1, a2, p1, p2 = ja
    if k == "neg":
        return -a, -a1, -a2, p1, p2
    if k == "exp":
        e = mp.exp(a)
        return e, e * a1, e * (a1 * a1 + a2), e * p1, e * (p1 * p1 + p2)
    if k == "log":
        if a <= 0:
            return None
        return mp.log(a), a1 / a, a2 / a - a1 * a1 / (a * a), p1 / a, p2 / a + p1 * p1 / (a * a)
    if k == "sqrt":
        if a <= 0:
            return None
        r = mp.sqrt(a)
        return r, a1 / (2 * r), a2 / (2 * r) - a1 * a1 / (4 * r * a), p1 / (2 * r), p2 / (2 * r) + p1 * p1 / (4 * r * a)
    if k == "square":
        return (a * a, 2 * a * a1, 2 * a1 * a1 + 2 * a * a2, 2 * abs(a) * p1, 2 * p1 * p1 + 2 * abs(a) * p2)
    jb = jet(tree[2], wrt, x, y, T, K)
    if jb is None:
        return None
    b, b1, b2, q1, q2 = jb
    if k == "add":
        return a + b, a1 + b1, a2 + b2, p1 + q1, p2 + q2
    A, Bm = abs(a), abs(b)
    if k == "mul":
        return (a * b, a1 * b + a * b1, a2 * b + 2 * a1 * b1 + a * b2,
                p1 * Bm + A * q1, p2 * Bm + 2 * p1 * q1 + A * q2)
    if k == "div":
        if b == 0:
            return None
        return (a / b, a1 / b - a * b1 / (b * b),
                a2 / b - 2 * a1 * b1 / (b * b) - a * b2 / (b * b) + 2 * a * b1 * b1 / (b * b * b),
                p1 / Bm + A * q1 / (b * b),
                p2 / Bm + 2 * p1 * q1 / (b * b) + A * q2 / (b * b) + 2 * A * q1 * q1 / (Bm * b * b))
    raise KeyError(k)


class Model:
    """Derivatives of one abstract program, lambdified for mpmath."""

    def __init__(self, tree):
        self.tree = tree
        P = to_sympy(tree)
        self.P = P
        d = {"P_x": sp.diff(P, _x), "P_xx": sp.diff(P, _x, 2), "P_y": sp.diff(P, _y), "P_T": sp.diff(P, _T)}
        self.sym = d
        # identically-zero derivatives decide the "degenerate" programs (finding 12)
        self.zero = {k: sp.simplify(v) == 0 for k, v in d.items()}
        self.fn = {k: sp.lambdify(SYMS, v, "mpmath") for k, v in d.items()}
        self.used = leaves_used(tree)
        self._cache = {}

    # -- smooth open domain ------------------------------------------------
    def in_domain(self, x, y, T, K):
        return _domain(self.tree, x, y, T, K) is not None

    def _derivs(self, wrt, x, y, T, Kv):
        """(d1, d2, m1, m2) w.r.t. the abstract leaf: sympy values and jet magnitudes; cached on the
        arguments the tree actually uses."""
        key = (wrt, x if "X" in self.used else None, y if "V" in self.used else None,
               T if "T" in self.used else None, Kv if "K" in self.used else None)
        r = self._cache.get(key, 0)
        if r == 0:
            j = jet(self.tree, wrt, x, y, T, Kv)
            if j is None:
                r = None
            else:
                a = (x, y, T, Kv)
                k1 = {"X": "P_x", "V": "P_y", "T": "P_T"}[wrt]
                d1 = self.fn[k1](*a)
                _selfcheck(d1, j[1], j[3], self.tree)
                d2 = None
                if wrt == "X":
                    d2 = self.fn["P_xx"](*a)
                    _selfcheck(d2, j[2], j[4], self.tree)
                r = (d1, d2, j[3], j[4])
            self._cache[key] = r
        return r

    def greek(self, name, xarg, yarg, T, K):
        """(value, magnitude) of the Greek; None outside the smooth domain.
        xarg = (x, dx/dS, d2x/dS2) and yarg = (y, dy/dsigma) as given by reparam_spot / reparam_vol
        (the chain rule of the re-parameterisation is applied here)."""
        x, x1, x2 = xarg
        y, y1 = yarg
        Kv = K if K is not None else mp.mpf(1)
        if name in ("delta", "gamma"):
            r = self._derivs("X", x, y, T, Kv)
            if r is None:
                return None
            px, pxx, m1, m2 = r
            if name == "delta":
                return px * x1, m1 * abs(x1)
            return pxx * x1 * x1 + px * x2, m2 * x1 * x1 + m1 * abs(x2)
        wrt, chain = ("V", y1) if name == "vega" else ("T", mp.mpf(-1))
        r = self._derivs(wrt, x, y, T, Kv)
        if r is None:
            return None
        return r[0] * chain, r[2] * abs(chain)

    def identically_zero(self, name, xname=None):
        """Is the Greek the zero function (then autograd has nothing to differentiate)?"""
        if name == "delta":
            return self.zero["P_x"]
        if name == "gamma":
            if xname == "log_moneyness":      # (P_xx - P_x)/S^2
                return sp.simplify(self.sym["P_xx"] - self.sym["P_x"]) == 0
            return self.zero["P_xx"]
        if name == "vega":
            return self.zero["P_y"]
        if name == "theta":
            return self.zero["P_T"]
        raise KeyError(name)


def _domain(tree, x, y, T, K):
    """Value of the tree at the point if every log/sqrt argument is > 0 and every denominator
    is non-zero (the smooth open domain), else None."""
    k = tree[0]
    if k == "X":
        return x
    if k == "V":
        return y
    if k == "T":
        return T
    if k == "K":
        return K
    if k == "C":
        return mp.mpf(2)
    a = _domain(tree[1], x, y, T, K)
    if a is None:
        return None
    if k == "exp":
        return mp.exp(a)
    if k == "log":
        return mp.log(a) if a > 0 else None
    if k == "sqrt":
        return mp.sqrt(a) if a > 0 else None
    if k == "square":
        return a * a
    if k == "neg":
        return -a
    b = _domain(tree[2], x, y, T, K)
    if b is None:
        return None
    if k == "add":
        return a + b
    if k == "mul":
        return a * b
    if k == "div":
        return a / b if b != 0 else None
    raise KeyError(k)


# ----------------------------------------------------------------------------
# which caller/pricer name pairs are accepted (the documented re-parameterisation table)
# ----------------------------------------------------------------------------

SPOT_FORMS = ("spot", "moneyness+strike", "log_moneyness+strike", "spot+strike")
INSUFFICIENT_FORMS = ("moneyness", "log_moneyness")   # no strike: ValueError("Insufficient ...")


def caller_names(form):
    return form.split("+")


def accepted(greek, tree, xname, vname, spot_form, vol_form):
    """Does the documented contract make this call well-formed?  Returns
    "ok" | "TypeError" (the pricer does not receive an argument it needs) |
    "ValueError" (the caller's parameters do not determine the differentiated quantity)."""
    used = leaves_used(tree)
    given = caller_names(spot_form)
    has_strike = "strike" in given
    if greek in ("delta", "gamma"):
        if spot_form in INSUFFICIENT_FORMS:
            return "ValueError"
        # spot is always re-derived; moneyness and log_moneyness only with a strike
        derived = {"spot"} | ({"moneyness", "log_moneyness"} if has_strike else set())
        if "X" in used and xname not in derived:
            return "TypeError"
        if "V" in used and vname != vol_form:
            return "TypeError"
    elif greek == "vega":
        if "X" in used and xname not in given:
            return "TypeError"
        # volatility <-> variance always re-derived
    elif greek == "theta":
        if "X" in used and xname not in given:
            return "TypeError"
        if "V" in used and vname != vol_form:
            return "TypeError"
    if "K" in used and not has_strike:
        return "TypeError"
    return "ok"

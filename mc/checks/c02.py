"""C02 - hedges are non-anticipative and never trade at maturity.  Engine: tree.

The scripted market carries ALL |A|^T price paths (for Heston / rough-Bergomi / local-vol
underliers: all joint (spot, variance|volatility) paths), in explore.all_paths order.  That
path set *is* the filtration tree: nodes = path prefixes, leaves = paths.  Adaptedness in
its literal form: for every node at depth t, all leaves below it agree on everything the
code produces for steps 0..t.

Families
  feature_tree  every built-in feature x derivative x underlier: ``get(None)`` column t and
                ``get(t)`` are constant on the leaves below every depth-t node (bitwise);
                they equal the documented function of the prefix (feature_ref, python loop
                over the prefix only); and the values on a path do not change when other
                paths are removed from the batch (no cross-path coupling).
  hedge_tree    ``Hedger.compute_hedge`` for models {dyadic Linear, small MLP, user module,
                BlackScholes, WhalleyWilmott, Naked} in both evaluation modes (vectorised;
                stepwise, forced by an ignored prev_hedge input): hedge[:, :, t] constant
                below every depth-t node; hedge[..., -1] == hedge[..., -2] on every leaf;
                no cross-path coupling.  Every configuration with autograd OFF (the mode of price())
                and, for trainable models (and a sample of the others), with autograd ON and
                parameters requiring grad (the mode of fit()/compute_loss()); with a positive
                transaction cost, compute_pl / compute_portfolio / compute_loss (scripted simulate)
                must equal pl() of the position HELD over the last step (no cost at maturity).
                Models that return a view of their input (Identity, a slicing module) on
                single-feature input lists are included.  Applicability of feature / model x derivative
                is decided dynamically (whatever evaluates is in scope).
  hedge_reuse   ONE Hedger object on trees A, B, A, A of the same shape: the same oracles on every call
                and equality with a fresh hedger (no dependence on a previous evaluation).
"""
from __future__ import annotations

import itertools
import os

import torch

from mc.core import market
from mc.core.explore import all_paths, check_prefix_measurable
from mc.models import feature_ref
from mc.models import hedge_world as hw

FAMILIES = {}
family = hw.family_decorator(FAMILIES)
#: optional diagnostic outside the claim (default OFF): worlds on user subclasses of the primaries that override
#: library properties (volatility / variance); see hedge_world.USER_SUBCLASS_WORLDS
USER_SUBCLASS_WORLDS = os.environ.get("VERIF_USER_SUBCLASS") == "1"


# Exact (dyadic) features and models are compared bitwise; anything that goes through a logarithm,
# a Black-Scholes kernel or a matrix product over non-dyadic numbers within hw.tol(dtype)
# (atol = rtol; derivation there; 1e-12 in float64 as in DESIGN 4/C02).


# ----------------------------------------------------------------------------
# tree helpers
# ----------------------------------------------------------------------------

def prefix_pairs(x, orig, n_sym, T, rtol=0.0, atol=0.0, cols=None):
    """x (N, T, ...) on rows ``orig`` (ascending indices into the all_paths enumeration).
    For every depth t compare each row with the first row of its depth-t node (rows sharing
    path columns 0..t).  Returns [(t, row_first, row_other)] (positions in x), one per t."""
    N = x.size(0)
    bad = []
    ar = torch.arange(N)
    for t in (range(T) if cols is None else cols):
        g = n_sym ** (T - 1 - t)
        ids = orig // g
        new = torch.ones(N, dtype=torch.bool)
        new[1:] = ids[1:] != ids[:-1]
        first = torch.where(new, ar, torch.zeros_like(ar)).cummax(0).values
        col = x[:, t].reshape(N, -1)
        ref = col[first]
        both_nan = col.isnan() & ref.isnan()
        if rtol == 0.0 and atol == 0.0:
            viol = (col != ref) & ~both_nan
        else:
            viol = (((col - ref).abs() > atol + rtol * ref.abs()) & ~both_nan) | (col.isnan() ^ ref.isnan())
        viol = viol.any(-1)
        if viol.any():
            r = int(viol.nonzero()[0])
            bad.append((t, int(first[r]), r))
    return bad


def node_counts(orig, n_sym, T):
    """(nodes, edges) of the prefix tree spanned by the rows."""
    nodes = 0
    per_depth = []
    for t in range(T):
        g = n_sym ** (T - 1 - t)
        k = int(torch.unique(orig // g).numel())
        per_depth.append(k)
        nodes += k
    return nodes, nodes - per_depth[0]


def lookahead_nodes(full, orig, n_sym, T, last=None):
    """Number of nodes (depth t < last) below which some leaf carries a *later* value (steps
    t+1..last, default last = T-1) different from the value at t: there, an implementation that
    peeks would be caught."""
    N = full.size(0)
    x = full.reshape(N, T, -1)
    last = T - 1 if last is None else last
    count = 0
    for t in range(last):
        later = x[:, t + 1: last + 1]
        changes = ((later != x[:, t: t + 1]) & ~(later.isnan() & x[:, t: t + 1].isnan())).flatten(1).any(1)
        g = n_sym ** (T - 1 - t)
        ids = orig // g
        count += int(torch.unique(ids[changes]).numel())
    return count


def sub_rows(w, orig):
    """Rows (as original indices) whose path uses only the first two spot symbols: removing
    the other paths changes every batch-level statistic (max, min, mean) of the market."""
    two = w["ul"] in hw.TWO_FACTOR and w.get("Av")
    nv = len(w["Av"]) if two else 1
    n = len(w["As"]) * nv
    idx = all_paths(list(range(n)), w["T"]).long()[orig]
    keep = ((idx // nv) < 2).all(-1)
    return orig[keep].tolist()


def _detach(x):
    if isinstance(x, torch.Tensor):
        return x.detach()
    if isinstance(x, (tuple, list)):
        return type(x)(_detach(v) for v in x)
    return x


def _guard(ctx, site, cls, desc, block, fn, grad=False):
    """Run a pfhedge call (autograd enabled when ``grad``: the mode fit()/compute_loss() use; else
    under no_grad: the mode price() uses); an exception where the reference defines a value is a
    violation.  Results are detached."""
    try:
        with (torch.enable_grad() if grad else torch.no_grad()):
            out = fn()
            if grad and isinstance(out, torch.Tensor) and out.requires_grad:
                ctx.add("results_requiring_grad")
            return True, _detach(out)
    except Exception as e:   # noqa: BLE001
        import traceback
        ctx.violation(site, f"{cls}:raises:{type(e).__name__}",
                      f"{type(e).__name__}: {str(e)[:200]} ({desc})",
                      observed=traceback.format_exc()[-1200:], expected="no exception", block=block)
        return False, None


def _close(a, b, exact):
    if exact:
        return ((a == b) | (a.isnan() & b.isnan()))
    tol = hw.tol(b.dtype)
    return ((a - b).abs() <= tol + tol * b.abs()) | (a.isnan() & b.isnan()) | (a == b)


# ----------------------------------------------------------------------------
# features
# ----------------------------------------------------------------------------

def _ref_conformance(spec, world, full, steps):
    """Compare with the documented function of the prefix: one python evaluation of
    models/feature_ref per tree NODE (handed the prefix only), then every leaf below the node must
    carry the node's value, for get(None) and get(t).  Returns (n_nodes_compared, first mismatch or None)."""
    env = world.env
    T, n_sym, N = world.T, world.n_sym, world.N
    sp = world.spot.tolist()
    se = None if world.second is None else world.second.tolist()
    eps = torch.finfo(world.dtype).eps
    exact = hw.is_exact(spec)
    orig = world.orig
    ar = torch.arange(N)
    compared = 0
    table = torch.empty((N, T), dtype=torch.float64)
    for t in range(T):
        g = n_sym ** (T - 1 - t)
        ids = orig // g
        new = torch.ones(N, dtype=torch.bool)
        new[1:] = ids[1:] != ids[:-1]
        firsts = new.nonzero().flatten().tolist()
        vals = []
        for r in firsts:
            v = feature_ref.value(spec, t, sp[r][: t + 1], None if se is None else se[r][: t + 1], env)
            if v is None:
                return 0, None
            vals.append(v)
        compared += len(firsts)
        node_of_row = torch.cumsum(new.long(), 0) - 1
        table[:, t] = torch.tensor(vals, dtype=torch.float64)[node_of_row]
    ref = table.to(world.dtype)
    # log of a correctly rounded quotient: |d log| <= eps from the quotient + 1 ulp of each log
    # implementation; 8 eps (1+|ref|) covers both, 0 where the arithmetic is exact
    tol = torch.zeros_like(ref) if exact else 8 * eps * (1 + ref.abs())
    for mode, got in (("get(None)", full.reshape(N, T)), ("get(t)", torch.cat(steps, dim=1).reshape(N, T))):
        ok = (got == ref) | (got.isnan() & ref.isnan()) | ((got - ref).abs() <= tol)
        if not ok.all():
            r, t = [int(x) for x in (~ok).nonzero()[0]]
            return compared, (mode, t, r, float(got[r, t]), float(ref[r, t]))
    return compared, None


def _evaluates_feature(spec, w, seed):
    """Does the feature evaluate at all (all steps and one step) on a two-path world?"""
    try:
        tiny = hw.build_world(dict(w, rows=[0, 1]))
        with torch.no_grad():
            f = hw.bind(hw.make_feature(spec, tiny, seed), tiny)
            f.get(None)
            f.get(0)
        return True
    except Exception:   # noqa: BLE001 - not applicable, by the library's own verdict
        return False


def _evaluates_model(m, w, seed):
    try:
        tiny = hw.build_world(dict(w, rows=[0, 1]))
        kit = hw.make_hedger(m, tiny, seed)
        with torch.no_grad():
            kit.hedger.compute_hedge(tiny.d, hedge=tiny.hedge)
        return True
    except Exception:   # noqa: BLE001
        return False


@family
def feature_tree(ctx, block):
    w = block["world"]
    T = w["T"]
    for spec in block["features"]:
        # applicability is decided DYNAMICALLY: a (feature, derivative, underlier) combination outside the
        # documented table is still in scope whenever it evaluates without raising; then it goes through
        # the adaptedness oracles (no reference value is needed for those)
        static_ok = hw.feature_supported(spec, w)
        if not static_ok:
            if not _evaluates_feature(spec, w, ctx.seed):
                ctx.add("not_applicable_pairs")
                continue
            ctx.add("applicable_outside_documented_table")
        world = hw.build_world(w)   # fresh objects per feature
        N, n_sym, orig = world.N, world.n_sym, world.orig
        site = hw.site_of(spec)
        lab = hw.label(spec)
        mini = {"world": w, "features": [spec]}
        f = hw.bind(hw.make_feature(spec, world, ctx.seed), world)
        ok, got = _guard(ctx, site, "get", f"{lab} {w['ul']}/{w.get('kind')}", mini,
                         lambda: (f.get(None), [f.get(t) for t in range(T)]))
        if not ok:
            continue
        full, steps = got
        F = spec.get("out", 1)
        if tuple(full.shape) != (N, T, F) or full.dtype != world.dtype:
            ctx.violation(site, "shape:get(None)", f"{lab}: get(None) has shape {tuple(full.shape)} {full.dtype}",
                          observed=[list(full.shape), str(full.dtype)], expected=[[N, T, F], str(world.dtype)],
                          block=mini)
            continue
        bad_shape = [t for t in range(T) if tuple(steps[t].shape) != (N, 1, F) or steps[t].dtype != world.dtype]
        if bad_shape:
            t = bad_shape[0]
            ctx.violation(site, "shape:get(t)", f"{lab}: get({t}) has shape {tuple(steps[t].shape)}",
                          observed=list(steps[t].shape), expected=[N, 1, F], block=mini)
            continue
        nodes, edges = node_counts(orig, n_sym, T)
        ctx.add("states", nodes)
        ctx.add("transitions", edges)
        ctx.add("traces_validated_against_impl", N)
        if spec["f"] == "empty":
            ctx.tick(2 * nodes)   # uninitialised memory: shape and dtype only
            continue
        ctx.tick(2 * nodes, nontrivial=lookahead_nodes(full, orig, n_sym, T))
        # (1) literal adaptedness, all-steps evaluation
        ftol = 0.0 if (hw.is_exact(spec) and static_ok) else hw.tol(world.dtype)
        if world.full:
            core_bad = check_prefix_measurable(full, n_sym, T, atol=ftol, rtol=ftol)
        pairs = prefix_pairs(full, orig, n_sym, T, rtol=ftol, atol=ftol)
        if world.full and bool(core_bad) != bool(pairs):
            raise AssertionError("prefix checks disagree")   # harness self-check
        for (t, a, b) in pairs[:1]:
            ctx.violation(site, "anticipates:get(None)",
                          f"{lab}.get(None)[:, {t}] differs between two paths that agree up to step {t} "
                          f"({w['ul']}/{w.get('kind')}, {len(pairs)} depths affected)",
                          observed={"path_a": world.spot[a].tolist(), "path_b": world.spot[b].tolist(),
                                    "second_a": None if world.second is None else world.second[a].tolist(),
                                    "second_b": None if world.second is None else world.second[b].tolist(),
                                    "value_a": full[a, t].tolist(), "value_b": full[b, t].tolist()},
                          expected="equal values at step %d" % t,
                          block={"world": dict(w, rows=[int(orig[a]), int(orig[b])]), "features": [spec]})
        # (2) literal adaptedness, single-step evaluation
        stacked = torch.cat(steps, dim=1)   # (N, T, F): column t = get(t)
        pairs = prefix_pairs(stacked, orig, n_sym, T, rtol=ftol, atol=ftol)
        for (t, a, b) in pairs[:1]:
            ctx.violation(site, "anticipates:get(t)",
                          f"{lab}.get({t}) differs between two paths that agree up to step {t} "
                          f"({w['ul']}/{w.get('kind')})",
                          observed={"path_a": world.spot[a].tolist(), "path_b": world.spot[b].tolist(),
                                    "second_a": None if world.second is None else world.second[a].tolist(),
                                    "second_b": None if world.second is None else world.second[b].tolist(),
                                    "value_a": stacked[a, t].tolist(), "value_b": stacked[b, t].tolist()},
                          expected="equal values at step %d" % t,
                          block={"world": dict(w, rows=[int(orig[a]), int(orig[b])]), "features": [spec]})
        # (3) conformance with the documented function of the prefix
        if block.get("conformance", True) and F == 1 and static_ok:
            n_cmp, bad = _ref_conformance(spec, world, full, steps)
            ctx.add("nodes_conformant_with_reference", n_cmp)
            if bad is not None:
                mode, t, r, got, ref = bad
                ctx.violation(site, f"value:{mode}",
                              f"{lab} {mode} at step {t} is not the documented function of the path prefix "
                              f"({w['ul']}/{w.get('kind')})",
                              observed={"path": world.spot[r].tolist(),
                                        "second": None if world.second is None else world.second[r].tolist(),
                                        "value": got},
                              expected=ref, block={"world": dict(w, rows=[int(orig[r])]), "features": [spec]})
        # (4) the value on a path does not depend on which other paths are in the batch
        rows = sub_rows(w, orig)
        if 0 < len(rows) < N:
            world2 = hw.build_world(dict(w, rows=rows))
            with torch.no_grad():
                f2 = hw.bind(hw.make_feature(spec, world2, ctx.seed), world2)
                full2 = f2.get(None)
                steps2 = torch.cat([f2.get(t) for t in range(T)], dim=1)
            pos = torch.searchsorted(orig, world2.orig)
            exact = hw.is_exact(spec) and static_ok
            for mode, a2, a1 in (("get(None)", full2, full[pos]), ("get(t)", steps2, stacked[pos])):
                ok = _close(a2, a1, exact)
                ctx.tick(int(a2.size(0)))
                if not ok.all():
                    r = int((~ok).flatten(1).any(1).nonzero()[0])
                    ctx.violation(site, f"depends_on_other_paths:{mode}",
                                  f"{lab} {mode}: the value on a path changes when other paths are removed "
                                  f"from the batch", observed=a2[r].flatten().tolist(),
                                  expected=a1[r].flatten().tolist(), block=mini)
        ctx.outcome((lab, w["ul"], w.get("kind"), round(float(full.nan_to_num(nan=7.0).sum()), 9)))
        if len(ctx.samples) < 3 and spec["f"] in ("max_log_moneyness", "barrier") and world.full:
            r = (N * 5) // 13
            ctx.sample({"family": "feature_tree", "feature": lab, "underlier": w["ul"], "derivative": w.get("kind"),
                        "path": world.spot[r].tolist(),
                        "second_factor": None if world.second is None else world.second[r].tolist(),
                        "get(None)": full[r].flatten().tolist(), "get(t) for t=0..T-1": stacked[r].flatten().tolist(),
                        "leaves_below_depth_t_node": [n_sym ** (T - 1 - t) for t in range(T)]})


# ----------------------------------------------------------------------------
# hedges
# ----------------------------------------------------------------------------

def _mode(m):
    base = "ww" if m["model"] == "ww" else m.get("mode", "vectorised")
    if m.get("module_mode"):
        base += "/" + m["module_mode"]
    if m.get("user_hook"):
        base += "/hook_" + m["user_hook"]
    return base


@family
def hedge_tree(ctx, block):
    w, m = block["world"], block["model"]
    T = w["T"]
    if block.get("probe"):
        # outside the documented model x derivative table: in scope iff it evaluates
        if not _evaluates_model(m, w, ctx.seed):
            ctx.add("not_applicable_models")
            ctx.tick(1)
            return
        ctx.add("applicable_outside_documented_table")
    world = hw.build_world(w)
    N, n_sym, orig, H = world.N, world.n_sym, world.orig, world.H
    kit = hw.make_hedger(m, world, ctx.seed)
    hedger, exact = kit.hedger, kit.exact and not block.get("probe")
    grad = bool(block.get("grad"))
    site = "Hedger.compute_hedge"
    tag = f"{_mode(m)}:{m['model']}" + (":autograd" if grad else "")
    desc = (f"model={m['model']} mode={_mode(m)} autograd={'on' if grad else 'off'} "
            f"inputs={[hw.label(s) for s in kit.specs]} "
            f"{w['ul']}/{w.get('kind')}{'' if w.get('call', True) else '/put'} H={H}")
    ok, hedge = _guard(ctx, site, tag, desc, block, lambda: hedger.compute_hedge(world.d, hedge=world.hedge),
                       grad=grad)
    if not ok:
        return
    if tuple(hedge.shape) != (N, H, T):
        ctx.violation(site, f"shape:{tag}", f"hedge shape {tuple(hedge.shape)} != {(N, H, T)} ({desc})",
                      observed=list(hedge.shape), expected=[N, H, T], block=block)
        return
    x = hedge.permute(0, 2, 1)   # (N, T, H)
    nodes, edges = node_counts(orig, n_sym, T)
    ctx.add("states", nodes)
    ctx.add("transitions", edges)
    ctx.add("traces_validated_against_impl", N)
    moving = (hedge[..., -2] != hedge[..., -3]).any(-1) if T >= 3 else (hedge[..., -2] != 0).any(-1)
    ctx.tick(nodes + N, nontrivial=lookahead_nodes(x, orig, n_sym, T, last=T - 2) + int(moving.sum()))
    rtol, atol = (0.0, 0.0) if exact else (hw.tol(world.dtype), hw.tol(world.dtype))
    if world.full:
        core_bad = check_prefix_measurable(x, n_sym, T, atol=atol, rtol=rtol)
    pairs = prefix_pairs(x, orig, n_sym, T, rtol=rtol, atol=atol)
    if world.full and bool(core_bad) != bool(pairs):
        raise AssertionError("prefix checks disagree")   # harness self-check
    for (t, a, b) in pairs[:1]:
        ctx.violation(site, f"anticipates:{tag}",
                      f"hedge[:, :, {t}] differs between two paths that agree up to step {t} ({desc})",
                      observed={"path_a": world.spot[a].tolist(), "path_b": world.spot[b].tolist(),
                                "second_a": None if world.second is None else world.second[a].tolist(),
                                "second_b": None if world.second is None else world.second[b].tolist(),
                                "hedge_a": hedge[a].tolist(), "hedge_b": hedge[b].tolist()},
                      expected=f"identical hedge ratios for steps 0..{t}",
                      block={"world": dict(w, rows=[int(orig[a]), int(orig[b])]), "model": m})
    # no trade at maturity
    last, held = hedge[..., -1], hedge[..., -2]
    same = (last == held) | (last.isnan() & held.isnan())
    if not same.all():
        r = int((~same).any(-1).nonzero()[0])
        ctx.violation(site, f"trades_at_maturity:{tag}",
                      f"hedge[..., -1] != hedge[..., -2] on {int((~same).any(-1).sum())}/{N} paths ({desc})",
                      observed={"path": world.spot[r].tolist(), "hedge": hedge[r].tolist()},
                      expected="last column equals the position held over the last step",
                      block={"world": dict(w, rows=[int(orig[r])]), "model": m})
    if hedge[..., :-1].isnan().any():
        ctx.add("nan_hedges", int(hedge.isnan().any(-1).any(-1).sum()))
    # ... and no cost at maturity: P&L and loss are those of the position HELD over the last step
    if block.get("pl") and tuple(hedge.shape) == (N, H, T):
        _pl_at_maturity(ctx, block, hedge, tag, desc, grad, exact)
    # no cross-path coupling
    rows = [] if (grad or not block.get("coupling", True)) else sub_rows(w, orig)
    if 0 < len(rows) < N:
        world2 = hw.build_world(dict(w, rows=rows))
        kit2 = hw.make_hedger(m, world2, ctx.seed)
        ok, hedge2 = _guard(ctx, site, tag, desc, block, lambda: kit2.hedger.compute_hedge(world2.d, hedge=world2.hedge))
        if not ok:
            return
        pos = torch.searchsorted(orig, world2.orig)
        ok = _close(hedge2, hedge[pos], exact)
        ctx.tick(int(hedge2.size(0)))
        if not ok.all():
            r = int((~ok).flatten(1).any(1).nonzero()[0])
            ctx.violation(site, f"depends_on_other_paths:{tag}",
                          f"the hedge on a path changes when other paths are removed from the batch ({desc})",
                          observed=hedge2[r].tolist(), expected=hedge[pos][r].tolist(), block=block)
    ctx.outcome((tag, w["ul"], w.get("kind"), H, round(float(hedge.nan_to_num(nan=7.0).sum()), 9)))
    if len(ctx.samples) < 6 and m["model"] in ("bs", "linear") and w["ul"] == "heston" and world.full:
        r = (N * 5) // 13
        ctx.sample({"family": "hedge_tree", "config": desc, "path": world.spot[r].tolist(),
                    "second_factor": None if world.second is None else world.second[r].tolist(),
                    "hedge": hedge[r].tolist()})


@family
def hedge_reuse(ctx, block):
    """ONE Hedger object evaluates a sequence of complete path trees of the same shape (same n_paths,
    same hedging instruments): tree A, tree B (the tree over the reversed alphabet: other prices, same
    shape), A again, A again.  On every call: adaptedness, last == previous column, and the result equals
    what a FRESH hedger gives on that tree (a position may depend on the market of the current
    evaluation only, not on a previous one)."""
    w, m = block["world"], block["model"]
    T = w["T"]
    seq = block.get("sequence", ["A", "B", "A", "A"])
    variants = {"A": w, "B": dict(w, As=list(reversed(w["As"])))}
    first = hw.build_world(w)
    kit = hw.make_hedger(m, first, ctx.seed)
    site = "Hedger.compute_hedge"
    tag = f"{_mode(m)}:{m['model']}"
    for k, name in enumerate(seq):
        world = hw.build_world(variants[name])
        N, n_sym, orig, H = world.N, world.n_sym, world.orig, world.H
        desc = (f"model={m['model']} mode={_mode(m)} inputs={[hw.label(s) for s in kit.specs]} "
                f"{w['ul']}/{w.get('kind')} H={H}; call #{k + 1} of the same Hedger object, trees {seq[: k + 1]}")
        ok, hedge = _guard(ctx, site, "reuse:" + tag, desc, block,
                           lambda: kit.hedger.compute_hedge(world.d, hedge=world.hedge))
        if not ok:
            return
        fresh_world = hw.build_world(variants[name])
        fresh = hw.make_hedger(m, fresh_world, ctx.seed)
        ok, ref = _guard(ctx, site, "reuse:" + tag, desc, block,
                         lambda: fresh.hedger.compute_hedge(fresh_world.d, hedge=fresh_world.hedge))
        if not ok:
            return
        nodes, edges = node_counts(orig, n_sym, T)
        ctx.add("states", nodes)
        ctx.add("transitions", edges)
        ctx.add("traces_validated_against_impl", N)
        ctx.add("hedger_reuse_calls")
        ctx.tick(nodes + N, nontrivial=(nodes + N) if k > 0 else 0)
        if tuple(hedge.shape) != (N, H, T):
            ctx.violation(site, f"reuse:shape:{tag}", f"hedge shape {tuple(hedge.shape)} ({desc})", block=block)
            return
        tol = 0.0 if kit.exact else hw.tol(world.dtype)
        pairs = prefix_pairs(hedge.permute(0, 2, 1), orig, n_sym, T, rtol=tol, atol=tol)
        for (t, a, b) in pairs[:1]:
            ctx.violation(site, f"reuse:anticipates:{tag}",
                          f"hedge[:, :, {t}] differs between two paths that agree up to step {t} ({desc})",
                          observed={"path_a": world.spot[a].tolist(), "path_b": world.spot[b].tolist(),
                                    "hedge_a": hedge[a].tolist(), "hedge_b": hedge[b].tolist()},
                          expected=f"identical hedge ratios for steps 0..{t}", block=block)
        same = (hedge[..., -1] == hedge[..., -2]) | (hedge[..., -1].isnan() & hedge[..., -2].isnan())
        if not same.all():
            ctx.violation(site, f"reuse:trades_at_maturity:{tag}", f"hedge[..., -1] != hedge[..., -2] ({desc})",
                          block=block)
        good = _close(hedge, ref, kit.exact)
        if not good.all():
            r = int((~good).flatten(1).any(1).nonzero()[0])
            t = int((~good)[r].any(0).nonzero()[0])
            ctx.violation(site, f"reuse:depends_on_previous_evaluation:{tag}",
                          f"the hedge differs from the one a fresh hedger computes on the same tree, first at step "
                          f"{t} on {int((~good).flatten(1).any(1).sum())}/{N} paths ({desc})",
                          observed={"path": world.spot[r].tolist(), "hedge": hedge[r].tolist()},
                          expected={"hedge": ref[r].tolist()}, block=block)
        ctx.outcome(("reuse", tag, w["ul"], w.get("kind"), H, k, round(float(hedge.nan_to_num(nan=7.0).sum()), 9)))


@family
def hedge_cross(ctx, block):
    """Cross hedge: the hedging instrument lives on ANOTHER stock whose series is shorter (T_h = T - short)
    than the series of the derivative's underlier.  Whatever columns compute_hedge returns (T_h or T of
    them) must be adapted to the underlier's filtration, end with a repeated column, and for j < T_h - 1
    equal the hedge the same hedger computes at step j when it hedges with the underlier itself
    (= model(features at step j)); the all-at-once and the step-by-step evaluation agree there."""
    w, m = block["world"], block["model"]
    T = w["T"]
    site = "Hedger.compute_hedge"
    results = {}
    for mode in ("vectorised", "stepwise"):
        mm = dict(m, mode=mode)
        world = hw.build_world(w)
        N, n_sym, orig = world.N, world.n_sym, world.orig
        hl, Th = hw.cross_hedge(world, block["short"], block.get("instrument", "primary"))
        kit = hw.make_hedger(mm, world, ctx.seed)
        tag = f"{_mode(mm)}:{m['model']}"
        desc = (f"model={m['model']} mode={mode} inputs={[hw.label(s) for s in kit.specs]} {w['ul']}/{w.get('kind')} "
                f"hedged with a {block.get('instrument', 'primary')} on another stock: {Th} of {T} steps")
        ok, hedge = _guard(ctx, site, "cross_hedge:" + tag, desc, block, lambda: kit.hedger.compute_hedge(world.d, hedge=hl))
        if not ok:
            continue
        ref_world = hw.build_world(w)
        ref_kit = hw.make_hedger(mm, ref_world, ctx.seed)
        with torch.no_grad():
            ref = ref_kit.hedger.compute_hedge(ref_world.d)    # hedged with the underlier: all T steps
        Tr = hedge.size(-1)
        nodes, edges = node_counts(orig, n_sym, T)
        ctx.add("states", nodes)
        ctx.add("transitions", edges)
        ctx.add("traces_validated_against_impl", N)
        ctx.tick(nodes + N, nontrivial=nodes)
        if hedge.dim() != 3 or tuple(hedge.shape[:2]) != (N, 1) or Tr not in (Th, T):
            ctx.violation(site, f"cross_hedge:shape:{tag}", f"hedge shape {tuple(hedge.shape)} ({desc})",
                          observed=list(hedge.shape), expected=[N, 1, f"{Th} or {T}"], block=block)
            continue
        tol = 0.0 if kit.exact else hw.tol(world.dtype)
        x = torch.cat([hedge, hedge[..., -1:].expand(-1, -1, T - Tr)], dim=-1).permute(0, 2, 1) if Tr < T else hedge.permute(0, 2, 1)
        pairs = prefix_pairs(x, orig, n_sym, T, rtol=tol, atol=tol, cols=range(Tr - 1))
        for (t, a, b) in pairs[:1]:
            ctx.violation(site, f"cross_hedge:anticipates:{tag}",
                          f"hedge[:, :, {t}] differs between two paths of the derivative's underlier that agree up to "
                          f"step {t} ({desc})",
                          observed={"path_a": world.spot[a].tolist(), "path_b": world.spot[b].tolist(),
                                    "hedge_a": hedge[a].tolist(), "hedge_b": hedge[b].tolist()},
                          expected=f"identical hedge ratios for steps 0..{t}", block=block)
        same = (hedge[..., -1] == hedge[..., -2]) | (hedge[..., -1].isnan() & hedge[..., -2].isnan())
        if not same.all():
            ctx.violation(site, f"cross_hedge:trades_at_maturity:{tag}", f"hedge[..., -1] != hedge[..., -2] ({desc})",
                          block=block)
        good = _close(hedge[..., : Th - 1], ref[..., : Th - 1], kit.exact)
        if not good.all():
            r = int((~good).flatten(1).any(1).nonzero()[0])
            j = int((~good)[r].any(0).nonzero()[0])
            ctx.violation(site, f"cross_hedge:not_the_model_at_step_j:{tag}",
                          f"hedge[:, :, {j}] is not the model evaluated on the features of step {j} ({desc})",
                          observed={"path": world.spot[r].tolist(), "hedge": hedge[r].tolist()},
                          expected={"hedge with the underlier": ref[r].tolist()}, block=block)
        results[mode] = (hedge, kit.exact, Th)
        ctx.outcome(("cross", tag, w["ul"], w.get("kind"), block["short"], Tr,
                     round(float(hedge.nan_to_num(nan=7.0).sum()), 9)))
    if len(results) == 2:
        (hv, exact, Th), (hs, _, _) = results["vectorised"], results["stepwise"]
        good = _close(hv[..., : Th - 1], hs[..., : Th - 1], exact)
        if not good.all():
            ctx.violation(site, f"cross_hedge:batched!=stepwise:{m['model']}",
                          f"the all-at-once and the step-by-step hedge differ on steps 0..{Th - 2} "
                          f"(model={m['model']} {w['ul']}/{w.get('kind')}, {Th} of {T} steps)", block=block)


def _shared_setup(world, seed, mo=None):
    """Two hedgers A and B (different weights) whose input lists share ONE ModuleOutput object over
    prev_hedge.  Returns (A, B, mo)."""
    import pfhedge.features as PF
    from pfhedge.nn import Hedger
    H = world.H
    if mo is None:
        mo = PF.ModuleOutput(hw.make_module("linear", 1 + H, 1, world.dtype, seed + 17), inputs=["max_moneyness", "prev_hedge"])
    A = Hedger(hw.make_module("linear", 2, H, world.dtype, seed + 3), ["moneyness", mo])
    B = Hedger(hw.make_module("linear", 2, H, world.dtype, seed + 4), ["moneyness", mo])
    return A, B, mo


@family
def hedge_shared_feature(ctx, block):
    """One ModuleOutput-over-prev_hedge feature OBJECT in the input lists of two hedgers A and B, ONE
    derivative object whose underlier is re-scripted between rounds (tree P, then the tree over the reversed
    alphabet).  Sequence A, B, A, B: every evaluation is adapted, keeps the last column, and equals what a
    fresh hedger with a fresh feature object gives on the current tree (B must read B's state, not A's)."""
    w = block["world"]
    T = w["T"]
    site = "Hedger.compute_hedge"
    world = hw.build_world(w)
    N, n_sym, orig, H = world.N, world.n_sym, world.orig, world.H
    A, B, mo = _shared_setup(world, ctx.seed)
    variants = {"P": w, "Q": dict(w, As=list(reversed(w["As"])))}
    for k, (who, tree) in enumerate(block.get("sequence", [["A", "P"], ["B", "P"], ["A", "Q"], ["B", "Q"], ["A", "Q"], ["B", "P"]])):
        cur = hw.build_world(variants[tree])
        market.script_primary(world.p, hw.BASE_UL.get(w["ul"], w["ul"]), cur.spot, cur.second)   # same derivative object
        hedger = A if who == "A" else B
        desc = (f"hedger {who} of two hedgers sharing one ModuleOutput(prev_hedge) feature object, evaluation #{k + 1} "
                f"(tree {tree}) {w['ul']}/{w.get('kind')} H={H}")
        ok, hedge = _guard(ctx, site, "shared_feature", desc, block,
                           lambda: hedger.compute_hedge(world.d, hedge=world.hedge))
        if not ok:
            return
        fa, fb, _ = _shared_setup(cur, ctx.seed)
        fresh = fa if who == "A" else fb
        with torch.no_grad():
            ref = fresh.compute_hedge(cur.d, hedge=cur.hedge)
        nodes, edges = node_counts(orig, n_sym, T)
        ctx.add("states", nodes)
        ctx.add("transitions", edges)
        ctx.add("traces_validated_against_impl", N)
        ctx.tick(nodes + N, nontrivial=(nodes + N) if k > 0 else 0)
        if tuple(hedge.shape) != (N, H, T):
            ctx.violation(site, "shared_feature:shape", f"hedge shape {tuple(hedge.shape)} ({desc})", block=block)
            return
        pairs = prefix_pairs(hedge.permute(0, 2, 1), orig, n_sym, T)
        for (t, a, b) in pairs[:1]:
            ctx.violation(site, "shared_feature:anticipates",
                          f"hedge[:, :, {t}] differs between two paths that agree up to step {t} ({desc})",
                          observed={"path_a": cur.spot[a].tolist(), "path_b": cur.spot[b].tolist(),
                                    "hedge_a": hedge[a].tolist(), "hedge_b": hedge[b].tolist()},
                          expected=f"identical hedge ratios for steps 0..{t}", block=block)
        if not (hedge[..., -1] == hedge[..., -2]).all():
            ctx.violation(site, "shared_feature:trades_at_maturity", f"hedge[..., -1] != hedge[..., -2] ({desc})", block=block)
        good = _close(hedge, ref, True)
        if not good.all():
            r = int((~good).flatten(1).any(1).nonzero()[0])
            ctx.violation(site, "shared_feature:reads_state_of_other_hedger",
                          f"the hedge differs from the one a fresh hedger with its own feature object computes on the "
                          f"same tree, on {int((~good).flatten(1).any(1).sum())}/{N} paths ({desc})",
                          observed={"path": cur.spot[r].tolist(), "hedge": hedge[r].tolist()},
                          expected={"hedge": ref[r].tolist()}, block=block)
        ctx.outcome(("shared", w["ul"], w.get("kind"), H, k, round(float(hedge.sum()), 9)))


@family
def hedge_lazy(ctx, block):
    """A model with LAZY parameters (MultiLayerPerceptron() with in_features=None: LazyLinear), never fitted:
    its FIRST evaluation materialises it.  The first and a second evaluation on the same tree are identical
    (same weights, the state starts from zero both times), adapted, and keep the last column.  Weights come
    from torch.manual_seed inside a forked RNG (generic weights; the global RNG state is left untouched)."""
    from pfhedge.nn import Hedger, MultiLayerPerceptron
    w = block["world"]
    T = w["T"]
    site = "Hedger.compute_hedge"
    world = hw.build_world(w)
    N, n_sym, orig, H = world.N, world.n_sym, world.orig, world.H
    inputs = ["moneyness", "time_to_maturity", "max_moneyness"] + (["prev_hedge"] if block["prev"] else [])
    tag = "stepwise" if block["prev"] else "vectorised"
    desc = f"lazy MultiLayerPerceptron inputs={inputs} {w['ul']}/{w.get('kind')} H={H}"
    hedges = []
    with torch.random.fork_rng():
        torch.manual_seed(7000 + ctx.seed)
        model = MultiLayerPerceptron(out_features=H, n_layers=2, n_units=4).to(world.dtype)
        hedger = Hedger(model, inputs)
        for k in range(2):
            cur = hw.build_world(w)
            ok, hedge = _guard(ctx, site, f"lazy:{tag}", desc + f", evaluation #{k + 1}", block,
                               lambda: hedger.compute_hedge(cur.d, hedge=cur.hedge))
            if not ok:
                return
            hedges.append(hedge)
    tol = hw.tol(world.dtype)
    for k, hedge in enumerate(hedges):
        nodes, edges = node_counts(orig, n_sym, T)
        ctx.add("states", nodes)
        ctx.add("transitions", edges)
        ctx.add("traces_validated_against_impl", N)
        ctx.tick(nodes + N, nontrivial=nodes + N)
        if tuple(hedge.shape) != (N, H, T):
            ctx.violation(site, f"lazy:shape:{tag}", f"hedge shape {tuple(hedge.shape)} ({desc})", block=block)
            return
        pairs = prefix_pairs(hedge.permute(0, 2, 1), orig, n_sym, T, rtol=tol, atol=tol)
        for (t, a, b) in pairs[:1]:
            ctx.violation(site, f"lazy:anticipates:{tag}",
                          f"evaluation #{k + 1}: hedge[:, :, {t}] differs between two paths that agree up to step {t} ({desc})",
                          observed={"path_a": world.spot[a].tolist(), "path_b": world.spot[b].tolist(),
                                    "hedge_a": hedge[a].tolist(), "hedge_b": hedge[b].tolist()},
                          expected=f"identical hedge ratios for steps 0..{t}", block=block)
        if not (hedge[..., -1] == hedge[..., -2]).all():
            ctx.violation(site, f"lazy:trades_at_maturity:{tag}", f"evaluation #{k + 1}: last column != previous ({desc})",
                          block=block)
    if len(hedges) == 2 and not _close(hedges[0], hedges[1], False).all():
        good = _close(hedges[0], hedges[1], False)
        r = int((~good).flatten(1).any(1).nonzero()[0])
        ctx.violation(site, f"lazy:first_evaluation_differs_from_second:{tag}",
                      f"the evaluation that materialises the lazy model differs from the next one on the same tree ({desc})",
                      observed={"path": world.spot[r].tolist(), "first": hedges[0][r].tolist()},
                      expected={"second": hedges[1][r].tolist()}, block=block)
    ctx.outcome(("lazy", tag, w["ul"], w.get("kind"), H, round(float(hedges[0].sum()), 6)))


@family
def hedge_dropout(ctx, block):
    """Models with an ACTIVE stochastic layer (Dropout; hedger in training mode, its mode when freshly built
    and after fit(validation=False)): whatever mask is drawn, the position reported for the final index is
    the one held over the last step.  (Adaptedness is not asserted here: the masks differ from row to row.)
    The draws are made inside a forked RNG; nothing is compared against a particular mask."""
    from pfhedge.nn import Hedger, MultiLayerPerceptron
    w = block["world"]
    T = w["T"]
    site = "Hedger.compute_hedge"
    world = hw.build_world(w)
    N, H = world.N, world.H
    inputs = ["moneyness", "time_to_maturity", "max_moneyness"] + (["prev_hedge"] if block["prev"] else [])
    tag = ("stepwise" if block["prev"] else "vectorised") + (":autograd" if block.get("grad") else "")
    desc = (f"MultiLayerPerceptron(activation=Sequential(ReLU(), Dropout(0.5))) in training mode, inputs={inputs} "
            f"autograd={'on' if block.get('grad') else 'off'} {w['ul']}/{w.get('kind')} H={H}")
    with torch.random.fork_rng():
        torch.manual_seed(9000 + ctx.seed)
        act = torch.nn.Sequential(torch.nn.ReLU(), torch.nn.Dropout(0.5))
        model = MultiLayerPerceptron(3 + (H if block["prev"] else 0), H, n_layers=2, n_units=8,
                                     activation=act).to(world.dtype)
        hedger = Hedger(model, inputs)
        hedger.train()
        ok, hedge = _guard(ctx, site, f"dropout:{tag}", desc, block,
                           lambda: hedger.compute_hedge(world.d, hedge=world.hedge), grad=bool(block.get("grad")))
    if not ok:
        return
    ctx.add("traces_validated_against_impl", N)
    moving = (hedge[..., -2] != hedge[..., -3]).any(-1) if T >= 3 else (hedge[..., -2] != 0).any(-1)
    ctx.tick(N, nontrivial=int(moving.sum()))
    if tuple(hedge.shape) != (N, H, T):
        ctx.violation(site, f"dropout:shape:{tag}", f"hedge shape {tuple(hedge.shape)} ({desc})", block=block)
        return
    same = hedge[..., -1] == hedge[..., -2]
    if not same.all():
        r = int((~same).any(-1).nonzero()[0])
        ctx.violation(site, f"dropout:trades_at_maturity:{tag}",
                      f"hedge[..., -1] != hedge[..., -2] on {int((~same).any(-1).sum())}/{N} paths ({desc})",
                      observed={"path": world.spot[r].tolist(), "hedge": hedge[r].tolist()},
                      expected="last column equals the position held over the last step", block=block)
    ctx.outcome(("dropout", tag, w["ul"], H, int(moving.sum()) > 0))


def _pl_at_maturity(ctx, block, hedge, tag, desc, grad, exact):
    """compute_pl / compute_portfolio / compute_loss (scripted simulate) in the same autograd mode, on
    fresh objects, against pl() of the hedge with the last column replaced by the held position
    (pl() itself is C01's subject): a re-trade at the final index shows as a transaction cost."""
    import pfhedge.nn.functional as F
    w, m = block["world"], block["model"]
    held = hedge.clone()
    held[..., -1] = held[..., -2]
    for what in ("pl", "portfolio", "loss"):
        world = hw.build_world(w)
        kit = hw.make_hedger(m, world, ctx.seed)
        hl = world.hedge if world.hedge is not None else list(world.d.underliers())
        spot = torch.stack([h.spot for h in hl], dim=1).clone()
        cost = [h.cost for h in hl]
        with torch.no_grad():
            payoff = world.d.payoff().clone()
            exp_pf = F.pl(spot=spot, unit=held, cost=cost)
            exp = {"pl": F.pl(spot=spot, unit=held, cost=cost, payoff=payoff), "portfolio": exp_pf}
        site = "Hedger.compute_" + what
        if what == "loss":
            bufs = {"spot": world.spot.clone()}
            if world.second is not None:
                bufs[hw.TWO_FACTOR[w["ul"]]] = world.second.clone()
            sim = market.ScriptedSimulate(world.p, [bufs])
            ok, got = _guard(ctx, site, tag, desc, block,
                             lambda: kit.hedger.compute_loss(world.d, hedge=world.hedge, n_paths=world.N,
                                                             enable_grad=grad), grad=grad)
            sim.remove()
            with torch.no_grad():
                expected = kit.hedger.criterion(exp_pf, payoff)
        else:
            fn = kit.hedger.compute_pl if what == "pl" else kit.hedger.compute_portfolio
            ok, got = _guard(ctx, site, tag, desc, block, lambda: fn(world.d, hedge=world.hedge), grad=grad)
            expected = exp[what]
        if not ok:
            continue
        ctx.tick(world.N)
        # sums: equal up to the rounding of the sums involved (hw.pl_rounding_bound; the reduction order
        # depends on the memory layout of the hedge tensor); a trade at maturity costs >= c S |d unit| >= 1e-4
        slack = hw.pl_rounding_bound(spot, held, cost, None if what == "portfolio" else payoff)
        if not exact:
            scale = float(spot.abs().max()) * spot.size(-1) * max(1.0, float(held.nan_to_num().abs().max())) + 1.0
            slack = slack + hw.tol(world.dtype) * scale
        if what == "loss":
            slack = hw.loss_rounding_bound(slack, world.N, world.dtype, expected)
        good = ((got - expected).abs() <= slack) | (got.isnan() & expected.isnan()) | (got == expected)
        if tuple(got.shape) != tuple(expected.shape) or not good.all():
            ctx.violation(site, f"cost_at_maturity:{tag}",
                          f"compute_{what} is not the P&L of the position held over the last step: a trade (and "
                          f"its cost) happens at the final time index ({desc})",
                          observed=got.flatten()[:6].tolist(), expected=expected.flatten()[:6].tolist(), block=block)


# ----------------------------------------------------------------------------
# enumeration
# ----------------------------------------------------------------------------

def feature_specs(As, with_listed, n_prev=None):
    th_hi = sorted(As)[-2]          # a level some paths reach and some do not; ties occur (>=)
    th_lo = sorted(As)[1]
    specs = [{"f": n} for n in ("moneyness", "log_moneyness", "max_moneyness", "max_log_moneyness",
                                "time_to_maturity", "expiry_time", "volatility", "variance",
                                "underlier_spot", "underlier_log_spot", "zeros", "ones", "empty")]
    specs += [{"f": "barrier", "threshold": th_hi, "up": True}, {"f": "barrier", "threshold": th_lo, "up": False},
              {"f": "barrier", "threshold": 1.0625, "up": True}, {"f": "barrier", "threshold": 0.96875, "up": False}]
    if with_listed:
        specs += [{"f": "spot", "pricer": with_listed, "pricer_strike": hw.PRICER_STRIKE},
                  {"f": "log_spot", "pricer": with_listed, "pricer_strike": hw.PRICER_STRIKE}]
    inner = [{"f": "max_moneyness"}, {"f": "time_to_maturity"}, {"f": "barrier", "threshold": th_hi, "up": True}]
    specs += [
        {"f": "module_output", "module": "linear", "inputs": inner},
        {"f": "module_output", "module": "mlp", "inputs": [{"f": "underlier_spot"}, {"f": "variance"}], "out": 2},
        {"f": "module_output", "module": "user", "inputs": [{"f": "underlier_log_spot"}, {"f": "volatility"}]},
        {"f": "module_output", "module": "bs"},
        {"f": "module_output", "module": "linear", "inputs": [
            {"f": "module_output", "module": "user", "inputs": [{"f": "max_log_moneyness"}, {"f": "ones"}]},
            {"f": "module_output", "module": "bs"}]},
    ]
    return specs


def model_specs(H, listed):
    base = [{"f": "moneyness"}, {"f": "time_to_maturity"}, {"f": "volatility"}]
    logs = [{"f": "log_moneyness"}, {"f": "max_log_moneyness"}, {"f": "underlier_log_spot"}, {"f": "variance"}]
    path = [{"f": "max_moneyness"}, {"f": "barrier", "threshold": 1.0, "up": True},
            {"f": "barrier", "threshold": 1.0, "up": False}, {"f": "expiry_time"}]
    nonopt = [{"f": "underlier_spot"}, {"f": "variance"}, {"f": "barrier", "threshold": 1.0, "up": True}]
    out = []
    for mode in ("vectorised", "stepwise"):
        out += [
            {"model": "linear", "inputs": base, "mode": mode},
            {"model": "linear", "inputs": logs, "mode": mode},
            {"model": "mlp", "inputs": path, "mode": mode},
            {"model": "user", "inputs": [{"f": "moneyness"}, {"f": "max_moneyness"}, {"f": "variance"}], "mode": mode},
            {"model": "linear", "inputs": nonopt, "mode": mode},
            {"model": "mlp", "inputs": [{"f": "module_output", "module": "bs"}, {"f": "ones"},
                                        {"f": "module_output", "module": "user",
                                         "inputs": [{"f": "max_moneyness"}, {"f": "volatility"}]}], "mode": mode},
            {"model": "bs", "mode": mode},
            {"model": "naked", "inputs": [{"f": "zeros"}], "mode": mode},
            {"model": "naked", "inputs": [{"f": "empty"}], "mode": mode},
        ]
        if listed:
            out.append({"model": "linear", "inputs": [{"f": "spot", "pricer": listed}, {"f": "underlier_spot"},
                                                      {"f": "log_spot", "pricer": listed}], "mode": mode})
        if H == 1:   # models that return (a view of) their input; single-feature input lists
            out += [{"model": "identity", "inputs": [{"f": "underlier_spot"}], "mode": mode},
                    {"model": "identity", "inputs": [{"f": "time_to_maturity"}], "mode": mode},
                    {"model": "first", "inputs": [{"f": "moneyness"}], "mode": mode},
                    {"model": "first", "inputs": [{"f": "max_moneyness"}, {"f": "variance"}], "mode": mode}]
    # a ModuleOutput wrapping a module that mixes the TIME dimension, in step-by-step hedgers only (there the
    # module is only ever fed one step)
    tm = {"f": "module_output", "module": "time_mix", "inputs": [{"f": "moneyness"}, {"f": "max_moneyness"}]}
    out += [{"model": "linear", "inputs": [{"f": "time_to_maturity"}, tm], "mode": "stepwise"},
            {"model": "linear", "inputs": [tm, {"f": "prev_hedge"}], "mode": "vectorised"}]
    # state-dependent by themselves
    out += [
        {"model": "ww"},
        {"model": "linear", "mode": "vectorised",   # prev_hedge reaches the model through a ModuleOutput
         "inputs": [{"f": "moneyness"}, {"f": "module_output", "module": "linear",
                                         "inputs": [{"f": "max_moneyness"}, {"f": "prev_hedge"}]}]},
    ]
    return out


def cross_models():
    return [
        {"model": "linear", "inputs": [{"f": "moneyness"}, {"f": "time_to_maturity"}, {"f": "volatility"}]},
        {"model": "mlp", "inputs": [{"f": "max_moneyness"}, {"f": "barrier", "threshold": 1.0, "up": True},
                                    {"f": "expiry_time"}]},
        {"model": "user", "inputs": [{"f": "underlier_spot"}, {"f": "variance"}]},
        {"model": "bs"},
    ]


def reuse_models(H):
    base = [{"f": "moneyness"}, {"f": "time_to_maturity"}]
    return [
        {"model": "linear", "inputs": base + [{"f": "prev_hedge"}]},                       # uses the state
        {"model": "user", "inputs": [{"f": "max_moneyness"}, {"f": "prev_hedge"}]},
        {"model": "linear", "inputs": [{"f": "moneyness"}, {"f": "module_output", "module": "linear",
                                                           "inputs": [{"f": "max_moneyness"}, {"f": "prev_hedge"}]}]},
        {"model": "ww"},
        {"model": "linear", "inputs": base + [{"f": "volatility"}], "mode": "stepwise"},   # ignores it
        {"model": "bs", "mode": "stepwise"},
        {"model": "mlp", "inputs": base + [{"f": "max_moneyness"}], "mode": "vectorised"},
        # a user's post-processing forward hook registered on the hedger
        {"model": "linear", "inputs": base + [{"f": "prev_hedge"}], "user_hook": "lot"},
        {"model": "linear", "inputs": base + [{"f": "volatility"}], "mode": "stepwise", "user_hook": "limit"},
        {"model": "mlp", "inputs": base + [{"f": "max_moneyness"}], "mode": "vectorised", "user_hook": "lot",
         "module_mode": "eval"},
    ]


def worlds(ctx):
    """The (underlier, derivative, listing, hedge list) configurations of the tier."""
    As = [0.875, 1.0, 1.25]
    extra = ctx.extra_symbol("spot", [0.75, 1.125, 1.5, 0.9375])
    Av = {"variance": [1 / 64, 1 / 16], "volatility": [0.125, 0.25]}
    if ctx.quick:
        T, A = 4, As + [extra]
    else:
        T, A = 5, As + [extra]
    ctx.alphabet("spot", A)
    ctx.alphabet("variance (heston, rough_bergomi)", Av["variance"])
    ctx.alphabet("volatility (local_vol)", Av["volatility"])
    ctx.info["T"] = T
    uls = ["brownian", "heston", "rough_bergomi", "local_vol", "merton", "kou", "cir", "vasicek"]
    out = []
    for ul in uls:
        av = Av.get(hw.TWO_FACTOR.get(ul))
        for kind in market.ALL_DERIVATIVE_KINDS:
            for call in ((True, False) if kind in market.OPTION_KINDS else (True,)):
                for listed in (None, "dyadic", "bs", "varswap"):
                    if listed == "varswap" and kind != "variance_swap":
                        continue
                    if listed == "dyadic" and kind == "variance_swap":
                        continue
                    w = {"ul": ul, "kind": kind, "call": call, "T": T, "As": A, "Av": av, "dtype": "float64",
                         "listed": listed}
                    if hw.world_ok(w):
                        out.append(w)
    return out, T, A


def run(ctx):
    ctx.rule("tree: the scripted market holds every path over the (joint) alphabet; nodes = path prefixes. "
             "feature_tree: every feature x derivative kind x call/put x underlier x listing: get(None)[:, t] and "
             "get(t) constant on the leaves below every depth-t node, equal to the documented function of the "
             "prefix, independent of the other paths in the batch. hedge_tree: every model x evaluation mode x "
             "world x autograd {off, on}: hedge[:, :, t] constant below every depth-t node, last column == previous "
             "column on every leaf, compute_pl/portfolio/loss == P&L of the held position (cost > 0). Applicability "
             "of (feature | model) x derivative x underlier is decided dynamically: whatever evaluates without "
             "raising is in scope (others are counted as not applicable). hedge_reuse: one Hedger object on trees "
             "A, B, A, A of the same shape: same oracles on every call + equality with a fresh hedger. Worlds include "
             "derivatives whose own maturity is shorter / longer than the registered time grid. A sub-grid is repeated "
             "with hedger.eval() and with a user's post-processing forward hook (lot rounding, position limit). "
             "hedge_cross: hedging instrument on another stock with a series 1 or 2 steps shorter. hedge_shared_feature: "
             "one ModuleOutput(prev_hedge) object shared by two hedgers on one re-scripted derivative. hedge_lazy: "
             "first vs second evaluation of a never-fitted lazy MLP. hedge_dropout: last column == previous column for "
             "a Dropout-bearing MLP in training mode (any mask). Worlds include variance scripts with "
             "negative and zero entries (user subclasses of the primaries only with VERIF_USER_SUBCLASS=1, outside the claim). Non-trivial = nodes below which the quantity takes a different value later on some leaf "
             "(peeking would be observable) + leaves whose position moves before maturity")
    ctx.assume("models that couple paths (batch normalisation) are outside the property and are not generated")
    ctx.assume("user-supplied pricers of listed derivatives are represented by the documentation's Black-Scholes "
               "and variance-swap lambdas and one dyadic pricer")
    ctx.assume("values of the 'empty' feature are uninitialised memory: only shape/dtype are checked, and it is "
               "only fed to the Naked model, which ignores its input")
    ws, T, A = worlds(ctx)
    two_factor_conf = ("european", "variance_swap", "lookback")
    fblocks, hblocks = [], []
    for w in ws:
        two = w["ul"] in hw.TWO_FACTOR
        if ctx.quick:
            if w["ul"] in ("merton", "kou", "cir", "vasicek") and (w["kind"] not in ("european", "variance_swap")
                                                                     or w["listed"] == "bs"):
                continue
            if two and w["listed"] == "bs" and w["kind"] not in ("european", "lookback"):
                continue
            if two and not w["call"] and w["kind"] != "european":
                continue
            if w["ul"] in ("rough_bergomi", "local_vol") and (w["kind"] not in ("european", "lookback", "variance_swap")
                                                               or w["listed"] == "bs"):
                continue
        conf = (not two) or (w["kind"] in two_factor_conf and w["listed"] in (None, "varswap"))
        fblocks.append({"world": w, "features": feature_specs(A, w["listed"]), "conformance": conf})
    # float32 and a non-dyadic time step
    for ul in ("brownian", "heston"):
        w = {"ul": ul, "kind": "lookback", "call": True, "T": T, "As": A[:3],
             "Av": [1 / 64, 1 / 16] if ul == "heston" else None, "dtype": "float32", "listed": "dyadic"}
        fblocks.append({"world": w, "features": feature_specs(A[:3], "dyadic"), "conformance": True})
    for w in ws:
        two = w["ul"] in hw.TWO_FACTOR
        if w["listed"] in ("bs", "varswap"):
            continue
        if ctx.quick:
            if w["ul"] in ("merton", "kou", "cir", "vasicek", "rough_bergomi") and w["kind"] != "european":
                continue
            if w["ul"] == "rough_bergomi" and not w["call"]:
                continue
            if not w["call"] and w["kind"] not in ("european", "european_binary"):
                continue
            if two and (w["kind"] not in ("european", "lookback", "variance_swap") or
                        (not w["call"] and w["kind"] != "european")):
                continue
        hedges = ["default"] if w["listed"] else ["default", "ul+listed"]
        if ctx.thorough and not w["listed"] and w["ul"] in ("brownian", "heston"):
            hedges.append("ul+listed+listed3")
        if not w["listed"] and w["ul"] in ("brownian", "heston") and w["kind"] == "european" and w["call"]:
            hedges += ["listed+ul", "listed"]   # the listed option first: the time grid is read from its price
        for hv in hedges:
            wh = dict(w, hedge=hv)
            H = {"default": 1, "ul+listed": 2, "ul+listed+listed3": 3, "listed+ul": 2, "listed": 1}[hv]
            for m in model_specs(H, w["listed"]):
                if not hw.model_shape_ok(m, wh):
                    continue
                probe = not hw.model_ok(m, wh)   # outside the documented table: decided dynamically
                if probe and (hv != "default" or (ctx.quick and w["ul"] not in ("brownian", "heston", "cir"))):
                    continue
                if ctx.quick and H > 1 and (m["model"] in ("naked",) or w["ul"] not in ("brownian", "heston", "local_vol")):
                    continue
                hblocks.append({"world": wh, "model": m, "probe": probe})
    # shortest horizons: T = 2 (one trading step, the last column is the only copy) and T = 3
    for Ts, ul, kind in itertools.product((2, 3), ("brownian", "heston"),
                                          ("european", "lookback", "variance_swap", "forward_start")):
        w = {"ul": ul, "kind": kind, "call": True, "T": Ts, "As": A, "Av": [1 / 64, 1 / 16] if ul == "heston" else None,
             "dtype": "float64", "listed": None}
        fblocks.append({"world": w, "features": feature_specs(A, None), "conformance": True})
        for hv in ("default", "ul+listed"):
            wh = dict(w, hedge=hv)
            for m in model_specs(1 if hv == "default" else 2, None):
                if hw.model_ok(m, wh):
                    hblocks.append({"world": wh, "model": m, "probe": False})
                elif hw.model_shape_ok(m, wh) and hv == "default" and Ts == 3:
                    hblocks.append({"world": wh, "model": m, "probe": True})
    # the derivative's own maturity is shorter / longer than the registered grid (underlier shared with a
    # derivative of another maturity, or simulated for another horizon)
    for ul, kind, mat_k in itertools.product(("brownian", "heston"),
                                             ("european", "lookback") if ctx.quick else market.OPTION_KINDS,
                                             (max(1, T - 3), T + 1)):
        w = {"ul": ul, "kind": kind, "call": True, "T": T, "As": A[:3] if ctx.quick else A,
             "Av": [1 / 64, 1 / 16] if ul == "heston" else None, "dtype": "float64", "listed": None, "mat_k": mat_k}
        fblocks.append({"world": w, "features": feature_specs(w["As"], None), "conformance": False})
        wh = dict(w, hedge="default")
        for m in model_specs(1, None):
            if hw.model_ok(m, wh):
                hblocks.append({"world": wh, "model": m, "probe": False})
    # variance scripts with negative / zero entries; and, only when VERIF_USER_SUBCLASS=1 (diagnostic outside the
    # claim), USER SUBCLASSES of the primaries overriding documented properties (volatility term structure on a
    # BrownianStock subclass, floored volatility on a HestonStock subclass); variance scripts with
    # negative and zero entries (register_buffer scenario sets; the volatility property clamps them)
    for ul, kind, av in itertools.product((("brownian_ts", "heston_user") if USER_SUBCLASS_WORLDS else ())
                                          + ("heston", "rough_bergomi"),
                                          ("european", "lookback") if ctx.quick else market.OPTION_KINDS,
                                          ("std", "neg")):
        if (av == "neg") != (ul in ("heston", "rough_bergomi")):
            continue
        if ctx.quick and ul == "rough_bergomi" and kind != "european":
            continue
        w = {"ul": ul, "kind": kind, "call": True, "T": T, "As": A[:3] if ctx.quick else A,
             "Av": None if ul == "brownian_ts" else ([-1 / 64, 0.0, 1 / 16] if av == "neg" else [1 / 64, 1 / 16]),
             "dtype": "float64", "listed": None}
        fblocks.append({"world": w, "features": [f for f in feature_specs(w["As"], None)
                                                  if av == "std" or f.get("module") != "bs"], "conformance": True})
        wh = dict(w, hedge="default")
        for m in model_specs(1, None):
            if hw.model_ok(m, wh) and (av == "std" or m["model"] in ("linear", "mlp", "user")):
                hblocks.append({"world": wh, "model": m, "probe": False})
    # every hedge block: positive transaction cost; autograd ON (the mode of fit / compute_loss; model
    # parameters require grad) next to autograd OFF (the mode of price); P&L and loss at maturity
    trainable = ("linear", "mlp", "user")
    both = []
    for b in hblocks:
        b = {"world": dict(b["world"], cost=1 / 128), "model": b["model"], "probe": bool(b.get("probe"))}
        wb, mb = b["world"], b["model"]
        if b["probe"]:
            both.append(dict(b, grad=False, pl=False, coupling=False))
            continue
        with_pl = wb["T"] <= 4 or wb["ul"] in ("brownian", "heston")
        b["coupling"] = ctx.thorough or wb["ul"] in ("brownian", "heston")
        both.append(dict(b, grad=False, pl=with_pl and mb["model"] in ("linear", "bs", "identity", "first")
                         and wb["ul"] in ("brownian", "heston")
                         and (ctx.thorough or (wb["kind"] in ("european", "lookback") and wb["ul"] == "brownian"))))
        if ctx.thorough:
            on = True
        elif mb["model"] in trainable:
            on = (wb["ul"] in ("brownian", "heston") or wb["kind"] == "european") and (
                mb.get("mode") == "vectorised" or wb["ul"] == "brownian")
        else:
            on = wb["ul"] == "brownian" and wb["kind"] == "european"
        if on:
            both.append(dict(b, grad=True, pl=with_pl and mb["model"] in trainable
                             and wb["ul"] in ("brownian", "heston")
                             and (ctx.thorough or wb["kind"] in ("european", "lookback"))))
    # module mode eval() (the mode price() runs in and the one fit() leaves behind) and a user's
    # post-processing forward hook registered after construction, for a sub-grid of the configurations
    extra = []
    for b in both:
        wb, mb = b["world"], b["model"]
        if b["probe"] or b["grad"] or mb["model"] not in ("linear", "mlp", "bs", "user", "ww"):
            continue
        if wb["ul"] not in ("brownian", "heston") or wb["kind"] not in ("european", "lookback") or not wb["call"]:
            continue
        if wb.get("listed") or wb.get("mat_k") is not None or (ctx.quick and (wb["T"] not in (3, T) or wb["ul"] != "brownian"
                                                                              and mb["model"] != "linear")):
            continue
        base = dict(b, coupling=False)
        extra.append(dict(base, model=dict(mb, module_mode="eval"), pl=mb["model"] in ("linear", "bs")))
        if mb["model"] != "ww":
            extra.append(dict(base, model=dict(mb, user_hook="limit"), pl=False))
            if mb["model"] in ("linear", "mlp", "user"):
                extra.append(dict(base, model=dict(mb, user_hook="lot"), pl=False))
    hblocks = both + extra
    ctx.info["hedge_blocks_eval_or_hook"] = len(extra)
    # cross hedges with a shorter series
    cblocks = []
    for ul, kind, short, instrument in itertools.product(("brownian", "heston"), ("european", "lookback"), (1, 2),
                                                         ("primary", "listed")):
        if ctx.quick and ul == "heston" and (kind != "european" or instrument != "primary"):
            continue
        wc = {"ul": ul, "kind": kind, "call": True, "T": T, "As": A[:3] if ctx.quick else A,
              "Av": [1 / 64, 1 / 16] if ul == "heston" else None, "dtype": "float64", "listed": None, "hedge": "default"}
        for mc_ in cross_models():
            if hw.model_ok(mc_, wc):
                cblocks.append({"world": wc, "model": mc_, "short": short, "instrument": instrument})
    ctx.info["cross_blocks"] = len(cblocks)
    # one ModuleOutput(prev_hedge) object shared by two hedgers; lazy models
    sblocks, zblocks = [], []
    for ul, kind, hv in itertools.product(("brownian", "heston"), ("european", "lookback"), ("default", "ul+listed")):
        if ctx.quick and ul == "heston" and (kind != "european" or hv != "default"):
            continue
        wsb = {"ul": ul, "kind": kind, "call": True, "T": T, "As": A[:3] if ctx.quick else A,
               "Av": [1 / 64, 1 / 16] if ul == "heston" else None, "dtype": "float64", "listed": None, "hedge": hv,
               "cost": 1 / 128}
        sblocks.append({"world": wsb})
        for prev in (True, False):
            zblocks.append({"world": wsb, "prev": prev})
    dblocks = [{"world": z["world"], "prev": z["prev"], "grad": g} for z in zblocks for g in (False, True)]
    ctx.info["dropout_blocks"] = len(dblocks)
    ctx.info["shared_feature_blocks"] = len(sblocks)
    ctx.info["lazy_blocks"] = len(zblocks)
    # the same Hedger object on several trees in sequence
    ublocks = []
    for ul, kind, hv in itertools.product(["brownian", "heston"] if ctx.quick else ["brownian", "heston", "local_vol", "kou"],
                                          ["european", "lookback"] if ctx.quick else list(market.OPTION_KINDS),
                                          ["default", "ul+listed"]):
        H = 1 if hv == "default" else 2
        wu = {"ul": ul, "kind": kind, "call": True, "T": T, "As": A, "Av": [1 / 64, 1 / 16] if ul in ("heston",) else (
              [0.125, 0.25] if ul == "local_vol" else None), "dtype": "float64", "listed": None, "hedge": hv, "cost": 1 / 128}
        for m in reuse_models(H):
            if hw.model_ok(m, wu):
                ublocks.append({"world": wu, "model": m})
    ctx.info["reuse_blocks"] = len(ublocks)
    ctx.info["feature_blocks"] = len(fblocks)
    ctx.info["hedge_blocks"] = len(hblocks)
    ctx.info["hedge_blocks_autograd_on"] = sum(1 for b in hblocks if b["grad"])
    if ctx.quick:
        for b in fblocks:
            ctx.run("feature_tree", b)
        for b in hblocks:
            ctx.run("hedge_tree", b)
        for b in ublocks:
            ctx.run("hedge_reuse", b)
        for b in cblocks:
            ctx.run("hedge_cross", b)
        for b in sblocks:
            ctx.run("hedge_shared_feature", b)
        for b in zblocks:
            ctx.run("hedge_lazy", b)
        for b in dblocks:
            ctx.run("hedge_dropout", b)
    else:
        ctx.run_parallel("feature_tree", fblocks)
        ctx.run_parallel("hedge_tree", hblocks)
        ctx.run_parallel("hedge_reuse", ublocks)
        ctx.run_parallel("hedge_cross", cblocks)
        ctx.run_parallel("hedge_shared_feature", sblocks)
        ctx.run_parallel("hedge_lazy", zblocks)
        ctx.run_parallel("hedge_dropout", dblocks)

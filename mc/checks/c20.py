"""C20 - clamps, the Whalley-Wilmott band and small helpers follow their formulas.  Engine: grid.

Families
  clamp_grid    clamp / leaky_clamp / Clamp() / LeakyClamp(): all (x, min, max) over a dyadic alphabet
                (ordered, tied, inverted), one-sided bounds, bounds as tensors / python numbers / 0-d tensors /
                broadcast shapes / mixed, slopes, both inverted_output modes and the defaults; oracle =
                the docstring's piecewise definition in Fractions (exact for dyadic slopes).
  ww_band       WhalleyWilmott(EuropeanOption)(input) and .width() on a (log-moneyness, maturity, volatility,
                previous hedge) grid x cost x risk aversion x strike x call/put; oracle = textbook
                Black-Scholes delta/gamma + band in mpmath (ww_ref); zero cost => bitwise the BlackScholes module.
  ww_cost_history  one WhalleyWilmott module while the underlier's cost is changed (all cost sequences <= 2 / 3).
  ww_width_fn   functional.ww_width on a (gamma, spot, cost, a) grid, scalar and tensor parameters.
  ww_struct     WhalleyWilmott on the other option classes: output = previous hedge clamped to
                delta +- (3 c Gamma^2 S/(2a))^(1/3) with delta, Gamma taken from the module's own pricer.
  svi           svi_variance / SVIVariance over a parameter alphabet (sigma positive and not 1, zero, negative).
  bilerp        bilerp over a dyadic value alphabet^4 x weights^2 (incl. extrapolation 1.5), exact.
  box_muller    box_muller over a uniform grid incl. 0 and values below epsilon.
  realized      realized_variance / realized_volatility on all paths of length 2..T; dt as float, 0-d tensor and
                per-path tensor of shape (N,) with N == T-1 and N != T-1.
"""
from __future__ import annotations

import itertools
from fractions import Fraction

import mpmath as mp
import torch

from mc.models import helpers_ref, payoff_ref, ww_ref

FAMILIES = {}
DT = {"float32": torch.float32, "float64": torch.float64}


def family(fn):
    FAMILIES[fn.__name__] = fn
    return fn


# ---------------------------------------------------------------------------
# clamps
# ---------------------------------------------------------------------------

TWO_SIDED_FORMS = ("tensor", "scalar", "zerodim", "broadcast", "mixed_tmin_fmax", "mixed_fmin_tmax")
ONE_SIDED_FORMS = ("min_only_tensor", "min_only_scalar", "max_only_tensor", "max_only_scalar")


def _clamp_cases(block):
    if "cases8" in block:
        return [tuple(c) for c in block["cases8"]]
    A = block["A8"]
    form = block["form"]
    if form.startswith("min_only"):
        return [(x, b, None) for b in A for x in A]
    if form.startswith("max_only"):
        return [(x, None, b) for b in A for x in A]
    return [(x, lo, hi) for lo in A for hi in A for x in A]


def _clamp_calls(cases, form, dtype):
    """Split the cases into calls (x tensor, min argument, max argument, cases in flattened output order)."""
    def t(vals, shape=None):
        out = torch.tensor([v / 8 for v in vals], dtype=dtype)
        return out if shape is None else out.reshape(shape)
    if form == "tensor":
        return [(t([c[0] for c in cases]), t([c[1] for c in cases]), t([c[2] for c in cases]), cases)]
    if form in ("min_only_tensor", "max_only_tensor"):
        x = t([c[0] for c in cases])
        if form == "min_only_tensor":
            return [(x, t([c[1] for c in cases]), None, cases)]
        return [(x, None, t([c[2] for c in cases]), cases)]
    # forms where the bounds are constant within a call: group by the (min, max) pair
    groups = {}
    for c in cases:
        groups.setdefault((c[1], c[2]), []).append(c)
    calls = []
    if form == "broadcast":
        xs = sorted({c[0] for c in cases})
        pairs = list(groups)
        full = all(sorted(g[0] for g in groups[p]) == xs for p in pairs)
        if not full:
            raise ValueError("broadcast form needs a product set of cases")
        x = t(xs, (len(xs), 1)).expand(len(xs), len(pairs)).contiguous()
        lo = t([p[0] for p in pairs])                       # (P,)
        hi = t([p[1] for p in pairs], (1, len(pairs)))      # (1, P)
        order = [(xv, p[0], p[1]) for xv in xs for p in pairs]
        return [(x, lo, hi, order)]
    for (lo, hi), g in groups.items():
        x = t([c[0] for c in g])
        n = len(g)
        if form == "scalar":
            a, b = lo / 8, hi / 8
        elif form == "zerodim":
            a, b = torch.tensor(lo / 8, dtype=dtype), torch.tensor(hi / 8, dtype=dtype)
        elif form == "mixed_tmin_fmax":
            a, b = t([lo] * n), hi / 8
        elif form == "mixed_fmin_tmax":
            a, b = lo / 8, t([hi] * n)
        elif form == "min_only_scalar":
            a, b = lo / 8, None
        elif form == "max_only_scalar":
            a, b = None, hi / 8
        else:
            raise KeyError(form)
        calls.append((x, a, b, g))
    return calls


def _clamp_invoke(entry, slope, inv, x, lo, hi):
    import pfhedge.nn.functional as F
    from pfhedge.nn import Clamp, LeakyClamp
    kw = {} if inv is None else {"inverted_output": inv}
    if entry == "clamp":
        return F.clamp(x, min=lo, max=hi, **kw)
    if entry == "leaky_clamp":
        if slope is not None:
            kw["clamped_slope"] = slope
        return F.leaky_clamp(x, min=lo, max=hi, **kw)
    if entry == "Clamp":
        return Clamp(**kw)(x, lo, hi)
    if entry == "LeakyClamp":
        if slope is not None:
            kw["clamped_slope"] = slope
        return LeakyClamp(**kw)(x, lo, hi)
    raise KeyError(entry)


@family
def clamp_grid(ctx, block):
    """Exactness: x, min, max are multiples of 1/8 with |.| <= 2; for slopes 0, 1/4, 1 every operation
    (difference, product with the slope, sum, max/min, mean of the bounds) is exact in float32 and float64.
    For the non-dyadic slope 0.01 (also the default) the clamped branch min + slope (x - min) carries the
    rounding of slope to the dtype (python scalar -> tensor dtype), of the product and of the sum:
    |err| <= eps (|slope (x - min)| * 2 + |result|) <= 4 eps (|x| + |min| + |max|)."""
    entry, slope, inv, form = block["entry"], block.get("slope"), block.get("inv"), block["form"]
    dtype = DT[block["dtype"]]
    eps = torch.finfo(dtype).eps
    cases = _clamp_cases(block)
    leaky = entry in ("leaky_clamp", "LeakyClamp")
    slope_eff = (0.01 if slope is None else slope) if leaky else 0
    inv_eff = "mean" if inv is None else inv
    exact = Fraction(slope_eff).denominator in (1, 2, 4, 8)
    tag = f"{inv_eff}{'' if inv is not None else '(default)'}:{form}"

    def mini(case_list):
        return {"entry": entry, "slope": slope, "inv": inv, "form": form, "dtype": block["dtype"],
                "cases8": [list(c) for c in case_list]}
    for x, lo, hi, order in _clamp_calls(cases, form, dtype):
        snap = x.clone()
        try:
            out = _clamp_invoke(entry, slope, inv, x, lo, hi)
        except Exception as e:  # the model defines a value for every enumerated case
            ctx.tick(len(order))
            ctx.violation(entry, f"raises:{type(e).__name__}:{tag}",
                          f"{entry}(x, min={_show(lo)}, max={_show(hi)}, slope={slope}, inverted_output={inv}) raised "
                          f"{type(e).__name__}: {str(e)[:160]}", observed=type(e).__name__, expected="a tensor",
                          block=mini(order if form == "broadcast" else order[:1]))
            continue
        regions = [helpers_ref.region(c[0], c[1], c[2]) for c in order]
        ctx.tick(len(order), nontrivial=sum(1 for r in regions if r != "inside"))
        if not torch.equal(snap, x):
            ctx.violation(entry, f"mutates_input:{tag}", "the input tensor was modified", block=mini(order[:1]))
        if tuple(out.shape) != tuple(x.shape):
            ctx.violation(entry, f"shape:{tag}", f"output shape {tuple(out.shape)} != input shape {tuple(x.shape)}",
                          observed=list(out.shape), expected=list(x.shape),
                          block=mini(order if form == "broadcast" else order[:1]))
            continue
        ol = out.reshape(-1).to(torch.float64).tolist()
        for i, c in enumerate(order):
            e = helpers_ref.leaky_clamp(Fraction(c[0], 8), None if c[1] is None else Fraction(c[1], 8),
                                        None if c[2] is None else Fraction(c[2], 8), Fraction(slope_eff), inv_eff)
            scale = (abs(c[0]) + abs(c[1] or 0) + abs(c[2] or 0)) / 8
            small = max(abs(c[0]), abs(c[1] or 0), abs(c[2] or 0)) <= 8 * 16
            if small:
                tol = 0 if exact else 4 * eps * scale
            elif regions[i] == "inverted":
                # 'max': the bound itself; 'mean': one rounded sum of two large bounds, halved
                tol = 0 if inv_eff == "max" else eps * scale
            elif regions[i] in ("inside", "at_min", "at_max", "pinched"):
                # the input itself comes back (maximum / minimum select it): exact.  Only the degenerate slope 1
                # goes through min + 1*(x - min), whose difference rounds at the scale of the bound.
                tol = 0 if slope_eff != 1 else 4 * eps * scale
            else:
                # below / above with large magnitudes: bound + slope * (x - bound), three roundings at that scale
                tol = 0 if slope_eff == 0 else 4 * eps * scale
            o = ol[i]
            if o != o or abs(Fraction(o) - e) > tol:
                ctx.violation(entry, f"{tag}:{regions[i]}",
                              f"{entry}(x={c[0] / 8}, min={_b(c[1])}, max={_b(c[2])}, slope={slope}, "
                              f"inverted_output={inv}) [{form}, {block['dtype']}] differs from the documented value",
                              observed=o, expected=float(e), block=mini([c] if form != "broadcast" else [c]))
        ctx.outcome((entry, tag, slope, round(sum(v for v in ol if v == v), 6)))
    if len(ctx.samples) < 2 and form == "tensor" and inv == "max" and leaky and len(cases) > 10:
        c = next(c for c in cases if c[1] is not None and c[2] is not None and c[1] > c[2])
        ctx.sample({"family": "clamp_grid", "entry": entry, "x": c[0] / 8, "min": c[1] / 8, "max": c[2] / 8,
                    "slope": slope, "inverted_output": inv, "documented_value": c[2] / 8})


def _b(v):
    return None if v is None else v / 8


def _show(v):
    if v is None or isinstance(v, float):
        return repr(v)
    return f"tensor{tuple(v.shape)}"


# ---------------------------------------------------------------------------
# Whalley-Wilmott
# ---------------------------------------------------------------------------

def _ww_cases(block):
    if "cases" in block:
        return [tuple(c) for c in block["cases"]]
    return [(s, t, v, p) for s in block["s"] for t in block["t"] for v in block["v"] for p in block["prev"]
            if not (s == 0 and t * v == 0)]


def _ww_cls(call, region, cost, a, strike, limit):
    return (f"{'call' if call else 'put'}:{region}:{'zero_cost' if cost == 0 else 'cost>0'}:"
            f"{'a=1' if a == 1 else ('a<1' if a < 1 else 'a>1')}:{'K=1' if strike == 1 else 'K!=1'}"
            f"{':at_expiry_or_zero_vol' if limit else ''}")


@family
def ww_band(ctx, block):
    """Tolerance (derived).  delta = N(d1): d1 = s/(v sqrt t) + v sqrt t/2 carries a relative error of
    about 3 eps, the normal cdf an absolute error of a few eps, so |err delta| <= eps (4 + 3 |d1| n(d1)) <= 8 eps.
    gamma = n(d1)/(S v sqrt t): n(d1) = exp(-d1^2/2) has relative error d1^2 * 3 eps + 2 eps, the denominator
    4 eps; w ~ gamma^(2/3) S^(1/3) inherits 2/3 of that plus the cube root (2 eps):
    |err w| <= w eps (2 d1^2 + 8).  The band edge delta +- w adds one rounding.  A factor 2 for safety gives
    tol = eps (16 + w (4 d1^2 + 32)); the same bound (without the 16 eps) is used for width().
    Clamping is 1-Lipschitz in its bounds, so the output inherits the bound whatever the region; when the
    previous hedge is within tol of an edge both answers agree within tol."""
    from pfhedge.instruments import BrownianStock, EuropeanOption
    from pfhedge.nn import BlackScholes, WhalleyWilmott
    dtype = DT[block["dtype"]]
    eps = torch.finfo(dtype).eps
    tiny = torch.finfo(dtype).tiny
    call, strike, cost, a = block["call"], block["strike"], block["cost"], block["a"]
    cases = _ww_cases(block)
    N = len(cases)
    stock = BrownianStock(cost=cost, dtype=dtype)
    kw = {}
    if not (call and block.get("defaults")):
        kw["call"] = call
    if not (strike == 1.0 and block.get("defaults")):
        kw["strike"] = strike
    deriv = EuropeanOption(stock, **kw)
    m = WhalleyWilmott(deriv) if (a == 1.0 and block.get("defaults")) else WhalleyWilmott(deriv, a=a)
    x = torch.tensor(cases, dtype=dtype)
    layout = block.get("layout", "flat")
    xin = x if layout == "flat" else x.reshape(1, N, 4).expand(2, N, 4).contiguous()
    snap = xin.clone()
    with torch.no_grad():
        out = m(xin)
        width = m.width(xin[..., :-1])
        bs = BlackScholes(deriv)(xin[..., :-1]) if cost == 0 else None
    site = "WhalleyWilmott.forward"

    def mini(c):
        return {"call": call, "strike": strike, "cost": cost, "a": a, "dtype": block["dtype"], "cases": [list(c)],
                "layout": layout, "defaults": block.get("defaults", False)}
    want = (N, 1) if layout == "flat" else (2, N, 1)
    if tuple(out.shape) != want or tuple(width.shape) != want:
        ctx.violation(site, "shape", f"output {tuple(out.shape)}, width {tuple(width.shape)}; expected {want}",
                      observed=[list(out.shape), list(width.shape)], expected=list(want), block=mini(cases[0]))
        ctx.tick(N)
        return
    if not torch.equal(snap, xin):
        ctx.violation(site, "mutates_input", "the input tensor was modified", block=mini(cases[0]))
    if layout != "flat":
        if not (torch.equal(out[0], out[1]) and torch.equal(width[0], width[1])):
            ctx.violation(site, "batch_dependence", "identical rows of a 3-d input give different outputs",
                          block=mini(cases[0]))
        out, width = out[0], width[0]
        bs = None if bs is None else bs[0]
    ol = out[:, 0].to(torch.float64).tolist()
    wl = width[:, 0].to(torch.float64).tolist()
    xl = x.to(torch.float64).tolist()
    nt = 0
    cache = {}
    for i in range(N):
        s, t, v, prev = xl[i]                      # the values the module actually saw (rounded to the dtype)
        key = (s, t, v)
        if key not in cache:
            cache[key] = ww_ref.ww_european(s, t, v, 0.0, strike, cost, a, call)
        r = cache[key]
        new, region = ww_ref.band_move(prev, r["delta"], r["width"])
        limit = t * v == 0
        d1sq = 0 if limit else float(r["d1"]) ** 2
        w = float(r["width"])
        # Gamma^2 may underflow (|d1| large): an absolute error <= tiny(dtype) in Gamma^2 moves the cube root
        # by at most cbrt(3 c tiny S / (2a))   (|cbrt(x + d) - cbrt(x)| <= cbrt(|d|))
        floor = float(ww_ref.half_width(1.0, r["spot"], cost * tiny, a)) if cost > 0 else 0.0
        tol = eps * (16 + w * (4 * d1sq + 32)) + floor
        if cost > 0 and w > 1e-4:
            nt += 1
        ctx.outcome((region, cost == 0, call))
        if ol[i] != ol[i] or abs(mp.mpf(ol[i]) - new) > tol:
            ctx.violation(site, _ww_cls(call, region, cost, a, strike, limit),
                          f"WhalleyWilmott(EuropeanOption({'call' if call else 'put'}, K={strike}), a={a}), cost={cost}: "
                          f"input (s,t,v,prev)={xl[i]} -> {ol[i]!r}; band delta={float(r['delta']):.12g} "
                          f"+- {w:.12g}", observed=ol[i], expected=float(new), block=mini(cases[i]))
        wtol = eps * w * (4 * d1sq + 32) + floor + 1e-300
        if wl[i] != wl[i] or abs(mp.mpf(wl[i]) - r["width"]) > wtol:
            ctx.violation("WhalleyWilmott.width", _ww_cls(call, "width", cost, a, strike, limit),
                          f"width() at (s,t,v)={xl[i][:3]}, K={strike}, cost={cost}, a={a}: {wl[i]!r}",
                          observed=wl[i], expected=w, block=mini(cases[i]))
    ctx.tick(N, nontrivial=nt)
    if bs is not None:
        ctx.add("zero_cost_bitwise_vs_black_scholes", N)
        same = (out == bs) | (out.isnan() & bs.isnan())
        if not bool(same.all()):
            i = int((~same).reshape(-1).nonzero()[0])
            ctx.violation(site, f"zero_cost_not_bs_delta:{'call' if call else 'put'}",
                          f"cost=0 but output {ol[i]!r} != BlackScholes delta {float(bs.reshape(-1)[i])!r} at {xl[i]}",
                          observed=ol[i], expected=float(bs.reshape(-1)[i]), block=mini(cases[i]))
    if len(ctx.samples) < 4 and cost > 0 and N > 10:
        for i in range(N):
            s, t, v, prev = xl[i]
            r = cache[(s, t, v)]
            if float(r["width"]) > 0.02 and prev < float(r["delta"] - r["width"]):
                ctx.sample({"family": "ww_band", "call": call, "strike": strike, "cost": cost, "a": a,
                            "input(s,t,v,prev)": xl[i], "reference_delta": float(r["delta"]),
                            "reference_gamma": float(r["gamma"]), "reference_half_width": float(r["width"]),
                            "module_output": ol[i], "reference_output": float(r["delta"] - r["width"])})
                break


@family
def ww_cost_history(ctx, block):
    """ONE WhalleyWilmott module re-used while the cost rate of the underlier is changed (a cost sweep):
    after every assignment stock.cost = c the module must hedge with the band for the CURRENT cost
    (c = 0: bitwise the BlackScholes delta).  Every sequence of <= depth costs; reference and tolerance as in
    ww_band."""
    from pfhedge.instruments import BrownianStock, EuropeanOption
    from pfhedge.nn import BlackScholes, WhalleyWilmott
    dtype = DT[block["dtype"]]
    eps, tiny = torch.finfo(dtype).eps, torch.finfo(dtype).tiny
    call, strike, a = block["call"], block["strike"], block["a"]
    cases = _ww_cases(block)
    x = torch.tensor(cases, dtype=dtype)
    xl = x.to(torch.float64).tolist()
    histories = block.get("histories")
    if histories is None:
        histories = [list(h) for n in range(1, block["depth"] + 1)
                     for h in itertools.product(block["costs"], repeat=n)]
    site = "WhalleyWilmott.forward"
    refs = {}
    for hist in histories:
        stock = BrownianStock(cost=hist[0], dtype=dtype)
        deriv = EuropeanOption(stock, call=call, strike=strike)
        m = WhalleyWilmott(deriv, a=a)
        for step, cost in enumerate(hist):
            if step > 0:
                stock.cost = cost
                ctx.add("transitions", 1)
            with torch.no_grad():
                out = m(x)
                bs = BlackScholes(deriv)(x[..., :-1]) if cost == 0 else None
            ol = out[:, 0].to(torch.float64).tolist()
            changed = step > 0 and cost != hist[step - 1]
            ctx.tick(len(cases), nontrivial=len(cases) if changed else 0)
            tag = "cost_history:" + ">".join("zero" if c == 0 else "positive" for c in hist[:step + 1])
            for i in range(len(cases)):
                s_, t_, v_, prev = xl[i]
                key = (s_, t_, v_, cost)
                if key not in refs:
                    refs[key] = ww_ref.ww_european(s_, t_, v_, 0.0, strike, cost, a, call)
                r = refs[key]
                new, region = ww_ref.band_move(prev, r["delta"], r["width"])
                d1sq = 0 if t_ * v_ == 0 else float(r["d1"]) ** 2
                w = float(r["width"])
                floor = float(ww_ref.half_width(1.0, r["spot"], cost * tiny, a)) if cost > 0 else 0.0
                tol = eps * (16 + w * (4 * d1sq + 32)) + floor
                if ol[i] != ol[i] or abs(mp.mpf(ol[i]) - new) > tol:
                    ctx.violation(site, f"{tag}:{region}",
                                  f"one WhalleyWilmott module after the underlier's cost went through {hist[:step + 1]}: "
                                  f"input {xl[i]} -> {ol[i]!r}, band for the current cost {cost}: "
                                  f"{float(r['delta']):.12g} +- {w:.12g}", observed=ol[i], expected=float(new),
                                  block={"call": call, "strike": strike, "a": a, "dtype": block["dtype"],
                                         "cases": [cases[i]], "histories": [hist[:step + 1]]})
                    break
            if bs is not None and not torch.equal(out, bs):
                i = int((out != bs).reshape(-1).nonzero()[0])
                ctx.violation(site, f"{tag}:zero_cost_not_bs_delta",
                              f"cost history {hist[:step + 1]} (now 0): output {ol[i]!r} != BlackScholes delta "
                              f"{float(bs.reshape(-1)[i])!r} at {xl[i]}", observed=ol[i], expected=float(bs.reshape(-1)[i]),
                              block={"call": call, "strike": strike, "a": a, "dtype": block["dtype"],
                                     "cases": [cases[i]], "histories": [hist[:step + 1]]})
            ctx.outcome((tuple(hist[:step + 1]), round(sum(ol), 9)))
        ctx.add("traces_validated_against_impl", 1)


@family
def ww_width_fn(ctx, block):
    """(3 c G^2 S/(2a))^(1/3): five roundings before the power, the power itself ~2 ulp -> 8 eps relative."""
    import pfhedge.nn.functional as F
    dtype = DT[block["dtype"]]
    eps = torch.finfo(dtype).eps
    cases = block.get("cases") or [[g, s, c, a] for g in block["gammas"] for s in block["spots"]
                                   for c in block["costs"] for a in block["as"]]
    form = block["form"]
    outs = []
    if form == "tensor_params":
        g, s, c, a = (torch.tensor([k[j] for k in cases], dtype=dtype) for j in range(4))
        outs = F.ww_width(g, s, c, a).to(torch.float64).tolist()
        seen = [[float(v) for v in row] for row in zip(g.tolist(), s.tolist(), c.tolist(), a.tolist())]
    else:
        seen = []
        groups = {}
        for k in cases:
            groups.setdefault((k[2], k[3]), []).append(k)
        for (c, a), grp in groups.items():
            g = torch.tensor([k[0] for k in grp], dtype=dtype)
            s = torch.tensor([k[1] for k in grp], dtype=dtype)
            if a == 1.0 and form == "float_params_default_a":
                o = F.ww_width(g, s, c)
            else:
                o = F.ww_width(gamma=g, spot=s, cost=c, a=a)
            outs += o.to(torch.float64).tolist()
            seen += [[float(gv), float(sv), c, a] for gv, sv in zip(g.tolist(), s.tolist())]
    ctx.tick(len(cases), nontrivial=sum(1 for k in seen if k[2] > 0 and k[0] != 0))
    for o, k in zip(outs, seen):
        e = ww_ref.half_width(k[0], k[1], k[2], k[3])
        if o != o or abs(mp.mpf(o) - e) > 8 * eps * e + 1e-300:
            ctx.violation("functional.ww_width", f"{'a=1' if k[3] == 1 else ('a<1' if k[3] < 1 else 'a>1')}:"
                          f"{'zero_cost' if k[2] == 0 else 'cost>0'}:{form}",
                          f"ww_width(gamma={k[0]}, spot={k[1]}, cost={k[2]}, a={k[3]}) = {o!r}",
                          observed=o, expected=float(e),
                          block={"dtype": block["dtype"], "form": form, "cases": [k]})
    ctx.outcome((form, round(sum(outs), 9)))


@family
def ww_struct(ctx, block):
    """Other option classes: the band is built on the module's own delta and gamma (those are C07/C08's
    business); what is decided here is the wiring: width from (cost of the underlier, a, strike*exp(s), gamma)
    and the move of the previous hedge.  The module and the model use the same float delta/gamma, so the
    only differences are the roundings of the width (8 eps relative) and of the edge: tol = 16 eps (1 + |delta| + w)."""
    import pfhedge.instruments as I
    from pfhedge.nn import WhalleyWilmott
    dtype = DT[block["dtype"]]
    eps = torch.finfo(dtype).eps
    kind, call, strike, cost, a = block["kind"], block["call"], block["strike"], block["cost"], block["a"]
    cls = {"european": I.EuropeanOption, "european_binary": I.EuropeanBinaryOption,
           "american_binary": I.AmericanBinaryOption, "lookback": I.LookbackOption}[kind]
    stock = I.BrownianStock(cost=cost, dtype=dtype)
    deriv = cls(stock, call=call, strike=strike)
    m = WhalleyWilmott(deriv, a=a)
    names = m.inputs()
    if "cases" in block:
        cases = [list(c) for c in block["cases"]]
    else:
        cases = []
        for s, t, v, p in itertools.product(block["s"], block["t"], block["v"], block["prev"]):
            if "max_log_moneyness" in names:
                for up in block["up"]:
                    cases.append([s, s + up, t, v, p])   # running maximum >= current level
            else:
                cases.append([s, t, v, p])
    if names[-1] != "prev_hedge" or len(names) != len(cases[0]):
        ctx.violation("WhalleyWilmott.inputs", f"{kind}", f"inputs() = {names}", observed=names,
                      expected="[*BlackScholes(derivative).inputs(), 'prev_hedge']", block=block)
        return
    x = torch.tensor(cases, dtype=dtype)
    N = len(cases)
    out = m(x)
    cols = [x[:, [i]] for i in range(x.size(1) - 1)]
    delta = m.bs(x[:, :-1]).detach().to(torch.float64)[:, 0].tolist()
    gamma = m.bs.gamma(*cols).detach().to(torch.float64)[:, 0].tolist()
    ctx.tick(N, nontrivial=N if cost > 0 else 0)
    if tuple(out.shape) != (N, 1):
        ctx.violation("WhalleyWilmott.forward", f"shape:{kind}", f"shape {tuple(out.shape)}", observed=list(out.shape),
                      expected=[N, 1], block=block)
        return
    ol = out.detach().to(torch.float64)[:, 0].tolist()
    xl = x.to(torch.float64).tolist()
    for i in range(N):
        if delta[i] != delta[i] or gamma[i] != gamma[i] or abs(gamma[i]) == float("inf"):
            ctx.add("struct_cases_skipped_nonfinite_greeks", 1)
            continue
        spot = mp.mpf(strike) * mp.exp(mp.mpf(xl[i][0]))
        w = ww_ref.half_width(gamma[i], spot, cost, a)
        new, region = ww_ref.band_move(xl[i][-1], mp.mpf(delta[i]), w)
        tol = 16 * eps * (1 + abs(delta[i]) + float(w))
        ctx.outcome((kind, region))
        if ol[i] != ol[i] or abs(mp.mpf(ol[i]) - new) > tol:
            mini = dict(block)
            mini.pop("s", None)
            mini["cases"] = [cases[i]]
            ctx.violation("WhalleyWilmott.forward", f"{kind}:{region}:{'zero_cost' if cost == 0 else 'cost>0'}",
                          f"WhalleyWilmott({cls.__name__}(K={strike}), a={a}), cost={cost}, input {xl[i]}: output "
                          f"{ol[i]!r}, module delta {delta[i]!r}, module gamma {gamma[i]!r}", observed=ol[i],
                          expected=float(new), block=mini)


# ---------------------------------------------------------------------------
# SVI
# ---------------------------------------------------------------------------

@family
def svi(ctx, block):
    """Tolerance: the reference takes the parameter values as the exact doubles they are (dyadic alphabet:
    exact in both dtypes; non-dyadic alphabet: float64 only).  k-m, the two squares, their sum, the correctly
    rounded sqrt, rho (k-m), the inner sum, the product with b and the sum with a round once each (<= eps/2 of
    a term bounded by mag = |a| + |b| (|rho (k-m)| + sqrt(.))):  |err| <= 4.5 eps mag; used as 8 eps mag, i.e.
    a few ulp of the output dtype - a parameter that went through float32 on its way shows as ~1e-8.
    ``default_dtype`` runs the block under that global default dtype (restored afterwards)."""
    want = block.get("default_dtype")
    if want is None:
        return _svi(ctx, block)
    before = torch.get_default_dtype()
    torch.set_default_dtype(DT[want])
    try:
        return _svi(ctx, block)
    finally:
        torch.set_default_dtype(before)


def _svi(ctx, block):
    import pfhedge.nn.functional as F
    from pfhedge.nn import SVIVariance
    form = block["form"]
    dtype = DT[block["dtype"]]
    if "cases" in block:
        cases = [tuple(c) for c in block["cases"]]
    else:
        cases = [(k, a, b, rho, m, sg) for a in block["a"] for b in block["b"] for rho in block["rho"]
                 for m in block["m"] for sg in block["sigma"] for k in block["k"]]
    results = []
    if form == "fn_tensor":
        cols = [torch.tensor([c[j] for c in cases], dtype=dtype) for j in range(6)]
        out = F.svi_variance(cols[0], a=cols[1], b=cols[2], rho=cols[3], m=cols[4], sigma=cols[5])
        results = list(zip(cases, out.to(torch.float64).tolist(), [out.dtype] * len(cases)))
        if tuple(out.shape) != (len(cases),):
            ctx.violation("functional.svi_variance", "shape", f"shape {tuple(out.shape)}", block=block)
            return
    else:
        groups = {}
        for c in cases:
            groups.setdefault(c[1:], []).append(c)
        for params, grp in groups.items():
            a, b, rho, m, sg = params
            if form == "fn_scalar_input":
                for c in grp:
                    out = F.svi_variance(c[0], a, b, rho, m, sg)
                    results.append((c, float(out), out.dtype))
                continue
            k = torch.tensor([c[0] for c in grp], dtype=dtype)
            if form == "fn_float":
                out = F.svi_variance(k, a=a, b=b, rho=rho, m=m, sigma=sg)
            elif form == "module":
                out = SVIVariance(a, b, rho, m, sg)(k)
            elif form == "module_tensor_params":
                out = SVIVariance(*(torch.tensor(p, dtype=dtype) for p in params))(k)
            else:
                raise KeyError(form)
            if tuple(out.shape) != (len(grp),):
                ctx.violation("SVIVariance" if form.startswith("module") else "functional.svi_variance", "shape",
                              f"shape {tuple(out.shape)}", block=block)
                return
            results += list(zip(grp, out.to(torch.float64).tolist(), [out.dtype] * len(grp)))
    site = "SVIVariance" if form.startswith("module") else "functional.svi_variance"
    ctx.tick(len(results), nontrivial=sum(1 for c, _, _ in results if c[0] != c[4] and c[3] != 0))
    for c, o, odt in results:
        e, mag = helpers_ref.svi_variance(*c)
        tol = 8 * torch.finfo(odt).eps * mag
        if o != o or abs(mp.mpf(o) - e) > tol:
            wing = "k=m" if c[0] == c[4] else ("k<m" if c[0] < c[4] else "k>m")
            sg = "sigma>0" if c[5] > 0 else ("sigma=0" if c[5] == 0 else "sigma<0")
            f32ok = all(float(torch.tensor(v, dtype=torch.float32)) == v for v in c[1:])
            ctx.violation(site, f"{form}:{wing}:{'rho=0' if c[3] == 0 else 'rho!=0'}:{sg}"
                          + ("" if f32ok else ":params_not_float32_representable")
                          + (f":default_{block['default_dtype']}" if block.get("default_dtype") else ""),
                          f"svi variance at k={c[0]}, a={c[1]}, b={c[2]}, rho={c[3]}, m={c[4]}, sigma={c[5]}: {o!r}",
                          observed=o, expected=float(e),
                          block={"form": form, "dtype": block["dtype"], "cases": [list(c)],
                                 "default_dtype": block.get("default_dtype")})
    ctx.outcome((form, block["dtype"], block.get("default_dtype"), round(sum(o for _, o, _ in results), 9)))
    if len(ctx.samples) < 5 and form == "module" and len(cases) > 10:
        c, o, _ = results[len(results) // 2 + 1]
        ctx.sample({"family": "svi", "k,a,b,rho,m,sigma": list(c), "module_output": o,
                    "reference": float(helpers_ref.svi_variance(*c)[0])})


# ---------------------------------------------------------------------------
# bilerp
# ---------------------------------------------------------------------------

@family
def bilerp(ctx, block):
    """Values are multiples of 1/2 with |.| <= 2 and weights multiples of 1/4: every intermediate of any
    evaluation order of the bilinear form is a multiple of 1/32 below 2^5 - exact in float32/float64."""
    import pfhedge.nn.functional as F
    dtype = DT[block["dtype"]]
    form = block["form"]
    if "cases" in block:
        cases = [tuple(c) for c in block["cases"]]
    else:
        cases = [(x1, x2, x3, x4, w1, w2) for w1 in block["ws"] for w2 in block["ws"]
                 for x1 in block["xs"] for x2 in block["xs"] for x3 in block["xs"] for x4 in block["xs"]]
    results = []
    if form == "tensor_w":
        cols = [torch.tensor([c[j] for c in cases], dtype=dtype) for j in range(6)]
        out = F.bilerp(*cols)
        results = list(zip(cases, out.to(torch.float64).tolist()))
    elif form == "broadcast":
        # inputs of shapes (n,1,1,1), (n,1,1), (n,1), (n,) broadcast to the full product
        xs = sorted({c[0] for c in cases})
        n = len(xs)
        groups = {}
        for c in cases:
            groups.setdefault(c[4:], []).append(c)
        t = torch.tensor(xs, dtype=dtype)
        for (w1, w2), grp in groups.items():
            if len(grp) != n ** 4:
                raise ValueError("broadcast form needs the full product")
            out = F.bilerp(t.reshape(n, 1, 1, 1), t.reshape(n, 1, 1), t.reshape(n, 1), t, w1, w2)
            if tuple(out.shape) != (n, n, n, n):
                ctx.violation("functional.bilerp", "shape:broadcast", f"shape {tuple(out.shape)}", block=block)
                return
            order = [(a, b, c, d, w1, w2) for a in xs for b in xs for c in xs for d in xs]
            results += list(zip(order, out.reshape(-1).to(torch.float64).tolist()))
    elif form in ("float_w1_tensor_w2", "tensor_w1_float_w2"):
        # one weight a python number, the other a tensor (packed over its values)
        fi = 4 if form == "float_w1_tensor_w2" else 5
        groups = {}
        for c in cases:
            groups.setdefault(c[fi], []).append(c)
        for wf, grp in groups.items():
            cols = [torch.tensor([c[j] for c in grp], dtype=dtype) for j in range(4)]
            wt = torch.tensor([c[9 - fi] for c in grp], dtype=dtype)
            out = F.bilerp(*cols, wf, wt) if fi == 4 else F.bilerp(*cols, wt, wf)
            results += list(zip(grp, out.to(torch.float64).tolist()))
    else:
        groups = {}
        for c in cases:
            groups.setdefault(c[4:], []).append(c)
        for (w1, w2), grp in groups.items():
            cols = [torch.tensor([c[j] for c in grp], dtype=dtype) for j in range(4)]
            out = F.bilerp(*cols, w1, w2)
            results += list(zip(grp, out.to(torch.float64).tolist()))
    ctx.tick(len(results), nontrivial=sum(1 for c, _ in results if c[4] != c[5] and len(set(c[:4])) > 2))
    for c, o in results:
        e = helpers_ref.bilerp(*c)
        if o != o or Fraction(o) != e:
            kind = "extrapolating" if max(c[4], c[5]) > 1 else ("corner" if {c[4], c[5]} <= {0.0, 1.0} else "interior")
            ctx.violation("functional.bilerp", f"{form}:{kind}:{'w1=w2' if c[4] == c[5] else 'w1!=w2'}",
                          f"bilerp{c[:4]} with weights {c[4:]} = {o!r}", observed=o, expected=float(e),
                          block={"form": "float_w" if form == "broadcast" else form, "dtype": block["dtype"],
                                 "cases": [list(c)]})
    ctx.outcome((form, block["dtype"], round(sum(o for _, o in results), 6)))


# ---------------------------------------------------------------------------
# Box-Muller
# ---------------------------------------------------------------------------

@family
def box_muller(ctx, block):
    """Tolerance: angle = 2 pi u2 carries a relative error eps (rounded constant, one product), so cos/sin are
    off by <= eps (angle + 1); the radius sqrt(-2 log u) carries <= 2 eps relative; the product one more:
    |err| <= eps r (angle + 4); used with a factor 2.  u1 = 1 gives radius 0: exact zero."""
    import pfhedge.nn.functional as F
    dtype = DT[block["dtype"]]
    eps = torch.finfo(dtype).eps
    cases = block.get("cases") or [[a, b] for a in block["u1"] for b in block["u2"]]
    u1 = torch.tensor([c[0] for c in cases], dtype=dtype)
    u2 = torch.tensor([c[1] for c in cases], dtype=dtype)
    e_arg = block.get("epsilon")
    z1, z2 = F.box_muller(u1, u2) if e_arg is None else F.box_muller(u1, u2, epsilon=e_arg)
    e_eff = 1e-10 if e_arg is None else e_arg
    N = len(cases)
    if tuple(z1.shape) != (N,) or tuple(z2.shape) != (N,):
        ctx.violation("functional.box_muller", "shape", f"shapes {tuple(z1.shape)}, {tuple(z2.shape)}", block=block)
        return
    a1, a2 = u1.to(torch.float64).tolist(), u2.to(torch.float64).tolist()
    o1, o2 = z1.to(torch.float64).tolist(), z2.to(torch.float64).tolist()
    ctx.tick(N, nontrivial=sum(1 for v in a1 if v < e_eff or v == 1.0))
    for i in range(N):
        r1, r2, rad = helpers_ref.box_muller(a1[i], a2[i], e_eff)
        tol = 2 * eps * rad * (2 * mp.pi * a2[i] + 4)
        for j, (o, e) in enumerate(((o1[i], r1), (o2[i], r2))):
            if o != o or abs(mp.mpf(o) - e) > tol:
                where = "u1<epsilon" if a1[i] < e_eff else ("u1=1" if a1[i] == 1.0 else "u1_interior")
                ctx.violation("functional.box_muller", f"{where}:output{j + 1}:{'default_eps' if e_arg is None else 'eps_given'}",
                              f"box_muller(u1={a1[i]!r}, u2={a2[i]!r}, epsilon={e_arg})[{j}] = {o!r}", observed=o,
                              expected=float(e), block={"dtype": block["dtype"], "epsilon": e_arg,
                                                        "cases": [[a1[i], a2[i]]]})
    ctx.outcome((block["dtype"], e_arg, round(sum(o1) + sum(o2), 6)))


# ---------------------------------------------------------------------------
# realized variance / volatility
# ---------------------------------------------------------------------------

@family
def realized(ctx, block):
    """Variance tolerance as derived in c12.variance_swap (without the strike):
    tol_var = 2 eps (2 scale + (n + 4) v).  Volatility = sqrt(variance): first-order propagation
    tol_vol = tol_var / (2 vol) + eps vol; a constant path has variance exactly 0 (identical logarithms)."""
    import pfhedge.nn.functional as F
    dtype = DT[block["dtype"]]
    eps = torch.finfo(dtype).eps
    if "paths16" in block:
        paths = [list(p) for p in block["paths16"]]
    else:
        paths = [list(p) for p in itertools.product(block["A16"], repeat=block["T"])]
    N, T = len(paths), len(paths[0])
    x = torch.tensor(paths, dtype=torch.int64).to(dtype) / 16
    frp = [[Fraction(v, 16) for v in p] for p in paths]
    form = block.get("dt_form", "float")
    # 'per_path': dt is a tensor of shape (N,), one step size per path (documented type: Tensor or float; the
    # output shape is (*), so a (*)-shaped dt divides path i's mean squared log-return by dt_i); the step sizes
    # cycle through the dt alphabet so that neighbouring paths differ.  Run with N == T-1 and N != T-1.
    settings = [block["dts"]] if form == "per_path" else [[dt] for dt in block["dts"]]
    for dts in settings:
        per_path = [dts[i % len(dts)] for i in range(N)]
        dt = dts[0] if form != "per_path" else per_path
        ref = [payoff_ref.realized_variance(p, per_path[i]) for i, p in enumerate(frp)]
        if form == "float":
            dta = dt
        elif form == "tensor":
            dta = torch.tensor(dt, dtype=dtype)
        else:
            dta = torch.tensor(per_path, dtype=dtype)
        layout = block.get("layout", "flat")
        xin = x if layout == "flat" else x.reshape(1, N, T)
        try:
            var = F.realized_variance(xin, dt=dta)
            vol = F.realized_volatility(xin, dt=dta)
        except RuntimeError as e:
            if form != "per_path":
                raise
            ctx.tick(N)
            ctx.violation("functional.realized_variance", f"raises:RuntimeError:dt_per_path:{'N=T-1' if N == T - 1 else 'N!=T-1'}",
                          f"realized_variance(input{tuple(xin.shape)}, dt=tensor{tuple(dta.shape)}) raised: {str(e)[:160]}",
                          observed="RuntimeError", expected=f"tensor of shape ({N},)", block=dict(block))
            continue
        want = (N,) if layout == "flat" else (1, N)

        def mini(path):
            if form == "per_path":
                return dict(block)       # the defect depends on N vs T-1: keep the whole (small) path set
            return {"dtype": block["dtype"], "paths16": [path], "dts": [dt], "dt_form": form, "layout": layout}
        for site, out in (("functional.realized_variance", var), ("functional.realized_volatility", vol)):
            ctx.tick(N, nontrivial=sum(1 for p in paths if len(set(p)) > 1))
            if tuple(out.shape) != want:
                ctx.violation(site, "shape", f"shape {tuple(out.shape)} for input {tuple(xin.shape)}",
                              observed=list(out.shape), expected=list(want), block=mini(paths[0]))
                continue
            ol = out.reshape(-1).to(torch.float64).tolist()
            for i in range(N):
                v, scale = ref[i]
                tol_var = 2 * eps * (2 * scale + (T + 3) * v)
                if site.endswith("variance"):
                    e, tol = v, tol_var
                else:
                    e = mp.sqrt(v)
                    tol = 0 if v == 0 else tol_var / (2 * e) + eps * e
                if ol[i] != ol[i] or abs(mp.mpf(ol[i]) - e) > tol:
                    const = len(set(paths[i])) == 1
                    ctx.violation(site, ("constant_path" if const else f"moving_path:T={'2' if T == 2 else '>2'}") + f":dt_{form}"
                                  + ((":N=T-1" if N == T - 1 else ":N!=T-1") if form == "per_path" else ""),
                                  f"{site.split('.')[-1]}(path/16={paths[i]}, dt={per_path[i]!r}"
                                  f"{' (entry %d of a per-path dt)' % i if form == 'per_path' else ''}) = {ol[i]!r}", observed=ol[i],
                                  expected=float(e), block=mini(paths[i]))
                    break
            ctx.outcome((site, dts[0], form, N, round(sum(ol), 6)))


# ---------------------------------------------------------------------------

def run(ctx):
    ctx.rule("clamps: every (x, min, max) triple over the bound alphabet (ordered, tied, inverted; one-sided: "
             "every (x, bound)) x entry point x slope x inverted_output (default, mean, max) x bound form x dtype; "
             "non-trivial = not strictly inside (a bound is active, tied or the bounds are inverted). "
             "Whalley-Wilmott: full (log-moneyness, maturity, volatility, previous hedge) grid x cost x risk "
             "aversion x strike x call/put; non-trivial = positive cost and half-width > 1e-4. "
             "Helpers: full products of the stated alphabets")
    ctx.assume("clamp alphabets are multiples of 1/8: comparison is exact for slopes 0, 1/4, 1; 4 eps(|x|+|min|+|max|) "
               "for slope 0.01")
    ctx.assume("Whalley-Wilmott reference: textbook Black-Scholes delta/gamma in mpmath (40 digits), tolerance "
               "eps (16 + w (4 d1^2 + 32)); the point s = 0 with t*v = 0 (Dirac gamma) is not enumerated; for the "
               "non-European classes delta and gamma are taken from the module's own pricer (C07/C08)")
    ctx.assume("slopes outside [0, 1], NaN inputs, bounds of a dtype different from the input are not enumerated")
    # ---------------- clamps
    A = [-8, -4, 0, 4, 8]
    extra = ctx.extra_symbol("clamp", [-12, -6, -2, 2, 6, 12, 16])
    A6 = sorted(set(A + [extra]))
    ctx.alphabet("clamp x,min,max (/8)", A6)
    slopes = [None, 0.0, 0.01, 0.25, 1.0]
    ctx.alphabet("slopes", ["default(0.01)", 0.0, 0.01, 0.25, 1.0])
    for entry in ("clamp", "leaky_clamp", "Clamp", "LeakyClamp"):
        leaky = entry in ("leaky_clamp", "LeakyClamp")
        for slope in (slopes if leaky else [None]):
            for inv in (None, "mean", "max"):
                for form in TWO_SIDED_FORMS + ONE_SIDED_FORMS:
                    for dtype in ("float64", "float32"):
                        if dtype == "float32" and form not in ("tensor", "scalar", "min_only_scalar"):
                            continue
                        alpha = A6 if (form in ("tensor", "broadcast") or ctx.thorough) else A
                        ctx.run("clamp_grid", {"entry": entry, "slope": slope, "inv": inv, "form": form,
                                               "dtype": dtype, "A8": alpha})
    # large magnitudes (1e4 .. 1e8, exactly representable in float32) mixed with small ones: a bound must not be
    # lost by rounding against a far larger or far smaller operand; ordered, tied and inverted as before
    A_large = [-800000000, -131072, -8, 4, 80000, 536870912, 800000000]   # /8: -1e8, -2^14, -1, 1/2, 1e4, 2^26, 1e8
    ctx.alphabet("clamp large x,min,max (/8)", A_large)
    for entry in ("clamp", "leaky_clamp", "Clamp", "LeakyClamp"):
        leaky = entry in ("leaky_clamp", "LeakyClamp")
        for slope in (slopes if leaky else [None]):
            for inv in (None, "mean", "max"):
                for form in ("tensor", "scalar", "min_only_tensor", "max_only_scalar"):
                    for dtype in ("float32", "float64"):
                        if form != "tensor" and (dtype == "float64" or entry in ("clamp", "Clamp")) and ctx.quick:
                            continue
                        ctx.run("clamp_grid", {"entry": entry, "slope": slope, "inv": inv, "form": form,
                                               "dtype": dtype, "A8": A_large})
    # ---------------- Whalley-Wilmott
    s_grid = [-0.2, -0.05, 0.0, 0.03, 0.15]
    t_grid = [0.0, 1 / 256, 0.1, 0.25, 1.0]
    v_grid = [0.1, 0.2, 0.5]
    prev_grid = [-1.25, -0.5, 0.0, 0.3, 0.5, 0.7, 1.0, 1.5]
    if ctx.thorough:
        s_grid = [-0.5, -0.2, -0.1, -0.05, -0.01, 0.0, 0.01, 0.03, 0.08, 0.15, 0.4]
        t_grid = [0.0, 1 / 256, 0.02, 0.1, 0.25, 0.5, 1.0, 2.0]
        v_grid = [0.0, 0.05, 0.1, 0.2, 0.5, 1.0]
        prev_grid = [-1.25, -1.0, -0.75, -0.5, -0.25, -0.1, 0.0, 0.1, 0.2, 0.3, 0.4, 0.5, 0.6, 0.7, 0.8, 0.9, 1.0, 1.25, 1.5]
    s_extra = ctx.extra_symbol("ww_s", [-0.3, -0.1, -0.02, 0.02, 0.07, 0.25])
    p_extra = ctx.extra_symbol("ww_prev", [-0.8, -0.2, 0.1, 0.4, 0.6, 0.9, 1.2])
    s_grid = sorted(set(s_grid + [s_extra]))
    prev_grid = sorted(set(prev_grid + [p_extra]))
    ctx.alphabet("ww log_moneyness", s_grid)
    ctx.alphabet("ww time_to_maturity", t_grid)
    ctx.alphabet("ww volatility", v_grid)
    ctx.alphabet("ww prev_hedge", prev_grid)
    costs = [0.0, 1e-4, 1e-2]
    risk = [0.5, 1.0, 2.0]
    strikes = [1.0, 0.5, 2.0]
    ctx.alphabet("ww cost", costs)
    ctx.alphabet("ww a", risk)
    ctx.alphabet("ww strike", strikes)
    blocks = []
    for call, strike, cost, a in itertools.product([True, False], strikes, costs, risk):
        for dtype in ("float64", "float32"):
            if dtype == "float32" and not (a == 2.0 or (strike == 1.0 and a == 1.0)):
                continue
            blocks.append({"call": call, "strike": strike, "cost": cost, "a": a, "dtype": dtype,
                           "s": s_grid, "t": t_grid, "v": v_grid, "prev": prev_grid})
    blocks.append({"call": True, "strike": 1.0, "cost": 1e-3, "a": 1.0, "dtype": "float64", "defaults": True,
                   "s": s_grid, "t": t_grid, "v": v_grid, "prev": prev_grid})
    blocks.append({"call": False, "strike": 2.0, "cost": 1e-2, "a": 0.5, "dtype": "float64", "layout": "3d",
                   "s": s_grid, "t": t_grid, "v": v_grid, "prev": prev_grid})
    if ctx.thorough:
        ctx.run_parallel("ww_band", blocks, workers=4)
    else:
        for b in blocks:
            ctx.run("ww_band", b)
    for call, strike, a in ((True, 1.0, 1.0), (False, 2.0, 0.5)):
        ctx.run("ww_cost_history", {"call": call, "strike": strike, "a": a, "dtype": "float64", "costs": costs,
                                    "depth": ctx.pick(2, 3), "s": [-0.2, -0.05, 0.03, 0.15], "t": [0.1, 1.0],
                                    "v": [0.2, 0.5], "prev": [-0.5, 0.0, 0.3, 0.5, 0.7, 1.5]})
    gammas = [0.0, 0.5, 2.0, 7.5, -1.5]
    for form in ("float_params", "float_params_default_a", "tensor_params"):
        for dtype in ("float64", "float32"):
            ctx.run("ww_width_fn", {"dtype": dtype, "form": form, "gammas": gammas, "spots": [0.5, 1.0, 1.75],
                                    "costs": costs + [0.05], "as": risk + [10.0]})
    for kind, call in (("european_binary", True), ("european_binary", False), ("american_binary", True),
                       ("lookback", True), ("european", False)):
        for cost, a, strike in ((1e-2, 2.0, 2.0), (1e-3, 0.5, 1.0), (0.0, 1.0, 0.5)):
            ctx.run("ww_struct", {"kind": kind, "call": call, "strike": strike, "cost": cost, "a": a,
                                  "dtype": "float64", "s": [-0.2, -0.05, 0.03], "up": [0.0, 0.0625, 0.25],
                                  "t": [0.1, 0.5], "v": [0.2, 0.5], "prev": [-0.5, 0.0, 0.5, 1.0, 2.5]})
    # ---------------- SVI
    svi_alpha = {"k": [-0.5, -0.125, 0.0, 0.0625, 0.25, 1.0], "a": [0.0, 0.03125], "b": [0.125, 0.5],
                 "rho": [-0.5, 0.0, 0.25], "m": [-0.25, 0.0, 0.125], "sigma": [0.125, 0.5, 2.0, 0.0, -0.5]}
    # sigma enters the documented formula only through sigma^2: sigma = 0 (w = a + b (rho d + |d|)) and a negative
    # sigma are as defined as any other real value; in the tensor forms they are entries of a tensor sigma
    svi_alpha["sigma"] = sorted(set(svi_alpha["sigma"] + [ctx.extra_symbol("svi_sigma", [0.25, 0.75, 1.5, 3.0])]))
    for name, vals in svi_alpha.items():
        ctx.alphabet("svi " + name, vals)
    for form in ("fn_float", "fn_tensor", "module", "module_tensor_params", "fn_scalar_input"):
        for dtype in ("float64", "float32"):
            if form == "fn_scalar_input" and dtype == "float32":
                continue
            ctx.run("svi", dict(svi_alpha, form=form, dtype=dtype))
    # non-dyadic python-float parameters (not representable in float32), float64 inputs, both global default dtypes
    nd = {"k": [-0.35, 0.0, 0.1, 0.45], "a": [0.1, 1 / 3], "b": [0.3, 0.7], "rho": [0.3, -0.7], "m": [0.1, 1 / 3],
          "sigma": [0.1, 0.3, 0.7, 1 / 3]}
    if ctx.thorough:
        for name in ("a", "b", "rho", "m"):
            nd[name] = sorted(set(nd[name] + [0.1, 0.3, 0.7, 1 / 3]))
    ctx.alphabet("svi non-dyadic (float64)", nd)
    for form in ("fn_float", "fn_tensor", "module", "module_tensor_params", "fn_scalar_input"):
        for default in ("float32", "float64"):
            ctx.run("svi", dict(nd, form=form, dtype="float64", default_dtype=default))
    # ---------------- bilerp
    xs = [-1.0, 0.0, 0.5, 2.0]
    ws = [0.0, 0.25, 0.5, 1.0, 1.5]
    if ctx.thorough:
        xs = [-1.0, 0.0, 0.5, 1.5, 2.0]
        ws = [-0.5, 0.0, 0.25, 0.5, 0.75, 1.0, 1.5]
    ctx.alphabet("bilerp values", xs)
    ctx.alphabet("bilerp weights", ws)
    for form in ("float_w", "tensor_w", "broadcast", "float_w1_tensor_w2", "tensor_w1_float_w2"):
        for dtype in ("float64", "float32"):
            if dtype == "float32" and form.endswith("_w2") and form != "tensor_w":
                continue
            ctx.run("bilerp", {"form": form, "dtype": dtype, "xs": xs, "ws": ws})
    # ---------------- Box-Muller
    u1 = [0.0, 1e-12, 1e-10, 1e-7, 1e-5, 0.125, 0.5, 0.75, 1.0]
    u2 = [0.0, 0.0625, 0.125, 0.25, 1 / 3, 0.5, 0.625, 0.75, 0.9, 1.0]
    # angles next to the zeros of sin (u2 = 0, 1/2, 1) and of cos (1/4, 3/4): an implementation that derives
    # one trigonometric value from the other (sqrt(1 - c^2)) cancels there (seeded C20-26)
    u2 += [1e-4, 1e-3, 0.25 - 1e-3, 0.25 + 1e-4, 0.5 - 1e-3, 0.5 - 1e-4, 0.5 + 1e-3, 0.75 - 1e-4, 0.75 + 1e-3,
           1 - 1e-3, 1 - 1e-4]
    if ctx.thorough:
        u1 = sorted(set(u1 + [k / 64 for k in range(1, 64)]))
        u2 = sorted(set(u2 + [k / 48 for k in range(0, 49)]))
    ctx.alphabet("box_muller u1", u1 if ctx.quick else "quick grid + k/64")
    ctx.alphabet("box_muller u2", u2 if ctx.quick else "quick grid + k/48")
    ctx.alphabet("box_muller u1 (per dtype, added)", ["tiny", 1e-30, "eps/2", "eps", "2 eps"])
    ctx.alphabet("box_muller epsilon", ["default 1e-10", 1e-4, 1e-10, 1e-37])
    for e_arg in (None, 1e-4, 1e-10, 1e-37):
        for dtype in ("float64", "float32"):
            fi = torch.finfo(DT[dtype])
            # uniforms far below the default floor: with a small explicit epsilon (1e-37) the radius is
            # sqrt(-2 ln u) itself, up to 13 (float32) / 37 (float64); with the default they sit on the floor
            tail = [float(fi.tiny), 1e-30, fi.eps / 2, fi.eps, 2 * fi.eps]
            ctx.run("box_muller", {"dtype": dtype, "epsilon": e_arg, "u1": sorted(set(u1 + tail)), "u2": u2})
    # ---------------- realized variance / volatility
    A16 = [12, 16, 20, 24]
    A16x = sorted(set(A16 + [ctx.extra_symbol("price", [8, 10, 14, 18, 22, 28, 32])]))
    ctx.alphabet("realized price/16", A16x)
    for T in ctx.pick([2, 3, 4], [2, 3, 4, 5]):
        for dtype in ("float64", "float32"):
            for form in ("float", "tensor"):
                for layout in ("flat", "3d"):
                    if layout == "3d" and (form == "tensor" or dtype == "float32"):
                        continue
                    ctx.run("realized", {"dtype": dtype, "T": T, "A16": A16x if T <= 4 else A16,
                                         "dts": [1 / 256, 1 / 250, 0.01], "dt_form": form, "layout": layout})
            # per-path dt of shape (N,): all paths (N = |A|^T != T-1) and every set of exactly N = T-1 paths
            # drawn in enumeration order from a 2-symbol alphabet with distinct returns
            ctx.run("realized", {"dtype": dtype, "T": T, "A16": A16x if T <= 4 else A16,
                                 "dts": [1 / 256, 1 / 250, 0.01, 0.3], "dt_form": "per_path"})
            two = [list(p) for p in itertools.product([12, 20], repeat=T)]
            moving = [p for p in two if len(set(p)) > 1]
            for start in range(0, len(moving) - (T - 1) + 1):
                ctx.run("realized", {"dtype": dtype, "paths16": moving[start:start + T - 1],
                                     "dts": [1 / 256, 0.01, 0.3, 1 / 250], "dt_form": "per_path"})

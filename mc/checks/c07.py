"""C07 - Black-Scholes prices equal the expected payoff under the model.  Engine: grid (+ lattice model).

Families
  price_grid        every point of a block of (log-moneyness, running max, time, volatility) points
                    x strikes x call/put x dtype x call form (flat vectors | broadcast (n,1)x(1,k) with a
                    tensor strike | 0-dim tensors | python-float t, v | module .price) through
                    bs_european_price / bs_european_binary_price / bs_american_binary_price /
                    bs_lookback_price and the BS* modules; oracle = mpmath quadrature of the payoff
                    against the terminal-value law resp. the running-maximum law (mc/models/bs_expect.py),
                    tolerance 32*eps(dtype)*scale (derived below); module vs functional bitwise.
  derivative_forms  BlackScholes(derivative) / BS*.from_derivative on scripted derivatives (all |A|^T
                    price paths, non-default strike, put flag, non-default sigma and dt): class, strike and
                    call flag taken over; price() with every subset of arguments left None reads the
                    derivative's simulated state; equal (bitwise) to the functional form at features the
                    harness computes itself from the spot buffer, and equal to the expectation oracle.
  scenario_args     a module bound to a scripted derivative is called with 1..n-1 of its arguments supplied as
                    scenario tensors of the path's shape (shifted / ramped / permuted log-moneyness, shifted running
                    max, halved / shifted time, scaled / per-path volatility; every combination) and the rest left
                    None: bitwise the functional form at (supplied arguments, the derivative's OWN remaining state -
                    in particular its simulated running maximum), and the expectation oracle on the in-domain cells.
  multi_derivative  three derivatives with the same (kind, call flag, strike) but different scripted paths, shapes,
                    sigma, dt and underlier type (Brownian / Heston) in one process; BlackScholes(d_i) built in all 6
                    orders, creation and use interleaved or not; each module must be bound to ITS derivative and
                    price()/delta() with all arguments omitted must equal the functional form / an unbound module at
                    that derivative's state (bitwise) and the expectation oracle.
  flag_table        every (derivative kind, call flag): the module built from the derivative carries the derivative's
                    flag and prices that flag, or construction raises ValueError for the documented unsupported
                    lookback put / American binary put; a silently accepted put is a violation.
  resim_history     one underlier shared by four derivatives, each wrapped by BlackScholes(d); ALL histories of 3 (thorough
                    4) re-simulation rounds over 5 routes (simulate() of each of three derivatives, the stock's
                    simulate(), re-registered buffers; same shape, new content): after every round price()/delta()
                    with arguments omitted must be the functional form / an unbound module at the CURRENT buffers
                    (bitwise) and the expectation oracle given the current state.
  (derivative_forms also runs on options struck at the money at inception with non-dyadic strikes 0.9, 1.03, 1.05, 1.3
   - every path starts exactly at the strike - and derives the state for the oracle from the buffer values in exact
   arithmetic: barrier reached <=> running max >= strike.)
  attr_history      all histories (depth <= 3, thorough 4) of {flip .call, set .strike, copy.copy, copy.deepcopy} on each BS
                    module: after every op every module of the history prices / hedges according to its CURRENT
                    public attributes (bitwise the functional form / a freshly constructed module).
  (price_grid's form "mixed" evaluates the points inside a batch that also holds an at-the-money expiry element (t = 0)
   and a zero-volatility element: a pointwise function must not depend on the rest of the batch.  derivative_forms also
   runs underliers with a real-world drift mu != 0 (Brownian, Merton, Kou) - the zero-rate risk-neutral quote must not
   depend on it - and grids whose horizon is 1-2 steps shorter / longer than the option's own maturity: time to
   maturity is counted on the registered grid, whose last step carries the payoff; resim_history mixes options of four
   different maturities on the one stock.)
  (wave 5: price_grid has a float64 block of tiny-but-non-zero symbols |s| in {5e-9, 1e-9, 1e-12}, t in {1e-16, 1e-18,
   1e-12}, sigma in {0.2, 1e-4} - s/w of order 1..1e5, not the 0/0 corner - and the forms "no_grad" / "requires_grad"
   (ambient autograd mode and differentiable inputs must not change the value).  Optional diagnostic outside the claim
   (VERIF_USER_SUBCLASS=1, default off): derivative_forms worlds with a USER SUBCLASS of the option class overriding
   moneyness() (fx * spot / strike).)
  (wave 6: every call form of price_grid and the explicit-argument calls of derivative_forms are wrapped by an argument
   snapshot - the caller's tensors must be bitwise unchanged, class mutates_argument_* -; the python-number form runs for
   all four products.)
  (wave 7: derivative_forms walks the per-step accessors log_moneyness(i), max_log_moneyness(i), time_to_maturity(i) for
   i in 0..T-1 and the negative aliases -2..-T: equal to the step's column of the harness features, and the module fed
   with them reproduces that column of the reference.)
  law_crosscheck    model level, no pfhedge: the two routes to the running-maximum law (Girsanov
                    quadrature over driftless Brownian motion vs textbook closed survival function), the
                    layer-cake vs density form of the lookback expectation, the homogeneity reduction
                    K*unit vs explicit (S, M, K), and Gauss-Legendre/30 digits vs tanh-sinh/40 digits on
                    finer panels.  A disagreement is a harness error (the oracle is broken), exit 2.
  lattice           explores the recombining binomial lattice with hit flag / running-max level
                    (mc/models/lattice_ref.py; all states and transitions, backward induction) and requires
                    the oracle's and pfhedge's barrier and lookback values inside the lattice's
                    O(n^-1/2) bracket (one node + clock window; derivation in lattice_ref).

Tolerance (the oracle is exact to 1e-28; inputs are fed as the exact binary values of the tensors, and
all alphabets are float32-representable so float32 and float64 runs see the same real inputs):
  w = v sqrt(t) <= 2 sqrt(5),  d = s/w +- w/2 is computed with |delta d| <= 4 eps (|s|/w + w/2);
  N(d) = (1 + erf(d/sqrt 2))/2 then carries  phi(d)|delta d| + 2 eps <= 13 eps  (phi(d)(|s|/w + w/2) <= 2.7:
  either |s|/w >= w, then |d| >= |s|/(2w) and x phi(x/2) <= 0.5 ... or |s|/w < w <= 4.5), so
    european      |err| <= (S + K) 16 eps                 scale = S + K
    binaries      |err| <= 13 eps (+ e^s 13 eps)          scale = 1 + e^s
    lookback      S (N + w (d N + n)) - K N + M (1 - N): the extra factor w |delta d| <= 4 eps (|s - m| + w^2/2)
                  gives |err| <= (S + K + M)(16 + 4 (1.5 + w^2/2)) eps      scale = (S + K + M)(1 + w)^2
  and C = 32 covers the constants.  (Observed on the unchanged tree: <= 1 eps*scale in float64.)
"""
from __future__ import annotations

import itertools
import math
import os

import mpmath as mp
import torch

from mc.core import market
from mc.core.explore import all_paths
from mc.core.runner import HarnessError
from mc.models import bs_expect as BE
from mc.models import lattice_ref as LAT

#: Optional diagnostic OUTSIDE the claim (default off): worlds built on a USER SUBCLASS that overrides a library method
#: (FX* options overriding moneyness()).  C07 quantifies over the library's own derivatives; a behaviour-preserving
#: refactoring of the built-in classes may legitimately change how such overrides are dispatched.
USER_SUBCLASS_WORLDS = os.environ.get("VERIF_USER_SUBCLASS") == "1"

FAMILIES = {}
mp.mp.dps = 30      # every oracle operation (also products with K outside the model functions) at 30 digits


def family(fn):
    FAMILIES[fn.__name__] = fn
    return fn


DT = {"float32": torch.float32, "float64": torch.float64}
C_TOL = 32
ORACLE_ERR = mp.mpf("1e-24")      # accepted quadrature error estimate (relative to scale)
PRODUCTS = ("european", "european_binary", "american_binary", "lookback")
SITE = {"european": "bs_european_price", "european_binary": "bs_european_binary_price",
        "american_binary": "bs_american_binary_price", "lookback": "bs_lookback_price"}
MODULE = {"european": "BSEuropeanOption", "european_binary": "BSEuropeanBinaryOption",
          "american_binary": "BSAmericanBinaryOption", "lookback": "BSLookbackOption"}
HAS_PUT = {"european": True, "european_binary": True, "american_binary": False, "lookback": False}
HAS_MAX = {"european": False, "european_binary": False, "american_binary": True, "lookback": True}
HAS_STRIKE_ARG = {"european": True, "european_binary": False, "american_binary": False, "lookback": True}


def f32(x):
    """The float32 value nearest to x, as a python float (alphabets are made of these)."""
    return float(torch.tensor(x, dtype=torch.float32))


# ----------------------------------------------------------------------------
# oracle access
# ----------------------------------------------------------------------------

def unit_expectation(product, s, m, t, v, call, memo=None):
    """E[payoff] for strike 1 (log-moneyness s, running max m), via quadrature.  mpf."""
    # the payoffs depend on the running maximum only through max(M0, K) resp. 1{M0 >= K}:
    #   (max(M0, X) - K)^+ = (max(max(M0, K), X) - K)^+ ,  1{max(M0, X) >= K} = 1 if M0 >= K else 1{X >= K}
    # so points that differ only in a running maximum below the strike share one quadrature (in-memory memo)
    if product == "lookback":
        m = max(m, 0.0)
    elif product == "american_binary":
        m = max(s, 0.0) if m >= 0 else s
    key = (product, s, m, t, v, call)
    if memo is not None and key in memo:
        return memo[key]
    if product == "european":
        val, err = BE.european_unit(s, t, v, call)
        scale = 1 + math.exp(s)
    elif product == "european_binary":
        val, err = BE.european_binary_unit(s, t, v, call)
        scale = 1
    elif product == "american_binary":
        val, err = BE.american_binary_unit(s, m, t, v)
        scale = 1
    elif product == "lookback":
        val, err = BE.lookback_unit(s, m, t, v)
        scale = 1 + math.exp(m)
    else:
        raise KeyError(product)
    if not (err <= ORACLE_ERR * scale):
        raise HarnessError(f"oracle quadrature not converged: {key} err={mp.nstr(err, 5)}")
    if memo is not None:
        memo[key] = val
    return val


def scale_of(product, s, m, t, v, K):
    w = v * math.sqrt(t)
    if product == "european":
        return K * (1 + math.exp(s))
    if product in ("european_binary", "american_binary"):
        return 1 + math.exp(s)
    return K * (1 + math.exp(s) + math.exp(m)) * (1 + w) ** 2


def certain_payoff(product, s, m, call):
    """Payoff if nothing moved any more (to tell trivial cases: optionality irrelevant)."""
    if product == "european":
        return max(math.exp(s) - 1, 0.0) if call else max(1 - math.exp(s), 0.0)
    if product == "european_binary":
        return float(s >= 0) if call else float(s <= 0)
    if product == "american_binary":
        return float(m >= 0)
    return max(math.exp(m) - 1, 0.0)


def classify(product, s, m, K, call):
    parts = []
    if HAS_PUT[product]:
        parts.append("call" if call else "put")
    if HAS_MAX[product]:
        parts.append("max_below_strike" if m < 0 else ("max_at_strike" if m == 0 else "max_above_strike"))
        parts.append("at_max" if m == s else "off_max")
    else:
        parts.append("spot_above_strike" if s > 0 else ("spot_at_strike" if s == 0 else "spot_below_strike"))
    parts.append("K1" if K == 1 else "Kne1")
    return "_".join(parts)


# ----------------------------------------------------------------------------
# calling pfhedge
# ----------------------------------------------------------------------------

def call_functional(product, s, m, t, v, K, call):
    import pfhedge.nn.functional as F
    if product == "european":
        return F.bs_european_price(s, t, v, strike=K, call=call)
    if product == "european_binary":
        return F.bs_european_binary_price(s, t, v, call=call)
    if product == "american_binary":
        return F.bs_american_binary_price(s, m, t, v)
    return F.bs_lookback_price(s, m, t, v, K)


def make_module(product, K, call):
    import pfhedge.nn as nn
    cls = getattr(nn, MODULE[product])
    if HAS_PUT[product]:
        return cls(call=call, strike=K)
    return cls(strike=K)


def call_module(mod, product, s, m, t, v):
    if HAS_MAX[product]:
        return mod.price(s, m, t, v)
    return mod.price(s, t, v)


def _expand_points(block):
    """points: list of [s, m, t, v] (m None for products without running max)."""
    return [(float(p[0]), None if p[1] is None else float(p[1]), float(p[2]), float(p[3])) for p in block["points"]]


@family
def price_grid(ctx, block):
    product = block["product"]
    pts = _expand_points(block)
    n = len(pts)
    strikes = block["strikes"]
    calls = block["calls"]
    forms = block["forms"]
    site = SITE[product]
    memo = {}
    for call in calls:
        unit = [unit_expectation(product, s, m, t, v, call, memo) for (s, m, t, v) in pts]
        nontriv = [abs(float(u) - certain_payoff(product, s, m, call)) > 1e-9 and 1e-9 < float(u)
                   for u, (s, m, t, v) in zip(unit, pts)]
        if len(ctx.samples) < 2 and n:
            i = n // 2
            ctx.sample({"family": "price_grid", "product": product, "call": call, "point[s,m,t,v]": list(pts[i]),
                        "unit_expectation(K=1)": mp.nstr(unit[i], 20)})
        for dname in block["dtypes"]:
            dtype = DT[dname]
            eps = torch.finfo(dtype).eps
            S_ = torch.tensor([p[0] for p in pts], dtype=dtype)
            M_ = torch.tensor([p[0] if p[1] is None else p[1] for p in pts], dtype=dtype)
            T_ = torch.tensor([p[2] for p in pts], dtype=dtype)
            V_ = torch.tensor([p[3] for p in pts], dtype=dtype)
            # the alphabets must be exactly representable in the dtype under test
            if S_.to(torch.float64).tolist() != [p[0] for p in pts] or T_.to(torch.float64).tolist() != [p[2] for p in pts] \
                    or V_.to(torch.float64).tolist() != [p[3] for p in pts] \
                    or M_.to(torch.float64).tolist() != [p[0] if p[1] is None else p[1] for p in pts] \
                    or any(float(torch.tensor(K, dtype=dtype)) != K for K in strikes):
                raise HarnessError(f"alphabet value not representable in {dname}: {block}")
            same_tv = all(p[2] == pts[0][2] and p[3] == pts[0][3] for p in pts)
            outs = {}     # (form, K) -> list of floats
            pristine = [x.clone() for x in (S_, M_, T_, V_)]

            def guard(form):
                """the caller's tensors must be bitwise unchanged by every call form (restored if not)"""
                for nm, cur, ref in zip(("log_moneyness", "max_log_moneyness", "time_to_maturity", "volatility"), (S_, M_, T_, V_), pristine):
                    if not torch.equal(cur, ref):
                        j = int((cur != ref).nonzero()[0])
                        ctx.violation(site, f"mutates_argument_{nm}", f"{site} [{dname}, {form}] overwrote the caller's {nm} tensor",
                                      observed=float(cur[j]), expected=float(ref[j]),
                                      block=_mini(block, pts[j], strikes[0], call, dname, form), family="price_grid")
                        cur.copy_(ref)

            for form in forms + ["<end>"]:
                if outs or form == "<end>":
                    guard(prev_form)
                prev_form = form
                if form == "<end>":
                    break
                if form == "flat":
                    for K in (strikes if HAS_STRIKE_ARG[product] else strikes[:1]):
                        outs[(form, K)] = _as_list(call_functional(product, S_, M_, T_, V_, K, call), (n,), dtype, ctx, site, block)
                elif form == "module":
                    for K in strikes:
                        mod = make_module(product, K, call)
                        o = call_module(mod, product, S_, M_, T_, V_)
                        ref = call_functional(product, S_, M_, T_, V_, K, call)
                        ctx.tick(n)
                        if not _bitwise_equal(o, ref):
                            i = _first_diff(o, ref)
                            ctx.violation(MODULE[product] + ".price", "module_differs_from_functional_" + classify(product, *pts[i][:2], K, call),
                                          f"{MODULE[product]}(call={call}, strike={K}).price != {site} on the same tensors",
                                          observed=float(o.flatten()[i]), expected=float(ref.flatten()[i]),
                                          block=_mini(block, pts[i], K, call, dname, form), family="price_grid")
                elif form == "bcast":
                    if not same_tv:
                        continue
                    # (n,1) log-moneyness x (1,k) strike tensor (where the function takes a strike), 0-dim t and v
                    t0 = torch.tensor(pts[0][2], dtype=dtype)
                    v0 = torch.tensor(pts[0][3], dtype=dtype)
                    if HAS_STRIKE_ARG[product]:
                        Kt = torch.tensor([strikes], dtype=dtype)
                        o = call_functional(product, S_[:, None], M_[:, None], t0, v0, Kt, call)
                        o = _as_matrix(o, (n, len(strikes)), dtype, ctx, site, block, "bcast")
                        if o is None:
                            continue
                        for j, K in enumerate(strikes):
                            outs[(form, K)] = [row[j] for row in o]
                    else:
                        # binaries: (n,1) log-moneyness x (1,2) [t, t] row
                        trow = torch.stack([t0, t0])[None, :]
                        o = call_functional(product, S_[:, None], M_[:, None], trow, v0, strikes[0], call)
                        o = _as_matrix(o, (n, 2), dtype, ctx, site, block, "bcast")
                        if o is None:
                            continue
                        outs[(form, strikes[0])] = [row[0] for row in o]
                        outs[(form + "'", strikes[0])] = [row[1] for row in o]
                elif form == "scalar0":
                    for K in (strikes[:1] + strikes[-1:] if HAS_STRIKE_ARG[product] else strikes[:1]):
                        res = []
                        for i in range(n):
                            o = call_functional(product, S_[i], M_[i], T_[i], V_[i], K, call)
                            if tuple(o.shape) != () or o.dtype != dtype:
                                ctx.violation(site, "shape_or_dtype_scalar0", f"0-dim inputs gave shape {tuple(o.shape)} dtype {o.dtype}",
                                              block=_mini(block, pts[i], K, call, dname, form), family="price_grid")
                                res = None
                                break
                            res.append(float(o))
                        if res is not None:
                            outs[(form, K)] = res
                elif form in ("no_grad", "requires_grad"):
                    # ambient autograd mode / differentiable inputs must not change the value
                    for K in (strikes[:1] + strikes[-1:] if HAS_STRIKE_ARG[product] else strikes[:1]):
                        if form == "no_grad":
                            with torch.no_grad():
                                o = call_functional(product, S_, M_, T_, V_, K, call)
                        else:
                            with torch.enable_grad():
                                o = call_functional(product, S_.clone().requires_grad_(), M_.clone().requires_grad_(),
                                                    T_.clone().requires_grad_(), V_.clone().requires_grad_(), K, call).detach()
                        outs[(form, K)] = _as_list(o, (n,), dtype, ctx, site, block)
                elif form == "mixed":
                    # the same points inside a batch that also holds an expiry element (t = 0) and a zero-volatility
                    # element, both exactly at the money: a pointwise function must not depend on the rest of the batch
                    z = torch.zeros(2, dtype=dtype)
                    Sx, Mx = torch.cat([S_, z]), torch.cat([M_, z])
                    Tx = torch.cat([T_, torch.stack([z[0], T_[0]])])
                    Vx = torch.cat([V_, torch.stack([V_[0], z[0]])])
                    for K in (strikes[:1] + strikes[-1:] if HAS_STRIKE_ARG[product] else strikes[:1]):
                        o = call_functional(product, Sx, Mx, Tx, Vx, K, call)
                        got = _as_list(o, (n + 2,), dtype, ctx, site, block)
                        outs[(form, K)] = None if got is None else got[:n]
                elif form == "pyfloat":
                    if not same_tv:
                        continue
                    # t, v as python numbers (docstring example bs_european_price(x, 1.0, 0.2); every function converts them
                    # with the dtype of the tensor arguments since fix 11b128b)
                    K = strikes[-1]
                    o = call_functional(product, S_, M_, pts[0][2], pts[0][3], K, call)
                    outs[(form, K)] = _as_list(o, (n,), dtype, ctx, site, block)
                else:
                    raise HarnessError(f"unknown form {form}")
            # compare with the expectation
            for (form, K), got in outs.items():
                if got is None:
                    continue
                ctx.tick(n, nontrivial=sum(nontriv))
                for i, (s, m, t, v) in enumerate(pts):
                    mm = s if m is None else m
                    homog = K if product in ("european", "lookback") else 1
                    exp = unit[i] * homog
                    tol = C_TOL * eps * scale_of(product, s, mm, t, v, K)
                    g = got[i]
                    ok = (g == g) and abs(mp.mpf(g) - exp) <= tol
                    if ok:
                        r = float(abs(mp.mpf(g) - exp) / (eps * scale_of(product, s, mm, t, v, K)))
                        ctx.add("agree_within_1_eps_scale" if r <= 1 else ("agree_within_4_eps_scale" if r <= 4 else "agree_within_tol"))
                        if i % 7 == 0:
                            ctx.outcome(round(g, 9))
                        continue
                    cls = ("nan_" if g != g else "expectation_") + classify(product, s, mm, K, call)
                    if form.rstrip("'") not in ("flat",) and _flat_ok(outs, K, i, exp, tol):
                        cls = f"form_{form.rstrip(chr(39))}_" + cls
                    ctx.violation(site, cls,
                                  f"{site}(s={s}, m={m}, t={t}, v={v}, K={K}, call={call}) [{dname}, {form}] != E[payoff]",
                                  observed=g, expected=float(exp), block=_mini(block, pts[i], K, call, dname, form.rstrip("'")), family="price_grid")


def _flat_ok(outs, K, i, exp, tol):
    got = outs.get(("flat", K))
    return got is not None and got[i] == got[i] and abs(mp.mpf(got[i]) - exp) <= tol


def _mini(block, pt, K, call, dname, form):
    forms = ["flat"] if form == "flat" else ["flat", form]
    return {"product": block["product"], "points": [list(pt)], "strikes": [K], "calls": [call],
            "dtypes": [dname], "forms": forms}


def _bitwise_equal(a, b):
    if a.shape != b.shape or a.dtype != b.dtype:
        return False
    return bool(((a == b) | (a.isnan() & b.isnan())).all())


def _first_diff(a, b):
    if a.shape != b.shape:
        return 0
    bad = ~((a == b) | (a.isnan() & b.isnan()))
    return int(bad.flatten().nonzero()[0])


def _as_list(o, shape, dtype, ctx, site, block):
    if tuple(o.shape) != tuple(shape) or o.dtype != dtype:
        ctx.violation(site, "shape_or_dtype", f"output shape {tuple(o.shape)} dtype {o.dtype}, expected {shape} {dtype}",
                      observed=[list(o.shape), str(o.dtype)], expected=[list(shape), str(dtype)], block=block, family="price_grid")
        return None
    return o.to(torch.float64).tolist()


def _as_matrix(o, shape, dtype, ctx, site, block, form):
    if tuple(o.shape) != tuple(shape) or o.dtype != dtype:
        ctx.violation(site, "shape_or_dtype_" + form, f"output shape {tuple(o.shape)} dtype {o.dtype}, expected {shape} {dtype}",
                      observed=[list(o.shape), str(o.dtype)], expected=[list(shape), str(dtype)], block=block, family="price_grid")
        return None
    return o.to(torch.float64).tolist()


# ----------------------------------------------------------------------------
# modules built from a derivative
# ----------------------------------------------------------------------------

KIND = {"european": "european", "european_binary": "european_binary",
        "american_binary": "american_binary", "lookback": "lookback"}


@family
def derivative_forms(ctx, block):
    """block: product, A (spot alphabet), T, dt, sigma, strike, call, dtype, rows (optional path subset)."""
    import pfhedge.nn as nn
    product = block["product"]
    dtype = DT[block["dtype"]]
    eps = torch.finfo(dtype).eps
    K, call, sigma, dt, T = block["strike"], block["call"], block["sigma"], block["dt"], block["T"]
    spot = all_paths(block["A"], T, dtype=dtype, first=block.get("first"))
    if block.get("rows") is not None:
        spot = spot[block["rows"]]
    N = spot.size(0)
    if float(torch.tensor(K, dtype=dtype)) != K:
        raise HarnessError(f"strike {K} is not representable in {block['dtype']} (needed for 'spot == strike exactly')")
    stock = make_stock(block.get("under", "brownian"), dtype, sigma, dt, block.get("mu", 0.0))
    market.set_buffers(stock, spot=spot)
    kw = {"strike": K}
    if HAS_PUT[product]:
        kw["call"] = call
    if block.get("maturity_offset"):
        # the option's own maturity differs from the horizon of the registered grid (the stock was simulated for another
        # contract): the payoff is read off the LAST simulated step, so time to maturity is counted on the grid
        kw["maturity"] = (T - 1 + block["maturity_offset"]) * dt
    fx = block.get("fx")
    if fx is not None and not USER_SUBCLASS_WORLDS:
        return          # user-subclass worlds are an optional diagnostic (VERIF_USER_SUBCLASS=1)
    if fx is None:
        deriv = market.derivative(KIND[product], stock, T=T, **kw)
        site = f"BlackScholes({type(deriv).__name__})"
        mods = {"BlackScholes": nn.BlackScholes(deriv),
                "from_derivative": getattr(nn, MODULE[product]).from_derivative(deriv)}
        eff = spot
    else:
        # user subclass with its own moneyness(): only from_derivative applies (BlackScholes(d) dispatches on the class name)
        kw.setdefault("maturity", (T - 1) * dt)
        deriv = fx_option(KIND[product], stock, fx, **kw)
        site = f"{MODULE[product]}.from_derivative(user subclass overriding moneyness)"
        mods = {"from_derivative": getattr(nn, MODULE[product]).from_derivative(deriv)}
        eff = fx * spot
    main = mods.get("BlackScholes", mods["from_derivative"])
    # -- features computed by the harness from the buffer (not through the derivative) --
    lm = (eff / K).log()
    mlm = lm.cummax(dim=-1).values
    steps = torch.arange(T).to(spot) * dt
    ttm = (steps[-1] - steps).unsqueeze(0).expand(N, -1)
    vol = torch.full_like(spot, sigma)
    live = slice(0, T - 1)       # columns with time to maturity > 0 (t = 0 belongs to C18)
    # the derivative's time grid against the EXACT grid (T-1-i)*dt (python float arithmetic on the python-float dt):
    # two roundings of the dtype at most (k*dt and the difference) -> 4 eps relative to the horizon
    exact_t = torch.tensor([[(T - 1 - i) * dt for i in range(T)]], dtype=torch.float64)
    got_t = deriv.time_to_maturity().to(torch.float64)
    ctx.tick(T, nontrivial=T)
    if tuple(got_t.shape) != (N, T) or bool(((got_t - exact_t).abs() > 4 * eps * (T - 1) * dt).any()):
        ctx.violation(f"{type(deriv).__name__}.time_to_maturity", "time_grid_not_exact_in_underlier_dtype",
                      f"time_to_maturity() of a {block['dtype']} derivative with dt={dt} is {got_t[0].tolist()}, the grid is {exact_t[0].tolist()}",
                      observed=got_t[0].tolist(), expected=exact_t[0].tolist(), block=block, family="derivative_forms")
    ref = call_functional(product, lm, mlm, ttm, vol, K, call)[:, live]
    names = ["log_moneyness", "max_log_moneyness", "time_to_maturity", "volatility"] if HAS_MAX[product] \
        else ["log_moneyness", "time_to_maturity", "volatility"]
    given = {"log_moneyness": lm, "max_log_moneyness": mlm, "time_to_maturity": ttm.clone(), "volatility": vol}
    given0 = {k: v.clone() for k, v in given.items()}
    snap = market.snapshot(deriv)
    for label, mod in mods.items():
        if type(mod).__name__ != MODULE[product]:
            ctx.violation(site, "wrong_module_class", f"{label} built {type(mod).__name__} for {type(deriv).__name__}",
                          observed=type(mod).__name__, expected=MODULE[product], block=block, family="derivative_forms")
            continue
        if mod.strike != K or bool(mod.call) != bool(call) or mod.derivative is not deriv:
            ctx.violation(site, "strike_call_or_derivative_not_taken_over",
                          f"{label}: strike={mod.strike} call={mod.call} (derivative: strike={K} call={call})",
                          observed=[mod.strike, mod.call], expected=[K, call], block=block, family="derivative_forms")
        # every subset of arguments left None
        for mask in itertools.product([False, True], repeat=len(names)):
            kwargs = {nm: (None if none else given[nm]) for nm, none in zip(names, mask)}
            try:
                out = mod.price(**kwargs)
            except (ValueError, AttributeError, TypeError) as e:
                ctx.tick(1)
                ctx.violation(site, f"none_path_raises:{type(e).__name__}",
                              f"{label}.price({[nm for nm, none in zip(names, mask) if none]} = None) raised {e}",
                              observed=repr(e), expected="price from the derivative's buffers", block=block, family="derivative_forms")
                continue
            n_none = sum(mask)
            ctx.tick(N * (T - 1), nontrivial=N * (T - 1) if n_none else 0)
            if tuple(out.shape) != (N, T) or out.dtype != dtype:
                ctx.violation(site, "shape_or_dtype", f"price shape {tuple(out.shape)} dtype {out.dtype}",
                              observed=[list(out.shape), str(out.dtype)], expected=[[N, T], str(dtype)], block=block, family="derivative_forms")
                continue
            o = out[:, live]
            if not _bitwise_equal(o, ref):
                i = _first_diff(o, ref)
                r, c = divmod(i, T - 1)
                nn_ = [nm for nm, none in zip(names, mask) if none]
                cls = ("none_path_" + "+".join(nn_)) if nn_ else "explicit_args"
                mb = dict(block)
                base = block.get("rows")
                mb["rows"] = [base[r] if base is not None else r]
                ctx.violation(site, f"differs_from_functional_{cls}_{'call' if call else 'put'}",
                              f"{label}.price(None for {nn_}) != {SITE[product]} at the derivative's state "
                              f"(path {spot[r].tolist()}, step {c}, strike {K}, call {call}, sigma {sigma})",
                              observed=float(o.flatten()[i]), expected=float(ref.flatten()[i]), block=mb, family="derivative_forms")
    # per-step accessors of the derivative (indices 0..T-1 and the negative aliases -2..-T; max_moneyness(-1) raises on the
    # reference tree and is left out): the triple at step i is column j = i mod T of the whole-path features, and the module
    # fed with it gives column j of the reference
    for i in list(range(T)) + list(range(-2, -T - 1, -1)):
        j = i if i >= 0 else T + i
        try:
            lm_i, tt_i = deriv.log_moneyness(i), deriv.time_to_maturity(i)
            mx_i = deriv.max_log_moneyness(i)
        except (IndexError, RuntimeError) as e:
            ctx.violation(site, f"step_accessor_raises:{type(e).__name__}", f"accessors at time_step={i} raised {e}", observed=repr(e)[:200],
                          expected=f"values of step {j}", block=block, family="derivative_forms")
            continue
        ctx.tick(3 * N, nontrivial=3 * N if i < 0 else 0)
        for what, got, full in (("log_moneyness", lm_i, lm), ("max_log_moneyness", mx_i, mlm), ("time_to_maturity", tt_i, ttm)):
            if what == "time_to_maturity":
                # (T-1-i)*dt in one rounding vs the difference of two grid times: equal up to 4 eps of the horizon
                same_ = tuple(got.shape) == (N, 1) and bool(((got - full[:, [j]]).abs() <= 4 * eps * (T - 1) * dt).all())
            else:
                same_ = tuple(got.shape) == (N, 1) and _bitwise_equal(got, full[:, [j]])
            if not same_:
                ctx.violation(f"{type(deriv).__name__}.{what}(time_step)", "step_accessor_differs_from_step_" + ("negative_alias" if i < 0 else "index"),
                              f"{what}({i}) != the value at step {j} computed from the buffer (strike {K})",
                              observed=got.flatten()[:4].tolist(), expected=full[:, j][:4].tolist(), block=block, family="derivative_forms")
        if j < T - 1 and tuple(mx_i.shape) == (N, 1):
            o = main.price(lm_i, mx_i, tt_i, vol[:, [j]]) if HAS_MAX[product] else main.price(lm_i, tt_i, vol[:, [j]])
            r_ = call_functional(product, lm[:, [j]], mlm[:, [j]], tt_i, vol[:, [j]], K, call)
            ctx.tick(N, nontrivial=N)
            if not _bitwise_equal(o, r_):
                jj = _first_diff(o, r_)
                ctx.violation(site, "price_at_step_accessors_differs_" + ("negative_alias" if i < 0 else "index"),
                              f"price(log_moneyness({i}), max_log_moneyness({i}), time_to_maturity({i}), vol) != {SITE[product]} at step {j}: path {spot[jj].tolist()}",
                              observed=float(o.flatten()[jj]), expected=float(r_.flatten()[jj]), block=block, family="derivative_forms")
    for nm_, ref_ in given0.items():
        if not torch.equal(given[nm_], ref_):
            ctx.violation(site, f"mutates_argument_{nm_}", f"price({nm_}=tensor, ...) overwrote the caller's {nm_} tensor",
                          observed=float(given[nm_].flatten()[0]), expected=float(ref_.flatten()[0]), block=block, family="derivative_forms")
            given[nm_] = ref_.clone()
    # delta with every argument omitted vs an unbound module of the same class fed the harness' features
    ref_d = make_module(product, K, call).delta(*[given[nm] for nm in names])
    try:
        out_d = main.delta()
    except ValueError as e:
        out_d = None
        ctx.violation(site, "none_path_delta_raises:ValueError", f"BlackScholes(d).delta() raised {e}", observed=repr(e),
                      expected="delta at the derivative's state", block=block, family="derivative_forms")
    ctx.tick(N * (T - 1), nontrivial=N * (T - 1))
    if out_d is not None and (tuple(out_d.shape) != tuple(ref_d.shape) or not _bitwise_equal(out_d[:, live], ref_d[:, live])):
        ctx.violation(site, "delta_none_path_differs_from_explicit_" + ("call" if call else "put"),
                      f"BlackScholes(d).delta() != {MODULE[product]}(call={call}, strike={K}).delta(features of the buffers)",
                      observed=float(out_d[:, live].flatten()[0]) if tuple(out_d.shape) == tuple(ref_d.shape) else list(out_d.shape),
                      expected=float(ref_d[:, live].flatten()[0]), block=block, family="derivative_forms")
    if market.snapshot_diff(snap, market.snapshot(deriv)):
        ctx.violation(site, "price_mutates_buffers", "price() changed the derivative's buffers", block=block, family="derivative_forms")
    # -- the all-None price against the expectation oracle, on every distinct (s, m, t) cell --
    out = main.price()
    if tuple(out.shape) != (N, T):
        return
    def mini(r):
        mb = dict(block)
        base = block.get("rows")
        mb["rows"] = [base[r] if base is not None else r]
        return mb

    if block.get("oracle", True):
        oracle_cells_exact(ctx, product, eff, K, ttm, vol, out, call, dtype, site, "",
                           lambda r, c: f"BlackScholes({type(deriv).__name__}(strike={K}, call={call})).price() on path "
                                        f"{spot[r].tolist()} step {c} (sigma {sigma}) != E[payoff | the derivative's state]",
                           mini, "derivative_forms")
    ctx.outcome((product, K, call, round(float(out[:, live].sum()), 6)))
    if len(ctx.samples) < 4:
        r = N // 2
        ctx.sample({"family": "derivative_forms", "product": product, "strike": K, "call": call, "sigma": sigma,
                    "dt": dt, "path": spot[r].tolist(), "price()": out[r].tolist()})


def exact_state(spot, K):
    """Per cell of the spot buffer, in exact arithmetic on the buffer values: log-moneyness s = log(S/K), running-max
    log-moneyness m = log(max_{k<=c} S_k / K) (30-digit logarithm of the exact ratio, rounded to a double; m == 0.0
    exactly iff the running maximum EQUALS the strike, m >= 0 iff the barrier has been reached)."""
    Kq = mp.mpf(K)
    S, M = [], []
    for row in spot.to(torch.float64).tolist():
        mx = None
        srow, mrow = [], []
        for x in row:
            mx = x if mx is None else max(mx, x)
            srow.append(0.0 if x == K else float(mp.log(mp.mpf(x) / Kq)))
            mrow.append(0.0 if mx == K else float(mp.log(mp.mpf(mx) / Kq)))
        S.append(srow)
        M.append(mrow)
    return S, M


def oracle_cells_exact(ctx, product, spot, K, ttm, vol, out, call, dtype, site, cls_prefix, msg, mini_for_row,
                       family_name, memo=None):
    """``out`` (N, T) against the expectation oracle given the derivative's state, the state being derived from the
    spot buffer in exact arithmetic (not through torch's log / cummax): every distinct (s, m, t, v) cell, t > 0.
    The implementation's own rounding of s (1 ulp of the dtype, |s| <= ~1.5) moves the price by less than
    eps * scale and is covered by the tolerance C_TOL * eps * scale."""
    eps = torch.finfo(dtype).eps
    N, T = out.shape
    S, M = exact_state(spot, K)
    TT, VV, O = ttm.to(torch.float64).tolist(), vol.to(torch.float64).tolist(), out.to(torch.float64).tolist()
    memo = {} if memo is None else memo
    cells = {}
    for r in range(N):
        for c in range(T):
            if not TT[r][c] > 0:
                continue
            key = (S[r][c], M[r][c] if HAS_MAX[product] else None, TT[r][c], VV[r][c])
            cells.setdefault(key, []).append((r, c))
    for (s_, m_, t_, v_), where in cells.items():
        exp = unit_expectation(product, s_, m_, t_, v_, call, memo) * (K if product in ("european", "lookback") else 1)
        mm = s_ if m_ is None else m_
        tol = C_TOL * eps * scale_of(product, s_, mm, t_, v_, K)
        ctx.add("distinct_oracle_cells")
        for (r, c) in where:
            g = O[r][c]
            ctx.tick(1, nontrivial=1)
            if not ((g == g) and abs(mp.mpf(g) - exp) <= tol):
                ctx.violation(site, cls_prefix + ("nan_" if g != g else "expectation_") + classify(product, s_, mm, K, call),
                              msg(r, c), observed=g, expected=float(exp), block=mini_for_row(r), family=family_name)
                break


UNSUPPORTED = {("lookback", False), ("american_binary", False)}     # documented: constructor raises ValueError


@family
def flag_table(ctx, block):
    """For every (derivative kind, call flag): the module built from the derivative either carries the derivative's
    flag (and prices that flag: bitwise the functional form with it), or - for the documented unsupported
    combinations lookback put / American binary put - construction raises ValueError.  A put silently wrapped by
    a call-formula module is a violation.  block: dtype, strike."""
    import pfhedge.nn as nn
    dtype = DT[block["dtype"]]
    K = block["strike"]
    world = {"under": "brownian", "A": [0.75, 1.0, 1.5], "T": 3, "dt": 0.25, "sigma": 0.25}
    for product in block.get("products", PRODUCTS):
        for call in block.get("calls", [True, False]):
            T = world["T"]
            spot = all_paths(world["A"], T, dtype=dtype)
            stock = market.primary("brownian", dtype=dtype, sigma=world["sigma"], dt=world["dt"])
            market.set_buffers(stock, spot=spot)
            deriv = market.derivative(KIND[product], stock, T=T, strike=K, call=call)
            site = f"BlackScholes({type(deriv).__name__})"
            mb = dict(block, products=[product], calls=[call])
            builders = {"BlackScholes": lambda: nn.BlackScholes(deriv),
                        "from_derivative": lambda: getattr(nn, MODULE[product]).from_derivative(deriv)}
            for label, build in builders.items():
                ctx.tick(1, nontrivial=1)
                try:
                    mod = build()
                except ValueError as e:
                    ctx.outcome((product, call, "ValueError"))
                    if (product, call) not in UNSUPPORTED:
                        ctx.violation(site, "supported_flag_rejected", f"{label}({type(deriv).__name__}(call={call})) raised {e}",
                                      observed=repr(e), expected="a module", block=mb, family="flag_table")
                    continue
                ctx.outcome((product, call, "module"))
                if (product, call) in UNSUPPORTED:
                    ctx.violation(site, "unsupported_put_silently_accepted",
                                  f"{label}({type(deriv).__name__}(call=False)) returned {type(mod).__name__}(call={getattr(mod, 'call', None)}) "
                                  f"instead of raising ValueError: the put would be priced with the call formula",
                                  observed=f"{type(mod).__name__}(call={getattr(mod, 'call', None)})", expected="ValueError", block=mb, family="flag_table")
                    continue
                if bool(mod.call) != bool(call):
                    ctx.violation(site, "call_flag_not_taken_over", f"{label}: module.call={mod.call}, derivative.call={call}",
                                  observed=bool(mod.call), expected=bool(call), block=mb, family="flag_table")
                lm = (spot / K).log()
                f = {"log_moneyness": lm, "max_log_moneyness": lm.cummax(-1).values,
                     "time_to_maturity": deriv.time_to_maturity(), "volatility": torch.full_like(spot, world["sigma"])}
                ref = functional_at(product, f, K, call)
                out = mod.price()
                ctx.tick(spot.numel(), nontrivial=spot.numel())
                if not _bitwise_equal(out[:, :T - 1], ref[:, :T - 1]):
                    ctx.violation(site, "price_not_for_the_derivatives_flag_" + ("call" if call else "put"),
                                  f"{label}({type(deriv).__name__}(call={call})).price() != {SITE[product]}(call={call})",
                                  observed=float(out[0, 0]), expected=float(ref[0, 0]), block=mb, family="flag_table")


@family
def integer_forms(ctx, block):
    """Exactly ONE integer-dtype tensor, at every argument position, all other arguments python numbers (and the variants
    with a float tensor first): the result (default dtype float32) must be the expectation at the real values, to
    float32 accuracy.  block: product, positions (optional)."""
    product = block["product"]
    num = {"s": -0.125, "m": 0.25, "t": 1.5, "v": 0.25}
    ints = {"s": [-1, 0], "m": [0, 1], "t": [1, 2, 5], "v": [1, 2]}
    eps32 = torch.finfo(torch.float32).eps
    K = block.get("strike", 2.5)
    memo = {}
    for call in ([True, False] if HAS_PUT[product] else [True]):
        for pos in (("s", "m", "t", "v") if HAS_MAX[product] else ("s", "t", "v")):
            if block.get("positions") and pos not in block["positions"]:
                continue
            a = dict(num)
            a[pos] = torch.tensor(ints[pos])
            if product == "american_binary" and pos != "m":
                a["m"] = torch.tensor(0.25)       # documented (and only accepted) as a tensor
            mb = dict(block, positions=[pos])
            try:
                out = call_functional(product, a["s"], a["m"], a["t"], a["v"], K, call)
            except (RuntimeError, TypeError, ValueError, AttributeError) as e:
                ctx.tick(1)
                ctx.violation(SITE[product], f"single_integer_tensor_{pos}_raises:{type(e).__name__}",
                              f"{SITE[product]} with an integer tensor for '{pos}' and python numbers elsewhere raised {e}",
                              observed=repr(e)[:200], expected="E[payoff]", block=mb, family="integer_forms")
                continue
            n = len(ints[pos])
            ctx.tick(n, nontrivial=n)
            if tuple(out.shape) != (n,) or not out.dtype.is_floating_point:
                ctx.violation(SITE[product], f"single_integer_tensor_{pos}_shape_or_dtype", f"shape {tuple(out.shape)} dtype {out.dtype}",
                              observed=[list(out.shape), str(out.dtype)], expected=[[n], "floating"], block=mb, family="integer_forms")
                continue
            for j, x in enumerate(ints[pos]):
                v_ = {k: (float(x) if k == pos else num[k]) for k in num}
                exp = unit_expectation(product, v_["s"], v_["m"] if HAS_MAX[product] else None, v_["t"], v_["v"], call, memo) \
                    * (K if product in ("european", "lookback") else 1)
                tol = C_TOL * eps32 * scale_of(product, v_["s"], v_["m"], v_["t"], v_["v"], K)
                g = float(out[j])
                if not (g == g and abs(mp.mpf(g) - exp) <= tol):
                    ctx.violation(SITE[product], f"single_integer_tensor_{pos}_python_numbers_truncated",
                                  f"{SITE[product]} with integer tensor {pos}={ints[pos]} and python numbers "
                                  f"{dict((k, w_) for k, w_ in num.items() if k != pos)} (call={call}, K={K}) returns {out.tolist()}; "
                                  f"E[payoff] at {pos}={x} is {float(exp)}", observed=g, expected=float(exp), block=mb, family="integer_forms")
                    break
    ctx.outcome(("integer_forms", product))


ATTR_OPS = ("flip_call", "set_strike", "copy", "deepcopy")


@family
def attr_history(ctx, block):
    """Attribute-mutation histories on the BS modules: start from BS*(call0, strike0); ops act on the newest module:
    flip_call (where puts are offered), set_strike (to strike1), copy.copy / copy.deepcopy (append the copy, later ops
    mutate the copy).  After every op EVERY module of the history must price / hedge according to its CURRENT public
    attributes: price == functional form with (module.call, module.strike) bitwise (the functional form is tied to the
    expectation by price_grid), delta == a freshly constructed module with those attributes.
    block: product, call0, strike0, strike1, dtype, histories [[op, ...], ...]."""
    import copy as _copy
    product = block["product"]
    dtype = DT[block["dtype"]]
    S_ = torch.tensor([-0.5, -0.125, 0.0, 0.25, 0.5], dtype=dtype)
    M_ = torch.tensor([-0.25, 0.0, 0.125, 0.25, 0.75], dtype=dtype)
    T_ = torch.tensor([0.25, 1.0, 0.0625, 2.0, 0.5], dtype=dtype)
    V_ = torch.tensor([0.25, 0.5, 1.0, 0.125, 0.375], dtype=dtype)
    site = MODULE[product]

    def check(mods, hist):
        for i, mod in enumerate(mods):
            call, K = bool(mod.call), mod.strike
            ref = call_functional(product, S_, M_, T_, V_, K, call)
            out = call_module(mod, product, S_, M_, T_, V_)
            ctx.tick(2 * S_.numel(), nontrivial=2 * S_.numel() if hist else 0)
            mb = dict(block, histories=[hist])
            if not _bitwise_equal(out, ref):
                j = _first_diff(out, ref)
                ctx.violation(site + ".price", "price_ignores_current_attributes_after_" + (hist[-1] if hist else "construction"),
                              f"module #{i} of history {hist} has call={call}, strike={K} but price() != {SITE[product]}(call={call}, strike={K})",
                              observed=float(out.flatten()[j]), expected=float(ref.flatten()[j]), block=mb, family="attr_history")
            args = (S_, M_, T_, V_) if HAS_MAX[product] else (S_, T_, V_)
            d_out = mod.delta(*args)
            d_ref = make_module(product, K, call).delta(*args)
            if not _bitwise_equal(d_out, d_ref):
                j = _first_diff(d_out, d_ref)
                ctx.violation(site + ".delta", "delta_ignores_current_attributes_after_" + (hist[-1] if hist else "construction"),
                              f"module #{i} of history {hist} has call={call}, strike={K} but delta() differs from a fresh {site}(call={call}, strike={K})",
                              observed=float(d_out.flatten()[j]), expected=float(d_ref.flatten()[j]), block=mb, family="attr_history")

    for hist in block["histories"]:
        if not HAS_PUT[product] and "flip_call" in hist:
            continue
        mods = [make_module(product, block["strike0"], block["call0"])]
        check(mods, [])
        for n, op in enumerate(hist, start=1):
            cur = mods[-1]
            if op == "flip_call":
                cur.call = not cur.call
            elif op == "set_strike":
                cur.strike = block["strike1"] if cur.strike != block["strike1"] else block["strike0"]
            elif op == "copy":
                mods.append(_copy.copy(cur))
            elif op == "deepcopy":
                mods.append(_copy.deepcopy(cur))
            check(mods, hist[:n])
            ctx.add("transitions")
        ctx.add("states", len(hist) + 1)
    ctx.outcome(("attr", product, block["call0"], block["dtype"]))


ROUTES = ("sim_via_lookback", "sim_via_american_binary", "sim_via_european", "stock_simulate", "set_buffers")


@family
def resim_history(ctx, block):
    """One underlier shared by a lookback, an American binary, a European call and a European binary put, each wrapped by
    BlackScholes(d).  Round 0 registers a path set; every later round brings NEW paths of the same shape by one of the
    routes (another derivative's simulate(), the stock's simulate(), re-registered buffers); after every round each
    module's price() and delta() with all arguments omitted must equal the functional form / an unbound module at
    features computed from the CURRENT buffers (bitwise), and the expectation oracle given the current state.
    block: A, T, dt, sigma, strike, dtype, histories [[route, ...], ...], oracle (bool)."""
    import pfhedge.nn as nn
    dtype = DT[block["dtype"]]
    K, T, dt, sigma = block["strike"], block["T"], block["dt"], block["sigma"]
    base = all_paths(block["A"], T, dtype=dtype)
    N = base.size(0)
    contents = [base, base.flip(0), base.roll(5, 0).flip(-1), base.flip(-1), base.roll(11, 0)]
    kinds = [("lookback", True), ("american_binary", True), ("european", True), ("european_binary", False)]
    memo = {}
    for hist in block["histories"]:
        stock = make_stock("brownian", dtype, sigma, dt, block.get("mu", 0.0))
        holder = {"next": None}
        market.ScriptedSimulate(stock, [lambda n, th, init: {"spot": holder["next"]}])
        market.set_buffers(stock, spot=contents[0])
        moff = block.get("mat_off", {})      # options of different maturities on the one stock; the grid has T points
        derivs = {p: market.derivative(KIND[p], stock, strike=K, call=c, maturity=(T - 1 + moff.get(p, 0)) * dt) for (p, c) in kinds}
        mods = {p: nn.BlackScholes(derivs[p]) for (p, _) in kinds}
        ctx.add("traces_validated_against_impl")

        def check_round(rnd):
            spot = stock.spot
            lm = (spot / K).log()
            steps = torch.arange(T).to(spot) * dt
            f = {"log_moneyness": lm, "max_log_moneyness": lm.cummax(dim=-1).values,
                 "time_to_maturity": (steps[-1] - steps).unsqueeze(0).expand(N, -1), "volatility": torch.full_like(spot, sigma)}
            live = slice(0, T - 1)
            for (p, c) in kinds:
                site = f"BlackScholes({type(derivs[p]).__name__})"
                route = "initial" if rnd == 0 else hist[rnd - 1]
                mb = dict(block, histories=[hist[:rnd]])
                ref = functional_at(p, f, K, c)
                out = mods[p].price()
                ctx.tick(N * (T - 1), nontrivial=N * (T - 1) if rnd else 0)
                ctx.add("transitions")
                if tuple(out.shape) != (N, T) or not _bitwise_equal(out[:, live], ref[:, live]):
                    j = _first_diff(out[:, live], ref[:, live]) if tuple(out.shape) == (N, T) else 0
                    r, cc = divmod(j, T - 1)
                    ctx.violation(site, f"stale_state_after_{route}_price",
                                  f"price() with arguments omitted after history {hist[:rnd]} does not use the CURRENT buffers: "
                                  f"path {spot[r].tolist()} step {cc}, strike {K}",
                                  observed=float(out[:, live].flatten()[j]) if tuple(out.shape) == (N, T) else list(out.shape),
                                  expected=float(ref[:, live].flatten()[j]), block=mb, family="resim_history")
                elif block.get("oracle") and block["dtype"] == "float64":
                    oracle_cells_exact(ctx, p, spot, K, f["time_to_maturity"], f["volatility"], out, c, dtype, site,
                                       f"after_{route}_",
                                       lambda r, cc: f"price() after history {hist[:rnd]} on path {spot[r].tolist()} step {cc} != E[payoff | current state]",
                                       lambda r: mb, "resim_history", memo=memo)
                if HAS_MAX[p]:
                    names = arg_names(p)
                    ref_d = make_module(p, K, c).delta(*[f[a] for a in names])
                    out_d = mods[p].delta()
                    ctx.tick(N * (T - 1), nontrivial=N * (T - 1) if rnd else 0)
                    if tuple(out_d.shape) != tuple(ref_d.shape) or not _bitwise_equal(out_d[:, live], ref_d[:, live]):
                        ctx.violation(site, f"stale_state_after_{route}_delta",
                                      f"delta() with arguments omitted after history {hist[:rnd]} does not use the CURRENT buffers",
                                      observed=float(out_d[:, live].flatten()[0]), expected=float(ref_d[:, live].flatten()[0]),
                                      block=mb, family="resim_history")

        check_round(0)
        for rnd, route in enumerate(hist, start=1):
            holder["next"] = contents[rnd % len(contents)]
            if route == "set_buffers":
                market.set_buffers(stock, spot=holder["next"])
            elif route == "stock_simulate":
                stock.simulate(n_paths=N, time_horizon=(T - 1) * dt)
            else:
                derivs[route[len("sim_via_"):]].simulate(n_paths=N)
            if not torch.equal(stock.spot, holder["next"]):
                raise HarnessError(f"route {route} did not install the scripted paths")
            check_round(rnd)
        ctx.add("states", len(hist) + 1)
    ctx.outcome(("resim", tuple(map(tuple, block["histories"][:2])), block["dtype"]))


# ----------------------------------------------------------------------------
# scenario arguments and several derivatives of the same kind
# ----------------------------------------------------------------------------

def fx_option(kind, stock, fx, **kw):
    """A USER SUBCLASS of the pfhedge option class that overrides moneyness() - the documented single definition point
    of (log-)moneyness - by a constant conversion factor: moneyness = fx * spot / strike (e.g. an option on the
    FX-converted price).  log_moneyness / max_moneyness / max_log_moneyness of OptionMixin dispatch through it."""
    import pfhedge.instruments as I
    base = {"european": I.EuropeanOption, "lookback": I.LookbackOption, "european_binary": I.EuropeanBinaryOption,
            "american_binary": I.AmericanBinaryOption}[kind]

    def moneyness(self, time_step=None, log=False):
        index = ... if time_step is None else [time_step]
        out = self.fx * self.underlier.spot[..., index] / self.strike
        return out.log() if log else out

    cls = type("FX" + base.__name__, (base,), {"fx": fx, "moneyness": moneyness})
    return cls(stock, **kw)


def make_stock(under, dtype, sigma, dt, mu=0.0):
    """Underlier whose `volatility` is the constant sigma; mu is the REAL-WORLD drift (irrelevant for the quote)."""
    if under in ("brownian", "merton", "kou"):
        return market.primary(under, dtype=dtype, sigma=sigma, dt=dt, mu=mu)
    raise KeyError(under)


def build_world(product, world, dtype, K, call):
    """A scripted derivative: world = {"under": "brownian"|"heston", "A": spot alphabet, "T", "dt", "sigma",
    "rows": optional path subset}.  Returns (derivative, features computed by the harness from the buffers)."""
    T, dt = world["T"], world["dt"]
    spot = all_paths(world["A"], T, dtype=dtype)
    if world.get("rows") is not None:
        spot = spot[world["rows"]]
    N = spot.size(0)
    if world.get("under", "brownian") == "heston":
        stock = market.primary("heston", dtype=dtype, dt=dt)
        # volatility sigma on even rows, 2*sigma on odd rows (variance = its square, dyadic sigma: exact)
        row = torch.arange(N)
        if world.get("rows") is not None:
            row = torch.tensor(world["rows"])
        fac = (1 + (row % 2)).to(dtype).unsqueeze(-1).expand(N, T)
        variance = (fac * world["sigma"]) ** 2
        market.script_primary(stock, "heston", spot, variance)
        vol = variance.clamp(min=0.0).sqrt()
    else:
        stock = make_stock(world.get("under", "brownian"), dtype, world["sigma"], dt, world.get("mu", 0.0))
        market.set_buffers(stock, spot=spot)
        vol = torch.full_like(spot, world["sigma"])
    kw = {"strike": K}
    if HAS_PUT[product]:
        kw["call"] = call
    deriv = market.derivative(KIND[product], stock, T=T, **kw)
    lm = (spot / K).log()
    mlm = lm.cummax(dim=-1).values
    steps = torch.arange(T).to(spot) * dt
    ttm = (steps[-1] - steps).unsqueeze(0).expand(N, -1)
    feats = {"log_moneyness": lm, "max_log_moneyness": mlm, "time_to_maturity": ttm, "volatility": vol}
    return deriv, feats, spot


def arg_names(product):
    return ["log_moneyness", "max_log_moneyness", "time_to_maturity", "volatility"] if HAS_MAX[product] \
        else ["log_moneyness", "time_to_maturity", "volatility"]


def functional_at(product, f, K, call):
    return call_functional(product, f["log_moneyness"], f["max_log_moneyness"], f["time_to_maturity"], f["volatility"], K, call)


def oracle_cells(ctx, product, f, out, K, call, dtype, site, cls_prefix, msg, mini_for_row, family_name, valid=None):
    """Compare ``out`` (N, T) with the expectation oracle on every distinct (s, m, t, v) cell of the live
    columns (t > 0) [and valid mask: running max >= spot]."""
    eps = torch.finfo(dtype).eps
    T = out.size(1)
    L = {k: v.to(torch.float64).tolist() for k, v in f.items()}
    O = out.to(torch.float64).tolist()
    memo = {}
    cells = {}
    for r in range(out.size(0)):
        for c in range(T - 1):
            if valid is not None and not valid[r][c]:
                continue
            key = (L["log_moneyness"][r][c], L["max_log_moneyness"][r][c] if HAS_MAX[product] else None,
                   L["time_to_maturity"][r][c], L["volatility"][r][c])
            cells.setdefault(key, []).append((r, c))
    for (s_, m_, t_, v_), where in cells.items():
        exp = unit_expectation(product, s_, m_, t_, v_, call, memo) * (K if product in ("european", "lookback") else 1)
        mm = s_ if m_ is None else m_
        tol = C_TOL * eps * scale_of(product, s_, mm, t_, v_, K)
        ctx.add("distinct_oracle_cells")
        for (r, c) in where:
            g = O[r][c]
            ctx.tick(1, nontrivial=1)
            if not ((g == g) and abs(mp.mpf(g) - exp) <= tol):
                ctx.violation(site, cls_prefix + ("nan_" if g != g else "expectation_") + classify(product, s_, mm, K, call),
                              msg(r, c), observed=g, expected=float(exp), block=mini_for_row(r), family=family_name)
                break


@family
def scenario_args(ctx, block):
    """A module bound to a scripted derivative is called with SOME arguments supplied as scenario tensors of the
    path's shape (shifted / permuted / scaled versions of the derivative's own features) and the others left
    None: the result must be the functional form at (supplied arguments, the derivative's own remaining state).
    block: product, world, strike, call, dtype."""
    import pfhedge.nn as nn
    product, K, call = block["product"], block["strike"], block["call"]
    dtype = DT[block["dtype"]]
    deriv, own, spot = build_world(product, block["world"], dtype, K, call)
    N, T = spot.shape
    names = arg_names(product)
    site = f"BlackScholes({type(deriv).__name__})"
    live = slice(0, T - 1)
    col = torch.arange(T).to(spot).unsqueeze(0)
    scen = {   # several scenarios per argument, all of the path's shape
        "log_moneyness": {"shift_down": own["log_moneyness"] - 0.25,
                          "ramp_down": own["log_moneyness"] - 0.125 * (col + 1),
                          "other_path": own["log_moneyness"].flip(0)},
        "max_log_moneyness": {"shift_up": own["max_log_moneyness"] + 0.125},
        "time_to_maturity": {"halved": own["time_to_maturity"] * 0.5, "plus_dt": own["time_to_maturity"] + block["world"]["dt"]},
        "volatility": {"scaled": own["volatility"] * 1.5, "per_path": own["volatility"] * (1 + 0.25 * (torch.arange(N).to(spot) % 3)).unsqueeze(-1)},
    }
    mods = {"BlackScholes": nn.BlackScholes(deriv), "from_derivative": getattr(nn, MODULE[product]).from_derivative(deriv)}
    snap = market.snapshot(deriv)

    for label, mod in mods.items():
        for k in range(1, len(names)):                         # 1 .. n-1 supplied arguments
            for supplied in itertools.combinations(names, k):
                variants = itertools.product(*[sorted(scen[a].items()) for a in supplied])
                for combo in variants:
                    tag = "+".join(f"{a}:{nm}" for a, (nm, _) in zip(supplied, combo))
                    if block.get("only") and tag != block["only"]:
                        continue
                    feats = dict(own)
                    kwargs = {}
                    for a, (nm, ten) in zip(supplied, combo):
                        feats[a] = ten
                        kwargs[a] = ten
                    out = mod.price(**kwargs)
                    ctx.tick(N * (T - 1), nontrivial=N * (T - 1))
                    if tuple(out.shape) != (N, T) or out.dtype != dtype:
                        ctx.violation(site, "scenario_shape_or_dtype", f"{label}.price({tag}) has shape {tuple(out.shape)} dtype {out.dtype}",
                                      block=dict(block, only=tag), family="scenario_args")
                        continue
                    ref = functional_at(product, feats, K, call)
                    if not _bitwise_equal(out[:, live], ref[:, live]):
                        i = _first_diff(out[:, live], ref[:, live])
                        r, c = divmod(i, T - 1)
                        omitted = [a for a in names if a not in supplied]
                        ctx.violation(site, "scenario_" + "+".join(supplied) + "_supplied_" + "+".join(omitted) + "_not_from_derivative",
                                      f"{label}.price({tag}; {omitted} left None) != {SITE[product]} at (supplied, derivative's own {omitted}): "
                                      f"path {spot[r].tolist()} step {c}, strike {K}",
                                      observed=float(out[:, live].flatten()[i]), expected=float(ref[:, live].flatten()[i]),
                                      block=dict(block, only=tag), family="scenario_args")
                        continue
                    # expectation oracle for the single-argument scenarios (float64): only cells inside the
                    # property's domain (running max >= spot, t > 0)
                    if k == 1 and block["dtype"] == "float64" and block.get("oracle", True) and label == "BlackScholes" \
                            and combo[0][0] in ("shift_down", "halved", "scaled"):
                        valid = (feats["max_log_moneyness"] >= feats["log_moneyness"]).tolist()
                        oracle_cells(ctx, product, feats, out, K, call, dtype, site, "scenario_" + supplied[0] + "_",
                                     lambda r, c: f"{label}.price({tag}) on path {spot[r].tolist()} step {c} != E[payoff] at (supplied, own state)",
                                     lambda r: dict(block, only=tag), "scenario_args", valid=valid)
    if market.snapshot_diff(snap, market.snapshot(deriv)):
        ctx.violation(site, "price_mutates_buffers", "price(scenario) changed the derivative's buffers", block=block, family="scenario_args")
    ctx.outcome(("scenario", product, K, call))


@family
def multi_derivative(ctx, block):
    """Several derivatives with the same (kind, call flag, strike) but different scripted paths / sigma / dt /
    underlier type live in one process; BlackScholes(d_i) is built for each (in the given order, creation and use
    interleaved or not) and every module must price ITS derivative when arguments are omitted.
    block: product, strike, call, dtype, worlds [..], order [indices], interleave (bool)."""
    import pfhedge.nn as nn
    product, K, call = block["product"], block["strike"], block["call"]
    dtype = DT[block["dtype"]]
    built = [build_world(product, w, dtype, K, call) for w in block["worlds"]]
    site = f"BlackScholes({type(built[0][0]).__name__})"
    names = arg_names(product)
    mods = {}

    def use(i, stage):
        deriv, own, spot = built[i]
        mod = mods[i]
        N, T = spot.shape
        live = slice(0, T - 1)
        mb = dict(block)
        if mod.derivative is not deriv:
            ctx.tick(1, nontrivial=1)
            ctx.violation(site, "module_bound_to_another_derivative",
                          f"BlackScholes(d{i}) [{stage}] is bound to a different derivative object than d{i} "
                          f"(worlds {block['worlds']}, order {block['order']})", observed="other derivative", expected="the derivative it was built from",
                          block=mb, family="multi_derivative")
        ref = functional_at(product, own, K, call)
        for what in ("price", "delta"):
            if what == "delta":
                # differential: the bound module with all arguments omitted vs an unbound module of the same
                # class fed the derivative's state explicitly (the value of delta itself is C08's subject)
                r_ = make_module(product, K, call).delta(*[own[a] for a in names])
                out = mod.delta()
            else:
                out = mod.price()
                r_ = ref
            ctx.tick(N * (T - 1), nontrivial=N * (T - 1))
            if tuple(out.shape) != tuple(r_.shape):
                ctx.violation(site, f"multi_derivative_{what}_shape",
                              f"BlackScholes(d{i}).{what}() [{stage}] has shape {tuple(out.shape)}, its derivative's paths {tuple(r_.shape)}",
                              observed=list(out.shape), expected=list(r_.shape), block=mb, family="multi_derivative")
                continue
            if not _bitwise_equal(out[:, live], r_[:, live]):
                j = _first_diff(out[:, live], r_[:, live])
                r, c = divmod(j, T - 1)
                ctx.violation(site, f"multi_derivative_{what}_not_its_own_state",
                              f"BlackScholes(d{i}).{what}() [{stage}] != {what} at the state of d{i} (path {spot[r].tolist()} step {c}, "
                              f"world {block['worlds'][i]}), order {block['order']}",
                              observed=float(out[:, live].flatten()[j]), expected=float(r_[:, live].flatten()[j]),
                              block=mb, family="multi_derivative")
            elif what == "price" and stage.endswith("final") and block["dtype"] == "float64" and block.get("oracle", True):
                oracle_cells(ctx, product, own, out, K, call, dtype, site, "multi_derivative_",
                             lambda r, c: f"BlackScholes(d{i}).price() on path {spot[r].tolist()} step {c} != E[payoff] (world {block['worlds'][i]})",
                             lambda r: mb, "multi_derivative")

    order = block["order"]
    if block["interleave"]:
        for n, i in enumerate(order):
            mods[i] = nn.BlackScholes(built[i][0])
            use(i, f"right after creation #{n}")
            for j in order[:n]:
                use(j, f"after creating #{n}")
        for i in order:
            use(i, "final")
    else:
        for i in order:
            mods[i] = nn.BlackScholes(built[i][0])
        for i in order:
            use(i, "all created, final")
    ctx.outcome(("multi", product, K, call, tuple(order), block["interleave"]))



# ----------------------------------------------------------------------------
# model level
# ----------------------------------------------------------------------------

@family
def law_crosscheck(ctx, block):
    """block: t, v, levels (list of b > 0), lookback points [[s, m]], K list."""
    t, v = block["t"], block["v"]
    tol = mp.mpf("1e-22")
    for b in block["levels"]:
        g1, e1 = BE.G_girsanov(b, t, v)
        with mp.workdps(BE.DPS):
            g2 = BE.G_closed(b, t, v)
        ctx.tick(1, nontrivial=1)
        ctx.add("model_crosschecks")
        if not (abs(g1 - g2) <= tol and e1 <= tol):
            raise HarnessError(f"running-maximum law: Girsanov quadrature {mp.nstr(g1, 25)} != closed survival "
                               f"function {mp.nstr(g2, 25)} at b={b}, t={t}, v={v}")
    for (s, m) in block["lookback"]:
        unit, _ = BE.lookback_unit(s, m, t, v)
        for K in block["K"]:
            with mp.workdps(BE.DPS):
                S, M0 = K * mp.exp(mp.mpf(s)), K * mp.exp(mp.mpf(m))
            ex, e2 = BE.lookback_explicit(S, M0, K, t, v)
            dn, e3 = BE.lookback_density_form(S, M0, K, t, v)
            ctx.tick(2, nontrivial=2)
            ctx.add("model_crosschecks", 2)
            sc = K * (1 + mp.exp(m))
            if not (abs(ex - K * unit) <= tol * sc and abs(dn - ex) <= tol * sc):
                raise HarnessError(f"lookback expectation forms disagree at s={s}, m={m}, t={t}, v={v}, K={K}: "
                                   f"K*unit={mp.nstr(K * unit, 25)} explicit={mp.nstr(ex, 25)} density={mp.nstr(dn, 25)}")
        eu_c, _ = BE.european_unit(s, t, v, True)
        eu_p, _ = BE.european_unit(s, t, v, False)
        for K in block["K"]:
            with mp.workdps(BE.DPS):
                S = K * mp.exp(mp.mpf(s))
            a, _ = BE.european_explicit(S, K, t, v, True)
            b_, _ = BE.european_explicit(S, K, t, v, False)
            ctx.tick(2, nontrivial=2)
            ctx.add("model_crosschecks", 2)
            if not (abs(a - K * eu_c) <= tol * (S + K) and abs(b_ - K * eu_p) <= tol * (S + K)):
                raise HarnessError(f"european expectation: explicit (S,K) != K*unit at s={s}, t={t}, v={v}, K={K}")
        # second quadrature rule: tanh-sinh, 40 digits, finer panels
        vals30 = [BE.lookback_unit(s, m, t, v)[0], BE.european_unit(s, t, v, True)[0],
                  BE.european_binary_unit(s, t, v, False)[0]]
        if s < 0:
            vals30.append(BE.G_girsanov(-s, t, v)[0])
        old = (BE.DPS, BE.METHOD, BE.REACH)
        try:
            BE.DPS, BE.METHOD, BE.REACH = 40, "tanh-sinh", (1, 2, 4, 8, 16, 40)
            vals40 = [BE.lookback_unit(s, m, t, v)[0], BE.european_unit(s, t, v, True)[0],
                      BE.european_binary_unit(s, t, v, False)[0]]
            if s < 0:
                vals40.append(BE.G_girsanov(-s, t, v)[0])
        finally:
            BE.DPS, BE.METHOD, BE.REACH = old
        ctx.tick(len(vals30), nontrivial=len(vals30))
        ctx.add("model_crosschecks", len(vals30))
        for a, b_ in zip(vals30, vals40):
            if not abs(a - b_) <= tol * (1 + mp.exp(m)):
                raise HarnessError(f"oracle quadrature rules disagree at s={s}, m={m}, t={t}, v={v}: "
                                   f"{mp.nstr(a, 28)} vs {mp.nstr(b_, 28)}")
    ctx.outcome(("law", t, v))


@family
def lattice(ctx, block):
    """block: kind ('barrier'|'lookback'), t, v, n, jb (strike level above the spot, in lattice steps),
    jM (running-max level above the spot), dtype."""
    kind, t, v, n, jb = block["kind"], block["t"], block["v"], block["n"], block["jb"]
    dtype = DT[block.get("dtype", "float64")]
    w = v * math.sqrt(t)
    h = w / math.sqrt(n)
    s = -jb * h                      # log(S/K), K = 1
    if kind == "barrier":
        delta = 4 / math.sqrt(n)
        res = LAT.explore_barrier(n, h, jb)
        tail = LAT.clock_tail_bound(n, h, delta)
        with mp.workdps(BE.DPS):
            # walk reaches node jb  <=>  the continuous path reaches b = jb*h before tau_n  (exact),
            # and t(1-delta) <= tau_n <= t(1+delta) except on an event of probability <= tail
            lo = float(BE.G_closed(jb * h, t * (1 - delta), v)) - tail
            hi = float(BE.G_closed(jb * h, t * (1 + delta), v)) + tail
            g_closed = float(BE.G_closed(jb * h, t, v))
        g_quad = float(BE.american_binary_unit(s, s, t, v)[0]) if jb > 0 else 1.0
        import pfhedge.nn.functional as F
        S_ = torch.tensor(s, dtype=dtype)
        impl = float(F.bs_american_binary_price(S_, S_, torch.tensor(t, dtype=dtype), torch.tensor(v, dtype=dtype)))
        names = ("closed survival function", "Girsanov quadrature")
        site = "bs_american_binary_price"
        oracle_vals = (g_closed, g_quad)
        L = res["value"]
        # the oracle must lie in the band *around the lattice value*: L in [lo(G), hi(G)] is a statement
        # about G at shifted clocks; monotonicity of G in t turns it into  G(t(1-d)) - tail <= L <= G(t(1+d)) + tail
        ok_model = lo - 1e-12 <= L <= hi + 1e-12
        width = hi - lo
    else:
        jM = block["jM"]
        m = s + jM * h
        delta = 6 / math.sqrt(n)
        S0, M0 = math.exp(s), math.exp(m)
        res = LAT.explore_lookback(n, h, jM, S0, 1.0)
        tail = LAT.clock_tail_bound(n, h, delta)
        l2_hi = M0 + 2 * S0 * math.sqrt(LAT.second_moment_at_clock(n, h))          # || payoff(max up to tau_n) ||_2
        l2_lo = M0 + 2 * S0 * math.exp(w * w * (1 - delta) / 2)                    # || payoff(max up to t(1-d)) ||_2
        v_lo = float(BE.lookback_unit(s, m, t * (1 - delta), v)[0])
        v_hi = float(BE.lookback_unit(s, m, t * (1 + delta), v)[0])
        # E pay(walk max) <= V(tau_n) <= e^h E pay(walk max) + (e^h - 1) K ;  V(t(1-d)) - rare <= V(tau_n) <= V(t(1+d)) + rare
        lo = (v_lo - math.sqrt(tail) * l2_lo - (math.exp(h) - 1)) / math.exp(h)
        hi = v_hi + math.sqrt(tail) * l2_hi
        L = res["value"]
        ok_model = lo - 1e-12 <= L <= hi + 1e-12
        width = hi - lo
        import pfhedge.nn.functional as F
        impl = float(F.bs_lookback_price(torch.tensor(s, dtype=dtype), torch.tensor(m, dtype=dtype),
                                         torch.tensor(t, dtype=dtype), torch.tensor(v, dtype=dtype), 1.0))
        site = "bs_lookback_price"
        oracle_vals = (float(BE.lookback_unit(s, m, t, v)[0]),)
        names = ("layer-cake quadrature",)
    ctx.add("states", res["states"])
    ctx.add("transitions", res["transitions"])
    ctx.add("traces_validated_against_impl", 1)
    ctx.add("lattice_leaves", res["leaves"])
    ctx.tick(1, nontrivial=1)
    ctx.outcome((kind, round(L, 9)))
    if not ok_model:
        raise HarnessError(f"lattice ({kind}, t={t}, v={v}, n={n}, jb={jb}) value {L} outside the bracket [{lo}, {hi}] "
                           f"computed from the oracle's running-maximum law: the oracle (or the lattice) is wrong")
    # The continuous value V(t) itself lies between the same shifted-clock values (monotone in t), so
    # |V(t) - L| <= width; the same is demanded of pfhedge's number.
    for nm, val in zip(names, oracle_vals):
        if not abs(val - L) <= width:
            raise HarnessError(f"oracle {nm} {val} further than the bracket width {width} from the lattice value {L}")
    if len(ctx.samples) < 3:
        ctx.sample({"family": "lattice", "kind": kind, "t": t, "v": v, "n": n, "jb": jb, "jM": block.get("jM"),
                    "states": res["states"], "transitions": res["transitions"], "lattice_value": L,
                    "bracket": [lo, hi], "oracle": list(oracle_vals), "pfhedge": impl})
    if not (impl == impl and abs(impl - L) <= width):
        ctx.violation(site, "outside_lattice_bracket_" + kind,
                      f"{site}(s={s}, m={block.get('jM', 0) * h + s}, t={t}, v={v}) = {impl}; lattice (n={n}) value {L}, bracket width {width}",
                      observed=impl, expected=[L - width, L + width], block=block, family="lattice")


@family
def work(ctx, block):
    """Dispatcher so that one worker pool serves all families: block = {"f": family, "b": block}.
    (Every ctx.violation above names its own family, so replay files address the inner family.)"""
    FAMILIES[block["f"]](ctx, block["b"])


# ----------------------------------------------------------------------------
# enumeration
# ----------------------------------------------------------------------------

def m_alphabet(s):
    """Running-max symbols for log-moneyness s: at the spot, just above, well above, and the
    strike-crossing neighbours -1e-3, 0, +1e-3 (float32 values), all >= s."""
    cand = [s, f32(s + 0.05), f32(s + 0.5), f32(-1e-3), 0.0, f32(1e-3)]
    out = []
    for m in cand:
        if m >= s and m not in out:
            out.append(m)
    return out


def points_for(product, ss, t, v):
    pts = []
    for s in ss:
        if not HAS_MAX[product]:
            pts.append([s, None, t, v])
        elif product == "lookback":
            pts += [[s, m, t, v] for m in m_alphabet(s)]
        else:
            pts += [[s, m, t, v] for m in m_alphabet(s)]
    return pts


def run(ctx):
    ctx.rule("price_grid: full product log-moneyness x (t, v) x running-max symbols(s) x strikes x call/put x "
             "dtype x call form, every point compared with the quadrature of the payoff against the model law; "
             "non-trivial = expectation differs from the certain payoff and from 0 by > 1e-9 (optionality matters). "
             "derivative_forms: all |A|^T scripted paths x steps with t > 0 x every subset of None arguments. "
             "lattice: every reachable (step, level, hit flag / max level) state and every transition")
    ctx.assume("mpmath elementary functions and Gauss-Legendre quadrature of analytic integrands at 30 digits "
               "(cross-checked in-run against tanh-sinh at 40 digits)")
    ctx.assume("the law of the running maximum of drifted Brownian motion: two derivations cross-checked in-run "
               "(Girsanov + driftless reflection principle quadrature vs closed survival function) and bracketed "
               "by the exhaustive binomial lattice")
    ctx.assume("alphabet values are float32-representable, so float32 and float64 calls receive the same real inputs; "
               "values between grid points are not covered (C09 adds monotonicity/convexity/continuity relations)")
    S_BASE = [k / 4 for k in range(-4, 5)]                                  # 9 points of [-1, 1]
    T_BASE = [f32(x) for x in (0.004, 0.08, 1.0, 5.0)]
    V_BASE = [f32(x) for x in (0.01, 0.2, 0.7, 2.0)]
    K_BASE = [0.125, 1.0, 2.5, 10.0]
    if ctx.thorough:
        S_BASE = [k / 16 for k in range(-16, 17)]                           # 33 points
        T_BASE = [f32(x) for x in (0.004, 0.02, 0.08, 0.25, 1.0, 2.0, 3.5, 5.0)]
        V_BASE = [f32(x) for x in (0.01, 0.05, 0.2, 0.4, 0.7, 1.0, 1.5, 2.0)]
        K_BASE = [0.125, 0.6875, 1.0, 2.5, 10.0]
    s_x = ctx.extra_symbol("log_moneyness", [f32(x) for x in (-0.9, -0.6, -0.3, -0.1, -0.01, 0.01, 0.1, 0.3, 0.6, 0.9)])
    k_x = ctx.extra_symbol("strike", [0.25, 0.5, 1.5, 4.0, 8.0, f32(0.11), f32(7.3)])
    tv_x = ctx.extra_symbol("t_v_pair", [[f32(0.5), f32(0.3)], [f32(2.5), f32(0.15)], [f32(0.03), f32(1.2)],
                                         [f32(0.2), f32(0.05)], [f32(4.0), f32(1.7)]])
    ss = sorted(S_BASE + [s_x])
    strikes = K_BASE + [k_x]
    tvs = [(t, v) for t in T_BASE for v in V_BASE] + [tuple(tv_x)]
    ctx.alphabet("log_moneyness", ss)
    ctx.alphabet("time_to_maturity", T_BASE + [tv_x[0]])
    ctx.alphabet("volatility", V_BASE + [tv_x[1]])
    ctx.alphabet("strike", strikes)
    ctx.alphabet("max_log_moneyness(s)", "s, f32(s+0.05), f32(s+0.5), f32(-1e-3), 0, f32(1e-3) (those >= s)")
    jobs = []        # (weight, family, block)
    blocks = []
    for (t, v) in tvs:
        for product in PRODUCTS:
            calls = [True, False] if HAS_PUT[product] else [True]
            ks = strikes if HAS_STRIKE_ARG[product] else [1.0, k_x]     # module strike only (unused by the price)
            pts = points_for(product, ss, t, v)
            # split heavy lookback blocks so that workers stay balanced
            chunk = 24 if product == "lookback" else 64
            for i in range(0, len(pts), chunk):
                blocks.append({"product": product, "points": pts[i:i + chunk], "strikes": ks, "calls": calls,
                               "dtypes": ["float64", "float32"],
                               "forms": ["flat", "module", "bcast", "scalar0", "pyfloat", "mixed", "no_grad", "requires_grad"]})
    # tiny but non-zero log-moneyness and time (inside the domain t in (0, 5]): s/w is of order 1 .. 1e5 although both
    # are below 1e-8 - the prices are functions of s/w and must not be confused with the 0/0 corner
    S_TINY = ctx.pick([5e-9, -5e-9, 1e-9, -1e-12], [5e-9, -5e-9, 1e-9, -1e-9, 1e-12, -1e-12])
    T_TINY = ctx.pick([1e-16, 1e-12], [1e-16, 1e-18, 1e-12])
    V_TINY = [f32(0.2), 1e-4]
    ctx.alphabet("tiny symbols (float64 only)", {"log_moneyness": S_TINY, "time_to_maturity": T_TINY, "volatility": V_TINY})
    for product in PRODUCTS:
        pts = []
        for t in T_TINY:
            for v in V_TINY:
                for s_ in S_TINY:
                    if not HAS_MAX[product]:
                        pts.append([s_, None, t, v])
                    else:
                        pts += [[s_, m_, t, v] for m_ in sorted({s_, max(s_, 0.0), max(s_, 5e-9)})]
        for i in range(0, len(pts), 24):
            blocks.append({"product": product, "points": pts[i:i + 24], "strikes": [1.0, 2.5],
                           "calls": [True, False] if HAS_PUT[product] else [True], "dtypes": ["float64"],
                           "forms": ["flat", "module", "scalar0", "mixed", "no_grad"]})
    for b in blocks:
        jobs.append((len(b["points"]) * (3 if b["product"] == "lookback" else 1), "price_grid", b))
    workers = int(os.environ.get("VERIF_WORKERS", ctx.pick(4, 8)))

    # ---- modules built from scripted derivatives ----
    dblocks = []
    configs = [  # (A, T, dt, sigma, strike)
        ([0.75, 1.0, 1.5], 3, 0.25, 0.3, 1.25),
        ([2.0, 2.5, 3.5], 3, 0.125, 0.75, 2.5),
    ]
    if ctx.thorough:
        configs += [([0.0625, 0.125, 0.25], 4, 0.5, 0.2, 0.125), ([6.0, 9.0, 12.0, 16.0], 3, 1.0, 1.5, 10.0)]
    for (A, T, dt_, sigma, K) in configs:
        for product in PRODUCTS:
            for call in ([True, False] if HAS_PUT[product] else [True]):
                for dname in ("float64", "float32"):
                    dblocks.append({"product": product, "A": A, "T": T, "dt": dt_, "sigma": f32(sigma), "strike": K,
                                    "call": call, "dtype": dname})
    ctx.alphabet("derivative_forms (A, T, dt, sigma, strike)", configs)
    # options struck at the money at inception with a non-dyadic strike: every path starts AT the strike
    # (spot == strike exactly in the dtype), so the barrier has been reached on every path from step 0 on
    atm = []
    for k0 in (0.9, 1.03, 1.05, 1.3):
        for dname in ("float64", "float32"):
            Kx = k0 if dname == "float64" else f32(k0)
            for product in PRODUCTS:
                if ctx.quick and not HAS_MAX[product] and k0 != 1.05:
                    continue
                for call in ([True, False] if HAS_PUT[product] else [True]):
                    atm.append({"product": product, "A": [Kx, 0.75, 1.5], "first": Kx, "T": 3, "dt": 0.25, "sigma": f32(0.3),
                                "strike": Kx, "call": call, "dtype": dname})
    ctx.alphabet("at-the-money-at-inception strikes", [0.9, 1.03, 1.05, 1.3, "and their float32 roundings"])
    # real-world drift of the underlier (irrelevant for the zero-rate risk-neutral quote), jump-diffusion underliers,
    # and grids whose horizon differs from the option's own maturity
    extra = []
    for product in PRODUCTS:
        for call in ([True, False] if HAS_PUT[product] else [True]):
            for dname in ("float64", "float32"):
                b0 = {"product": product, "A": [0.75, 1.0, 1.5], "T": 3, "dt": 0.25, "sigma": f32(0.3), "strike": 1.25,
                      "call": call, "dtype": dname}
                orc = dname == "float64"        # (the bitwise comparison with the functional form runs everywhere)
                extra.append(dict(b0, under="brownian", mu=0.5, oracle=orc))
                extra.append(dict(b0, under="merton", mu=-0.25, oracle=False))
                extra.append(dict(b0, under="kou", mu=0.125, oracle=orc and ctx.thorough))
                for off in (-2, -1, 2):
                    extra.append(dict(b0, maturity_offset=off, T=4 if off < 0 else 3, oracle=orc and (off != -1 or ctx.thorough)))
                extra.append(dict(b0, under="brownian", mu=0.5, maturity_offset=2, oracle=False))
                # step sizes that float32 cannot represent (market.DT and the other worlds are dyadic): the time grid handed to
                # the formulas must be the (T-1-i)*dt of the underlier's dtype
                for dt_x in (1 / 250, 0.01):
                    extra.append(dict(b0, dt=dt_x, T=4, oracle=orc and dt_x == 0.01 and product in ("european", "lookback")))
                if USER_SUBCLASS_WORLDS:      # optional diagnostic, not part of the claim
                    extra.append(dict(b0, fx=1.25, oracle=orc))       # user subclass overriding moneyness()
                    extra.append(dict(b0, fx=0.5, strike=0.5, A=[0.75, 1.0, 1.5], oracle=False))
    ctx.alphabet("underlier drift mu", [0.5, -0.25, 0.125])
    ctx.alphabet("maturity minus grid horizon (steps)", [-2, -1, 2])
    jobs += [(30, "derivative_forms", b) for b in dblocks + atm + extra]
    jobs += [(20, "integer_forms", {"product": product}) for product in PRODUCTS]
    # ---- attribute-mutation histories on the modules ----
    ahist = [list(h) for d in range(1, ctx.pick(3, 4) + 1) for h in itertools.product(ATTR_OPS, repeat=d)]
    for product in PRODUCTS:
        for call0 in ([True, False] if HAS_PUT[product] else [True]):
            for dname in ("float64", "float32"):
                jobs.append((25, "attr_history", {"product": product, "call0": call0, "strike0": 1.0, "strike1": 2.5, "dtype": dname,
                                                  "histories": ahist}))
    jobs += [(5, "flag_table", {"dtype": dname, "strike": K}) for dname in ("float64", "float32") for K in (1.0, 1.25)]
    # ---- re-simulation histories on a shared underlier ----
    ctx.alphabet("re-simulation routes", list(ROUTES))
    depth = 3
    hists = [list(h) for h in itertools.product(ROUTES, repeat=depth)]
    rw = {"A": [0.75, 1.0, 1.5], "T": 3, "dt": 0.25, "sigma": 0.25, "strike": 1.25, "mu": 0.25,
          "mat_off": {"lookback": 2, "american_binary": -1, "european": 0, "european_binary": 3}}
    for r0 in ROUTES:
        jobs.append((45, "resim_history", dict(rw, dtype="float64", histories=[h for h in hists if h[0] == r0])))
    jobs.append((45, "resim_history", dict(rw, dtype="float32", histories=[list(h) for h in itertools.product(ROUTES, repeat=2)])))
    jobs.append((45, "resim_history", dict(rw, dtype="float64", oracle=True,
                                           histories=[["stock_simulate", "sim_via_european", "set_buffers"],
                                                      ["sim_via_american_binary", "sim_via_lookback", "stock_simulate"]])))
    if ctx.thorough:
        rw2 = {"A": [1.0, 1.5, 0.5, 2.0], "T": 4, "dt": 0.125, "sigma": 0.5, "strike": 1.5}
        for r0 in ROUTES:
            jobs.append((90, "resim_history", dict(rw2, dtype="float64", histories=[list(h) for h in itertools.product(ROUTES, repeat=4) if h[0] == r0])))

    # ---- scenario arguments (some arguments supplied, the rest read from the derivative) ----
    W1 = {"under": "brownian", "A": [0.75, 1.0, 1.5], "T": 3, "dt": 0.25, "sigma": 0.25}
    W2 = {"under": "brownian", "A": [1.0, 1.25, 2.0], "T": 4, "dt": 0.125, "sigma": 0.5, "mu": 0.375}
    W3 = {"under": "heston", "A": [0.5, 1.5], "T": 3, "dt": 0.5, "sigma": 0.25}
    for product in PRODUCTS:
        for call in ([True, False] if HAS_PUT[product] else [True]):
            for dname in ("float64", "float32"):
                for world, K in ([(W1, 1.25)] if ctx.quick else [(W1, 1.25), (W2, 1.5), (W3, 1.25)]):
                    if dname == "float32" and world is not W1:
                        continue
                    jobs.append((40, "scenario_args", {"product": product, "world": world, "strike": K, "call": call, "dtype": dname}))
    # ---- several derivatives with the same (kind, call, strike) in one process ----
    worlds = [W1, W2, W3]
    ctx.alphabet("multi_derivative worlds", worlds)
    for product in PRODUCTS:
        for call in ([True, False] if HAS_PUT[product] else [True]):
            for order in itertools.permutations(range(3)):
                for inter in (False, True):
                    for dname in ("float64", "float32"):
                        if dname == "float32" and (ctx.quick and (order not in ((0, 1, 2), (2, 1, 0)))):
                            continue
                        first = order == (0, 1, 2) and not inter
                        jobs.append((60 if first else 10, "multi_derivative",
                                     {"product": product, "strike": 1.25, "call": call, "dtype": dname, "worlds": worlds,
                                      "order": list(order), "interleave": inter, "oracle": first and dname == "float64"}))
    # ---- model level ----
    lblocks = []
    law_tv = [(T_BASE[2], V_BASE[1]), (T_BASE[-1], V_BASE[-1]), (T_BASE[0], V_BASE[0])]
    if ctx.thorough:
        law_tv = [(t, v) for t in T_BASE for v in V_BASE]
    for (t, v) in law_tv + [tuple(tv_x)]:
        w = v * math.sqrt(t)
        lb = [[s_x, max(s_x, f32(1e-3))]]
        if ctx.thorough:
            lb += [[-0.5, f32(-0.45)], [0.25, 0.75]]
        lblocks.append({"t": t, "v": v, "levels": [f32(x) for x in (0.25, 1.0, 0.5 * w, 2 * w, 1e-3)],
                        "lookback": lb, "K": [0.125, k_x]})
    jobs += [(60, "law_crosscheck", b) for b in lblocks]

    latt = []
    if ctx.quick:
        latt += [{"kind": "barrier", "t": 1.0, "v": f32(0.2), "n": 1600, "jb": 20},
                 {"kind": "lookback", "t": 1.0, "v": f32(0.2), "n": 225, "jb": 8, "jM": 4}]
    else:
        for (t, v) in [(1.0, f32(0.2)), (f32(0.08), f32(0.7)), (5.0, f32(0.7)), (f32(0.004), 2.0)]:
            latt += [{"kind": "barrier", "t": t, "v": v, "n": 6400, "jb": 40},
                     {"kind": "barrier", "t": t, "v": v, "n": 6400, "jb": 120},
                     {"kind": "lookback", "t": t, "v": v, "n": 400, "jb": 10, "jM": 5},
                     {"kind": "lookback", "t": t, "v": v, "n": 625, "jb": -6, "jM": 0 if t != 1.0 else 12}]
        latt += [{"kind": "lookback", "t": 1.0, "v": f32(0.2), "n": 900, "jb": 15, "jM": 0},
                 {"kind": "lookback", "t": 5.0, "v": f32(0.2), "n": 900, "jb": 0, "jM": 10}]
    jobs += [(40 + b["n"] ** (3 if b["kind"] == "lookback" else 2) / 4e5, "lattice", b) for b in latt]
    # heavy first (stable), one pool for everything
    jobs.sort(key=lambda j: -j[0])
    ctx.run_parallel("work", [{"f": f, "b": b} for (_, f, b) in jobs], workers=workers)

"""C06 - cash() is the certainty equivalent and price() the indifference price.
Engine: grid (+ scripted market).

Families
  cash   every criterion x every sample of length N over the alphabet (constants and ties
         included) x target variants: cash(x) of each sample on its own (shape (N,)), then the
         same samples as the columns of one (N, M) / (N, M', K) tensor.
           identity     criterion(full_like(x, cash)) == criterion(x)  within
                        (search precision x slope of c -> criterion(const c)) + derived rounding
           range        min(x) <= cash <= max(x);  cash <= mean(x) (all criteria here are risk-averse)
           qcvar        cash == -loss   (the only thing the statement asks of quadratic CVaR)
           columnwise   cash of a multi-column sample == column-wise cash, shape (M,) / (M', K)
  price  scripted market (ScriptedSimulate: every path over a price alphabet, so the compared
         quantities see the same paths) x derivative kinds x hedgers {Naked, dyadic Linear,
         BlackScholes} x criteria x n_times {1, 2}:
           price == -criterion.cash(compute_portfolio - payoff) on the same script(s) (mean over scripts)
           price(payoff + k) == price + k for the cash-invariant criteria (clause "+k")
           entropic risk measure: price == compute_loss;  price carries no graph by default;
           simulate() is asked for (n_paths, maturity, init_state) under no_grad.

Criteria relying on the default search (HedgeLoss.cash = bisect over [min, max]):
IsoelasticLoss, OCE(exponential utility) and user subclasses (mean-variance with
gamma * range <= 1 so that the certainty equivalent is inside [min, max]; the non-smooth
blend -(mean + min)/2, the worst case -min and a tail mean (user expected shortfall), whose
certainty equivalent coincides with the worst outcome, and the risk-seeking mirror -(mean + max)/2 for which "cash <= mean" is
not demanded).  Finding 8 (fixed in /repo; classes kept to name a regression) is classified from the input: the whole sample constant
(-> ValueError "lower < upper") resp. more than one column (-> candidates are reduced along
dim 0 as if they were paths); any failure on a non-constant single-column sample keeps a
different class.
"""
from __future__ import annotations

import math

import torch

from mc.core import market
from mc.core.explore import all_paths
from mc.models import risk_space as S

FAMILIES = {}


def family(fn):
    FAMILIES[fn.__name__] = fn
    return fn


SEARCH_PREC = 1e-6          # documented default precision of the default search (bisect)
GAMMA = 0.125               # mean-variance user criterion
CLOSED = ("erm", "eloss", "es", "qcvar")
DEFAULT = ("iso", "oce", "user_mv", "user_blend", "user_optimist", "user_worst", "user_es",
           "user_lossonly", "user_satiated", "oce_cvar")   # the last three: utilities with a FLAT region
NOT_RISK_AVERSE = ("user_optimist",)   # certainty equivalent above the mean: "cash <= mean" is not demanded
PARAMS = {"erm": [0.1, 1.0, 10.0], "eloss": [0.1, 1.0, 10.0], "es": [0.05, 0.2, 1 / 3, 0.5, 0.75, 1.0],
          "qcvar": [1.0, 2.0, 10.0, 100.0], "iso": [0.25, 0.5, 1.0], "oce": [0.0, 0.5],
          "user_mv": [GAMMA], "user_blend": [0.5], "user_optimist": [0.5],
          "user_worst": [0.0], "user_es": [0.05, 0.5],
          "user_lossonly": [0.0], "user_satiated": [0.25], "oce_cvar": [0.5]}
NAMES = {"erm": "EntropicRiskMeasure", "eloss": "EntropicLoss", "es": "ExpectedShortfall",
         "qcvar": "QuadraticCVaR", "iso": "IsoelasticLoss", "oce": "OCE", "user_mv": "MeanVariance(user)",
         "user_blend": "MeanMinBlend(user)", "user_optimist": "MeanMaxBlend(user)",
         "user_worst": "WorstCase(user)", "user_es": "TailMean(user)",
         "user_lossonly": "ExpectedLoss(user)", "user_satiated": "SatiatedUtility(user)", "oce_cvar": "OCE[min(x,0)/p]"}

_USER = {}


def _user_classes():
    if not _USER:
        from pfhedge.nn import HedgeLoss

        class MeanVariance(HedgeLoss):
            """User criterion without a closed-form cash(): -(mean - gamma var)."""

            def __init__(self, gamma):
                super().__init__()
                self.gamma = gamma

            def forward(self, input, target=0.0):
                pl = input - target
                return -(pl.mean(0) - self.gamma * pl.var(0, unbiased=False))

        class MeanMinBlend(HedgeLoss):
            """Non-smooth user criterion: -(w mean + (1-w) worst outcome)."""

            def __init__(self, w):
                super().__init__()
                self.w = w

            def forward(self, input, target=0.0):
                pl = input - target
                return -(self.w * pl.mean(0) + (1 - self.w) * pl.amin(0))

        class MeanMaxBlend(HedgeLoss):
            """Risk-seeking non-smooth user criterion: -(w mean + (1-w) best outcome)."""

            def __init__(self, w):
                super().__init__()
                self.w = w

            def forward(self, input, target=0.0):
                pl = input - target
                return -(self.w * pl.mean(0) + (1 - self.w) * pl.amax(0))

        class WorstCase(HedgeLoss):
            """User criterion whose certainty equivalent IS the worst outcome: -min."""

            def __init__(self, unused=0.0):
                super().__init__()

            def forward(self, input, target=0.0):
                return -(input - target).amin(0)

        class TailMean(HedgeLoss):
            """User expected shortfall without a closed-form cash(): -mean of the ceil(pN) worst
            outcomes (certainty equivalent = worst outcome when ceil(pN) = 1 or the tail is tied)."""

            def __init__(self, p):
                super().__init__()
                self.p = p

            def forward(self, input, target=0.0):
                pl = input - target
                k = max(1, math.ceil(self.p * pl.size(0)))
                return -pl.sort(0).values[:k].mean(0)

        _USER["mv"], _USER["blend"], _USER["optimist"] = MeanVariance, MeanMinBlend, MeanMaxBlend
        class ExpectedLoss(HedgeLoss):
            """Only losses hurt: -mean(min(pl, 0)); flat in the cash amount on gains."""

            def __init__(self, unused=0.0):
                super().__init__()

            def forward(self, input, target=0.0):
                return -(input - target).clamp(max=0.0).mean(0)

        class SatiatedUtility(HedgeLoss):
            """Concave utility that is satiated above a cap: -mean(min(pl, cap))."""

            def __init__(self, cap):
                super().__init__()
                self.cap = cap

            def forward(self, input, target=0.0):
                return -(input - target).clamp(max=self.cap).mean(0)

        _USER["worst"], _USER["es"] = WorstCase, TailMean
        _USER["lossonly"], _USER["satiated"] = ExpectedLoss, SatiatedUtility
    return _USER


def make(crit, param, dtype):
    if crit in ("erm", "eloss", "es", "qcvar", "iso"):
        return S.module(crit, param)
    if crit == "oce":
        from pfhedge.nn.modules.loss import OCE
        m = OCE(lambda z: 1 - (-z).exp()).to(S.DT[dtype])
        with torch.no_grad():
            m.w.fill_(param)
        return m
    if crit == "user_mv":
        return _user_classes()["mv"](param)
    if crit == "user_blend":
        return _user_classes()["blend"](param)
    if crit == "user_optimist":
        return _user_classes()["optimist"](param)
    if crit == "user_worst":
        return _user_classes()["worst"](param)
    if crit == "user_es":
        return _user_classes()["es"](param)
    if crit == "user_lossonly":
        return _user_classes()["lossonly"](param)
    if crit == "user_satiated":
        return _user_classes()["satiated"](param)
    if crit == "oce_cvar":
        from pfhedge.nn.modules.loss import OCE
        return OCE(lambda z: z.clamp(max=0.0) / param).to(S.DT[dtype])    # CVaR utility, w = 0
    raise KeyError(crit)


def site_of(crit):
    return "HedgeLoss.cash" if crit in DEFAULT else NAMES[crit] + ".cash"


def const_slope(crit, param, c):
    """|d/dc criterion(constant sample c)| (float64 tensor)."""
    c = c.to(torch.float64)
    if crit in ("erm", "es", "qcvar", "user_mv", "user_blend", "user_optimist", "user_worst", "user_es",
                "user_lossonly", "user_satiated"):
        return torch.ones_like(c)                      # (an upper bound where the utility is flat)
    if crit == "oce_cvar":
        return torch.ones_like(c) / param
    if crit == "eloss":
        return param * torch.exp(-param * c)
    if crit == "iso":
        return 1 / c if param == 1 else (1 - param) * c.pow(-param)
    if crit == "oce":
        return torch.exp(-(c + param))
    raise KeyError(crit)


def crit_tol(crit, param, x, value=None):
    """Bound on the rounding error of criterion(x) for x (N, M) (float64 tensor (M,)).
    Library criteria: risk_space.tol_value.  OCE with u = 1 - exp(-x): w - mean(1 - exp(-(x+w))):
    the exponential-mean bound of eloss plus the subtractions.  User criteria: sums of N
    terms of magnitude A (and gamma r^2 for the variance): 2 (N + 4) eps (A + gamma r^2)."""
    if crit in ("erm", "es", "qcvar", "iso"):
        return S.tol_value(crit, param, x)
    if crit == "eloss":
        return S.tol_value(crit, param, x, value=value)
    eps = S.eps_of(x)
    xd = x.to(torch.float64)
    N = x.size(0)
    A = xd.abs().amax(0)
    if crit == "oce":
        z = xd + param
        return 2 * eps * ((z.abs().amax(0) + N + 3) * torch.exp(-z).mean(0) + abs(param) + 2)
    r = xd.amax(0) - xd.amin(0)
    g = param if crit == "user_mv" else 0.0
    amp = 1 / param if crit == "oce_cvar" else 1.0
    return 2 * (N + 4) * eps * (A + g * r * r) * amp


def cash_rounding(crit, param, x, cash):
    """Rounding of a closed-form cash amount (float64 (M,)): erm/es/qcvar = -criterion;
    eloss: -log(mean exp(-a x))/a computed naively: relative error of the mean
    eps (a A + N + 3) becomes absolute / a after the log."""
    if crit in ("erm", "es", "qcvar"):
        return S.tol_value(crit, param, x)
    eps = S.eps_of(x)
    A = x.to(torch.float64).abs().amax(0)
    return 2 * eps * ((param * A + x.size(0) + 3) / param + cash.abs())


# ----------------------------------------------------------------------------
# cash
# ----------------------------------------------------------------------------

def _target(kind, N, scale, dtype):
    if kind is None:
        return None
    if kind == "scalar":
        return 0.375 * scale
    t = ((torch.arange(N, dtype=torch.float64) * 3) % 7 - 3) / 4 * scale
    return t.to(S.DT[dtype])


@family
def cash(ctx, block):
    crit, dtype, scale = block["crit"], block["dtype"], block["scale"]
    tk = block.get("target")
    cols = S.columns(block)
    N, M = cols.shape
    x = S.realise(cols, scale, dtype)
    xd = x.to(torch.float64)
    eps = S.eps_of(x)
    site = site_of(crit)
    default = crit in DEFAULT
    prec = SEARCH_PREC if default else 0.0
    whole_const = bool((x == x.flatten()[0]).all())
    col_const = (cols == cols[:1]).all(0)
    tgt = _target(tk, N, scale, dtype)

    def mini(js, p, **kw):
        b = {k: block[k] for k in ("crit", "scale", "dtype", "target") if k in block}
        b["N"] = N
        b["cols"] = [S.col_list(cols, j) for j in js]
        b["params"] = [p]
        b.update(kw)
        return b

    for p in block["params"]:
        m = make(crit, p, dtype)
        name = f"{NAMES[crit]}({p})"
        # ---- every sample on its own ---------------------------------------------------
        single = torch.full((M,), float("nan"), dtype=torch.float64)
        have = torch.zeros(M, dtype=torch.bool)
        if not block.get("multi_only"):
            pfx = "default_search:" if default else ""
            for j in range(M):
                xj = x[:, j].clone()
                inp = xj if tgt is None else xj + tgt
                pl = inp if tgt is None else inp - tgt
                const = bool(col_const[j]) and bool((pl == pl[0]).all())
                ctx.tick(1, nontrivial=0 if const else 1)
                try:
                    with torch.no_grad():
                        c = m.cash(inp) if tgt is None else m.cash(inp, tgt)
                except Exception as e:  # the model defines a value for every finite sample
                    kind = f"raises_{type(e).__name__}"
                    # the default search stops when upper - lower <= 1e-6 (absolute): impossible once one
                    # ulp of the amounts exceeds 1e-6 (float32: |pl| >= 16), it then runs into max_iter
                    ulp = float(pl.abs().max()) * float(eps) / 2
                    stall = default and not const and ulp > SEARCH_PREC
                    cls = f"default_search:constant_sample:{kind}" if (default and const) else \
                        (f"default_search:precision_below_ulp:{kind}" if stall else pfx + kind)
                    ctx.violation(site, cls, f"{name}.cash({pl.tolist()}) raises {type(e).__name__}: {str(e)[:120]}; "
                                  f"the certainty equivalent of this sample exists"
                                  + (" (it is the constant itself)" if const else ""),
                                  observed=f"{type(e).__name__}: {str(e)[:200]}",
                                  expected=float(pl[0]) if const else "a cash amount", block=mini([j], p))
                    continue
                if c.dim() != 0 or c.dtype != x.dtype:
                    ctx.violation(site, "shape_or_dtype:1d", f"{name}.cash of a sample of shape ({N},) has shape "
                                  f"{tuple(c.shape)} dtype {c.dtype}", observed=[list(c.shape), str(c.dtype)],
                                  expected=[[], str(x.dtype)], block=mini([j], p))
                    continue
                single[j], have[j] = float(c), True
            # the relations, evaluated for all samples at once (forward is column-wise: C05)
            T2 = None if tgt is None else (tgt if isinstance(tgt, float) else tgt.unsqueeze(-1))
            inpM = x if tgt is None else x + T2
            plM = inpM if tgt is None else inpM - T2
            pld = plM.to(torch.float64)
            lo, hi, mean = pld.amin(0), pld.amax(0), pld.mean(0)
            Amax = pld.abs().amax(0)
            cs = torch.where(have, single, hi)          # placeholder where no amount was returned
            with torch.no_grad():
                rhs = (m(inpM) if tgt is None else m(inpM, T2)).to(torch.float64)
                lhs = m(cs.to(x.dtype).unsqueeze(0).expand(N, M).contiguous()).to(torch.float64)
            for o in single[:: max(1, M // 12)].tolist():
                ctx.outcome((crit, p, round(o, 7) if math.isfinite(o) else repr(o)))
            nan = have & single.isnan()
            for j in nan.nonzero().flatten().tolist():
                ctx.violation(site, pfx + "nan", f"{name}.cash({pld[:, j].tolist()}) is NaN", observed="nan",
                              expected=[float(lo[j]), float(hi[j])], block=mini([j], p))
            live = have & ~single.isnan()
            crnd = prec + 4 * eps * cs.abs() + (0.0 if default else cash_rounding(crit, p, plM, cs))
            if crit == "qcvar":
                # only "cash == -risk" is stated; both come from searches of different batches
                r = hi - lo
                tolq = 2 * S.tol_value("qcvar", p, plM) + S.QC_SLACK + S.QC_RELPREC * (r + 2 * S.QC_SLACK)
                bad = live & ~((cs + rhs).abs() <= tolq)
                for j in bad.nonzero().flatten().tolist():
                    ctx.violation(site, "cash_is_not_minus_risk", f"{name}: cash({pld[:, j].tolist()}) != -loss",
                                  observed=float(cs[j]), expected=-float(rhs[j]), block=mini([j], p))
            else:
                arg = cs - crnd
                if crit == "iso":
                    arg = arg.clamp(min=1e-300)
                slope = const_slope(crit, p, arg)
                slack = slope * crnd * (1 + 1e-3) + crit_tol(crit, p, plM, value=rhs if crit == "eloss" else None) + \
                    crit_tol(crit, p, cs.unsqueeze(0).expand(N, M).to(x.dtype),
                             value=lhs if crit == "eloss" else None) + 4 * eps * rhs.abs()
                bad = live & ~((lhs - rhs).abs() <= slack) & ~(lhs.isinf() & (lhs == rhs))
                for j in bad.nonzero().flatten().tolist():
                    ctx.violation(site, pfx + "not_equivalent",
                                  f"{name}: criterion(full_like(x, cash)) != criterion(x) for x = {pld[:, j].tolist()}, "
                                  f"cash = {float(cs[j])} (slack {float(slack[j]):.3g})", observed=float(lhs[j]),
                                  expected=float(rhs[j]), block=mini([j], p))
                rs = crnd + 2 * eps * Amax
                bad = live & ~((cs >= lo - rs) & (cs <= hi + rs))
                for j in bad.nonzero().flatten().tolist():
                    ctx.violation(site, pfx + "outside_range", f"{name}: cash({pld[:, j].tolist()}) = {float(cs[j])} "
                                  f"not in [min, max]", observed=float(cs[j]), expected=[float(lo[j]), float(hi[j])],
                                  block=mini([j], p))
                bad = live & ~(cs <= mean + rs + 2 * N * eps * Amax) & (crit not in NOT_RISK_AVERSE)
                for j in bad.nonzero().flatten().tolist():
                    ctx.violation(site, pfx + "above_mean", f"{name}: cash({pld[:, j].tolist()}) = {float(cs[j])} exceeds "
                                  f"the mean {float(mean[j])}", observed=float(cs[j]), expected=float(mean[j]),
                                  block=mini([j], p))
        if block.get("single_only") or tgt is not None:
            continue
        # ---- the same samples as columns of one tensor ---------------------------------
        for shape in ("2d", "3d"):
            if shape == "3d":
                K = 2
                pad = (-M) % K
                xp = torch.cat([x, x[:, :pad]], dim=1) if pad else x
                X = xp.reshape(N, -1, K)
            else:
                X = x
            if X[0].numel() < 2:
                continue
            expect = tuple(X.shape[1:])
            ctx.tick(M, nontrivial=int((~col_const).sum()))
            multi_cls = "default_search:multicolumn:" if default else "multicolumn:"
            try:
                with torch.no_grad():
                    C = m.cash(X)
            except Exception as e:
                cls = (f"default_search:constant_sample:raises_{type(e).__name__}" if default and whole_const
                       else multi_cls + f"raises_{type(e).__name__}")
                ctx.violation(site, cls, f"{name}.cash of a {tuple(X.shape)} sample raises {type(e).__name__}: "
                              f"{str(e)[:120]}", observed=f"{type(e).__name__}: {str(e)[:200]}",
                              expected="column-wise cash", block=_shrunk(block, cols, p, 0, None))
                continue
            if tuple(C.shape) != expect or C.dtype != x.dtype:
                ctx.violation(site, multi_cls + "shape_or_dtype", f"{name}.cash of a {tuple(X.shape)} sample has shape "
                              f"{tuple(C.shape)} dtype {C.dtype}", observed=[list(C.shape), str(C.dtype)],
                              expected=[list(expect), str(x.dtype)], block=_shrunk(block, cols, p, 0, None))
                continue
            Cf = C.reshape(-1)[:M].to(torch.float64)
            # tolerance: both amounts are within (prec + rounding) of the certainty equivalent; for
            # quadratic CVaR the objective value moves with the search position of the batch (slope <= 1
            # where the minimiser is outside the searched range, second order otherwise)
            r = xd.amax(0) - xd.amin(0)
            if crit == "qcvar":
                tolc = 2 * S.tol_value("qcvar", p, x) + S.QC_SLACK + S.QC_RELPREC * (r + 2 * S.QC_SLACK)
            elif default:
                tolc = 2 * (prec + 4 * eps * xd.abs().amax(0))
            else:
                tolc = 2 * cash_rounding(crit, p, x, Cf)
            ref = single if not block.get("multi_only") else _columnwise(m, x)
            okref = have if not block.get("multi_only") else ~ref.isnan()
            bad = (~((Cf - ref).abs() <= tolc) & okref).nonzero().flatten().tolist()
            for j in bad:
                sig = (site, multi_cls + "not_columnwise")
                blk = _shrunk(block, cols, p, j, m) if sig not in ctx.violations else None
                ctx.violation(site, multi_cls + "not_columnwise",
                              f"{name}.cash of a {tuple(X.shape)} sample: entry for column {xd[:, j].tolist()} is "
                              f"{float(Cf[j])}, its own cash is {float(ref[j])}", observed=float(Cf[j]),
                              expected=float(ref[j]), block=blk)
    if len(ctx.samples) < 4 and N == 3 and tk is None and not any(s.get("crit") == crit for s in ctx.samples):
        ctx.sample({"family": "cash", "crit": crit, "param": p, "dtype": dtype, "scale": scale,
                    "sample": xd[:, M // 2].tolist(), "cash": float(single[M // 2]) if bool(have[M // 2]) else None,
                    "checked": "identity, range, mean, column-wise"})


def _columnwise(m, x):
    out = []
    for j in range(x.size(1)):
        try:
            with torch.no_grad():
                out.append(float(m.cash(x[:, j].clone())))
        except Exception:
            out.append(float("nan"))
    return torch.tensor(out, dtype=torch.float64)


def _shrunk(block, cols, p, j, m):
    """Smallest explicit block reproducing a multi-column failure: two columns if that
    is enough (searched in enumeration order), else the block as enumerated."""
    base = {k: block[k] for k in ("crit", "scale", "dtype") if k in block}
    base.update({"N": int(cols.size(0)), "params": [p], "multi_only": True})
    M = cols.size(1)
    if m is not None:
        x = S.realise(cols, block["scale"], block["dtype"])
        try:
            own = float(m.cash(x[:, j].clone()))
        except Exception:
            own = None
        if own is not None:
            for k in range(M):
                if k == j:
                    continue
                try:
                    with torch.no_grad():
                        c2 = m.cash(x[:, [j, k]])
                    if c2.shape == (2,) and abs(float(c2[0]) - own) > 1e-4 * max(1.0, abs(own)):
                        base["cols"] = [S.col_list(cols, j), S.col_list(cols, k)]
                        return base
                except Exception:
                    continue
    if block.get("cols") is not None:
        base["cols"] = block["cols"]
    else:
        base["A"] = block["A"]
    return base


# ----------------------------------------------------------------------------
# price
# ----------------------------------------------------------------------------

def _dyadic_linear(n_in, n_out, seed, dtype):
    lin = torch.nn.Linear(n_in, n_out).to(dtype)
    g = torch.Generator().manual_seed(4000 + seed)
    with torch.no_grad():
        w = torch.randint(-8, 9, (n_out, n_in), generator=g).to(dtype) / 8
        b = torch.randint(-4, 5, (n_out,), generator=g).to(dtype) / 8
        w[w == 0] = 0.5
        lin.weight.copy_(w)
        lin.bias.copy_(b)
    return lin


def _world(block):
    from pfhedge.nn import BlackScholes, Hedger, Naked
    dtype = S.DT[block["dtype"]]
    T = block["T"]
    stock = market.primary("brownian", dtype=dtype, cost=block.get("cost", 0.0), dt=market.DT, sigma=0.25)
    kind = block["derivative"]
    kw = {"strike": 1.0}
    if kind == "variance_swap":
        kw = {"strike": 0.0625}
    if kind == "forward_start":
        kw = {"strike": 1.0, "start": market.DT}
    deriv = market.derivative(kind, stock, T=T, **kw)
    for i, k in enumerate(block.get("clauses", [])):
        if k == "neg":          # the hedger is LONG the derivative: payoff -> -payoff
            deriv.add_clause(f"neg{i}", lambda d, payoff: -payoff)
        elif isinstance(k, str) and k.startswith("cap:"):      # payoff capped at c
            deriv.add_clause(f"cap{i}", (lambda c: (lambda d, payoff: payoff.clamp(max=c)))(float(k[4:])))
        elif isinstance(k, str) and k.startswith("ko:"):       # knocked out (pays nothing) once the spot reached b
            deriv.add_clause(f"knockout{i}", (lambda b: (lambda d, payoff: payoff.where(
                d.ul().spot.max(-1).values < b, torch.zeros_like(payoff))))(float(k[3:])))
        else:
            deriv.add_clause(f"shift{i}", (lambda kk: (lambda d, payoff: payoff + kk))(k))
    scripts = [{"spot": all_paths([a / 8 for a in A], T, dtype=dtype)} for A in block["alphabets"]]
    if block.get("rows") is not None:
        scripts = [{"spot": s["spot"][block["rows"]]} for s in scripts]
    sim = market.ScriptedSimulate(stock, scripts)
    is_option = kind in market.OPTION_KINDS
    mv = block["model"]
    H = 2 if block.get("hedge") == "stock+listed" else 1
    if mv == "naked":
        model, inputs = Naked(H), ["zeros"]
    elif mv == "linear":
        inputs = ["moneyness", "time_to_maturity"] if is_option else ["underlier_spot", "zeros"]
        model = _dyadic_linear(2, H, block.get("wseed", 0), dtype)
    elif mv == "bs":
        model = BlackScholes(deriv)
        inputs = model.inputs()
    elif mv == "ww":            # state dependent: the no-transaction band needs the previous hedge
        from pfhedge.nn import WhalleyWilmott
        model = WhalleyWilmott(deriv)
        inputs = model.inputs()
    elif mv == "linear_prev":   # state dependent dyadic linear model
        inputs = (["moneyness", "time_to_maturity"] if is_option else ["underlier_spot", "zeros"]) + ["prev_hedge"]
        model = _dyadic_linear(2 + H, H, block.get("wseed", 0), dtype)
    elif mv == "dropout":       # mode-dependent layer: the hedge depends on hedger.training (and on the torch RNG)
        inputs = ["moneyness", "time_to_maturity"] if is_option else ["underlier_spot", "zeros"]
        model = torch.nn.Sequential(_dyadic_linear(2, 4, block.get("wseed", 0), dtype), torch.nn.Dropout(0.5),
                                    _dyadic_linear(4, 1, block.get("wseed", 0) + 1, dtype))
    else:
        raise KeyError(mv)
    crit = make(block["crit"], block["param"], block["dtype"])
    hedger = Hedger(model, inputs, criterion=crit)
    if block.get("mode") == "eval":
        hedger.eval()
    elif block.get("mode") == "train":
        hedger.train()
    return hedger, deriv, stock, sim, scripts


@family
def price(ctx, block):
    crit, p = block["crit"], block["param"]
    n_times = len(block["alphabets"])
    hedger, deriv, stock, sim, scripts = _world(block)
    n_paths = scripts[0]["spot"].size(0)
    hedge = _hedge_list(block, stock)
    init_state = block.get("init_state")
    init = None if init_state is None else tuple(init_state)
    site = "Hedger.price"
    name = f"{NAMES[crit]}({p})"
    tag = f"{block['model']}/{block['derivative']}"
    eps = torch.finfo(S.DT[block["dtype"]]).eps
    ctx.tick(1, nontrivial=1)

    def reseed():
        # a model with a random layer (Dropout) draws from the torch generator: compared quantities are evaluated
        # from the same generator state, hence see the same draws (one draw per forward, same order)
        if block.get("rng") is not None:
            torch.manual_seed(block["rng"])

    flags0 = [m.training for m in hedger.modules()]
    reseed()
    try:
        got = hedger.price(deriv, hedge=hedge, n_paths=n_paths, n_times=n_times, init_state=init)
    except Exception as e:
        # finding 8 reaches price() when portfolio - payoff is the same on every path
        pls = _pls(hedger, deriv, hedge, stock, scripts)
        const = any(bool((q == q[0]).all()) for q in pls)
        cls = f"raises_{type(e).__name__}"
        if crit in DEFAULT and const:
            cls = "default_search:constant_sample:" + cls
        ctx.violation(site, cls, f"price() with {name} on {tag} raises {type(e).__name__}: {str(e)[:120]}",
                      observed=f"{type(e).__name__}: {str(e)[:200]}", expected="a price", block=block)
        return
    calls = list(sim.log)
    if [m.training for m in hedger.modules()] != flags0:
        ctx.violation(site, "changes_training_mode", f"price() changed the training flag of the hedger / its modules "
                      f"({tag}, mode {block.get('mode')})", observed=[m.training for m in hedger.modules()],
                      expected=flags0, block=block)
    # (1) the request to the market
    want_calls = [{"n_paths": n_paths, "time_horizon": deriv.maturity, "init_state": init, "grad": False}] * n_times
    if calls != want_calls:
        ctx.violation(site, "simulate_request", f"price() asked simulate() for {calls}", observed=calls,
                      expected=want_calls, block=block)
    if got.dim() != 0 or got.requires_grad or got.dtype != S.DT[block["dtype"]]:
        ctx.violation(site, "shape_grad_dtype", f"price() returned shape {tuple(got.shape)} requires_grad="
                      f"{got.requires_grad} dtype {got.dtype} (enable_grad defaults to False)",
                      observed=[list(got.shape), got.requires_grad, str(got.dtype)],
                      expected=[[], False, block["dtype"]], block=block)
        return
    # (2) minus the cash amount of (portfolio - payoff) on the same scripts
    reseed()
    pls = _pls(hedger, deriv, hedge, stock, scripts, block)
    if crit == "iso" and any(float(q.min()) <= 0 for q in pls):
        # precondition of the isoelastic utility (domain x > 0) not met by this book: nothing is prescribed
        ctx.add("isoelastic_books_outside_domain", 1)
        return
    parts, tols = [], []
    with torch.no_grad():
        for q in pls:
            parts.append(-float(hedger.criterion.cash(q)))
            qc = q.unsqueeze(-1)
            if crit in DEFAULT:
                tols.append(2 * SEARCH_PREC + 8 * eps * float(q.abs().max()))
            elif crit == "qcvar":
                tols.append(float(2 * S.tol_value("qcvar", p, qc)[0] + S.QC_SLACK
                                  + S.QC_RELPREC * (q.max() - q.min() + 2 * S.QC_SLACK)))
            else:
                tols.append(float(2 * cash_rounding(crit, p, qc, torch.tensor([parts[-1]], dtype=torch.float64))[0]))
    want = sum(parts) / n_times
    tol = sum(tols) / n_times + 4 * eps * abs(want)
    g = float(got)
    ctx.outcome((crit, tag, round(g, 7)))
    if not abs(g - want) <= tol:
        sign = "sign" if abs(g + want) <= tol and abs(want) > tol else "value"
        ctx.violation(site, f"not_minus_cash:{sign}", f"price() with {name} on {tag} (n_times={n_times}) != "
                      f"-cash(portfolio - payoff) on the same paths", observed=g, expected=want, block=block)
    # (2b) tail criteria: the certainty equivalent is known independently of cash():
    # price = minus the cash amount = the exact expected shortfall of portfolio - payoff
    # (worst case: the largest loss; an unhedged short call is priced at its largest payoff)
    if crit in ("es", "user_es", "user_worst"):
        from mc.models import risk_ref as R
        lvl = 1e-12 if crit == "user_worst" else p
        refs = [float(R.expected_shortfall(q.to(torch.float64).tolist(), lvl)) for q in pls]
        ref = sum(refs) / n_times
        ctx.tick(1, nontrivial=1)
        if not abs(g - ref) <= tol:
            ctx.violation(site, "not_certainty_equivalent", f"price() with {name} on {tag}: the indifference price is "
                          f"the {'largest loss' if crit == 'user_worst' else 'mean of the ceil(pN) largest losses'} of "
                          f"portfolio - payoff on the scripted paths", observed=g, expected=ref, block=block)
    # (2c) risk-averse criteria: cash <= mean, i.e. the quote is at least minus the mean P&L
    if crit not in NOT_RISK_AVERSE and crit != "qcvar":
        floor = -sum(float(q.to(torch.float64).mean()) for q in pls) / n_times
        ctx.tick(1, nontrivial=1)
        if not g >= floor - tol - 8 * n_paths * eps * max(float(q.abs().max()) for q in pls):
            ctx.violation(site, "price_below_minus_mean", f"price() with the risk-averse {name} on {tag}: the cash amount "
                          f"of portfolio - payoff exceeds its mean", observed=g, expected=floor, block=block)
    # (2d) the hedger object has no memory: every further call on the SAME hedger (same scripts) quotes the same
    # price, the same portfolio and the same loss (state-dependent models restart from a flat position)
    if block.get("repeat"):
        for r in range(block["repeat"]):
            sim.calls = 0
            reseed()
            again = float(hedger.price(deriv, hedge=hedge, n_paths=n_paths, n_times=n_times, init_state=init))
            reseed()
            pls2 = _pls(hedger, deriv, hedge, stock, scripts, block)
            sim.calls = 0
            with torch.no_grad():
                reseed()
                l1 = float(hedger.compute_loss(deriv, hedge=hedge, n_paths=n_paths, n_times=n_times, init_state=init))
                sim.calls = 0
                reseed()
                l2 = float(hedger.compute_loss(deriv, hedge=hedge, n_paths=n_paths, n_times=n_times, init_state=init))
            ctx.tick(3, nontrivial=3)
            if again != g and not (math.isnan(again) and math.isnan(g)):
                ctx.violation(site, "repeated_call_differs", f"call {r + 2} of price() on the same hedger ({name} on {tag}) "
                              f"differs from the first call", observed=again, expected=g, block=block)
            if not all(torch.equal(a, b) for a, b in zip(pls, pls2)):
                ctx.violation("Hedger.compute_portfolio", "repeated_call_differs", f"compute_portfolio on the same hedger "
                              f"and the same paths changed between calls ({tag})",
                              observed=[float(b.sum()) for b in pls2], expected=[float(a.sum()) for a in pls], block=block)
            if l1 != l2 and not (math.isnan(l1) and math.isnan(l2)):
                ctx.violation("Hedger.compute_loss", "repeated_call_differs", f"two compute_loss calls on the same hedger "
                              f"and the same scripts differ ({name} on {tag})", observed=l2, expected=l1, block=block)
    # (3) entropic risk measure: the price is the loss
    if crit == "erm":
        sim.calls = 0
        reseed()
        with torch.no_grad():
            loss = float(hedger.compute_loss(deriv, hedge=hedge, n_paths=n_paths, n_times=n_times, init_state=init))
        ctx.tick(1, nontrivial=1)
        if not abs(g - loss) <= tol:
            ctx.violation(site, "erm_price_is_not_loss", f"entropic risk measure on {tag}: price != compute_loss",
                          observed=g, expected=loss, block=block)
    # (4) payoff shift k: price + k for the cash-invariant criteria
    if crit in CLOSED and block.get("shift") is not None:
        k = block["shift"]
        b2 = dict(block)
        b2["clauses"] = list(block.get("clauses", [])) + [k]
        h2, d2, s2, sim2, _ = _world(b2)
        hedge2 = _hedge_list(b2, s2)
        reseed()
        got2 = float(h2.price(d2, hedge=hedge2, n_paths=n_paths, n_times=n_times, init_state=init))
        ctx.tick(1, nontrivial=1)
        if not abs(got2 - (g + k)) <= 2 * tol + 4 * eps * abs(k):
            ctx.violation(site, "payoff_shift", f"{name} on {tag}: price(payoff + {k}) != price(payoff) + {k}",
                          observed=got2, expected=g + k, block=block)
    if len(ctx.samples) < 6 and block["model"] == "bs" and not any(s.get("family") == "price" for s in ctx.samples):
        ctx.sample({"family": "price", "block": {k: v for k, v in block.items() if k != "rows"}, "paths": n_paths,
                    "price": g, "minus_cash_of_portfolio_minus_payoff": want, "simulate_calls": calls})


def _contractual_payoff(block, deriv, stock):
    """The contractual payoff by the reference: the registered clauses folded, in registration
    order, over payoff_fn() - written per clause kind from the contract terms, not derivative.payoff()."""
    pay = deriv.payoff_fn()
    for k in block.get("clauses", []):
        if k == "neg":
            pay = -pay
        elif isinstance(k, str) and k.startswith("cap:"):
            pay = torch.minimum(pay, torch.full_like(pay, float(k[4:])))
        elif isinstance(k, str) and k.startswith("ko:"):
            alive = torch.tensor([max(row) < float(k[3:]) for row in stock.spot.tolist()])
            pay = torch.where(alive, pay, torch.zeros_like(pay))
        else:
            pay = pay + k
    return pay


LISTED_COST = 1 / 64


def _hedge_list(block, stock):
    """None (the underlier), the stock itself, or lists containing a LISTED option whose cost rate
    (1/64) differs from the underlier's (1/512): the cost charged is the hedging instrument's own."""
    hv = block.get("hedge")
    if hv in (None, "stock"):
        return None if hv is None else [stock]
    import pfhedge.instruments as I
    listed = I.EuropeanOption(stock, strike=1.125, maturity=(block["T"] - 1) * market.DT)
    listed.list(lambda d: torch.nn.functional.relu(d.ul().spot - 1.125) + 0.25 * d.ul().spot, cost=LISTED_COST)
    return [listed] if hv == "listed" else [stock, listed]


def _wealth(spots, unit, costs):
    """Terminal wealth of the self-financing strategy, written from the definition (reference, float64):
    sum_h sum_t unit[h][t] (S[h][t+1] - S[h][t]) - sum_h c_h (|unit[h][0]| S[h][0] + sum_{t>=1} |unit[h][t] - unit[h][t-1]| S[h][t]),
    each hedging instrument charged at ITS OWN proportional cost rate c_h.  spots, unit: (N, H, T)."""
    N, H, T = spots.shape
    w = torch.zeros(N, dtype=spots.dtype)
    for h in range(H):
        for t in range(T - 1):
            w = w + unit[:, h, t] * (spots[:, h, t + 1] - spots[:, h, t])
        traded = unit[:, h, 0].abs() * spots[:, h, 0]
        for t in range(1, T):
            traded = traded + (unit[:, h, t] - unit[:, h, t - 1]).abs() * spots[:, h, t]
        w = w - costs[h] * traded
    return w


def _pls(hedger, deriv, hedge, stock, scripts, block=None):
    """reference portfolio - contractual payoff per script, on the very buffers the script registers.
    The portfolio is the wealth model above applied to the hedge the hedger computes, the prices of the
    hedging instruments and their own cost rates (not compute_portfolio)."""
    out = []
    with torch.no_grad():
        for s in scripts:
            market.set_buffers(stock, **s)
            pay = deriv.payoff() if block is None else _contractual_payoff(block, deriv, stock)
            hl = hedge if hedge is not None else list(deriv.underliers())
            unit = hedger.compute_hedge(deriv, hedge=hedge)
            spots = torch.stack([h.spot for h in hl], dim=1)
            out.append(_wealth(spots, unit, [h.cost for h in hl]) - pay)
    return out


# ----------------------------------------------------------------------------

def cash_blocks(ctx):
    A = S.alphabet(ctx)
    Ap = S.alphabet(ctx, positive=True)
    Ns = [1, 2, 3, 4] if ctx.quick else [1, 2, 3, 4, 5]
    out = []
    for crit in CLOSED + DEFAULT:
        alpha = Ap if crit == "iso" else A
        for N in Ns:
            slow = crit in DEFAULT or crit == "qcvar"       # one search per sample
            confs = [("float64", 1.0, None)]
            if N <= (3 if slow and ctx.quick else 5):
                confs.append(("float32", 1.0, None))
            if N <= (2 if slow and ctx.quick else 3):
                confs += [("float64", 1.0, "scalar"), ("float64", 1.0, "tensor"), ("float64", 1 / 64, None)]
                if crit != "user_mv":           # gamma * range <= 1 is the precondition of that criterion
                    confs.append(("float64", 64.0, None))
            for dtype, scale, tk in confs:
                params = PARAMS[crit]
                if crit == "eloss":
                    params = [a for a in params if a * scale * 2.5 <= (600 if dtype == "float64" else 80)]
                if crit == "oce" and scale > 1:
                    continue
                if crit in DEFAULT and dtype == "float32" and scale > 1:
                    continue
                b = {"crit": crit, "N": N, "A": alpha, "params": params, "scale": scale, "dtype": dtype}
                if tk:
                    b["target"] = tk
                out.append(b)
    if ctx.thorough:
        # float32 amounts of magnitude >= 16: one ulp exceeds the absolute search precision (one case: it
        # costs the implementation 100000 iterations)
        out.append({"crit": "iso", "N": 2, "cols": [[2, 5]], "params": [0.5], "scale": 64.0, "dtype": "float32",
                    "single_only": True})
    return out


def price_blocks(ctx):
    out = []
    A0, A1 = [6, 8, 10, 12], [7, 8, 9, 11]
    Ts = [3] if ctx.quick else [3, 4]
    crits = [("erm", 1.0), ("erm", 10.0), ("eloss", 1.0), ("es", 0.5), ("es", 0.05), ("qcvar", 1.0), ("qcvar", 10.0),
             ("iso", 0.5), ("user_blend", 0.5), ("oce", 0.5), ("user_worst", 0.0), ("user_es", 0.05),
             ("user_es", 0.5), ("user_lossonly", 0.0), ("user_satiated", 0.25), ("oce_cvar", 0.5)]
    for T in Ts:
        for kind in market.ALL_DERIVATIVE_KINDS:
            for mv in ("naked", "linear", "bs", "ww", "linear_prev"):
                if mv in ("bs", "ww") and kind not in market.OPTION_KINDS:
                    continue
                for crit, p in crits:
                    for alphabets in ([A0], [A0, A1]):
                        if ctx.quick and len(alphabets) == 2 and mv in ("bs", "ww") and kind != "european":
                            continue
                        if ctx.quick and mv in ("ww", "linear_prev") and crit not in ("erm", "es", "qcvar", "user_blend") \
                                and not (crit == "eloss" and kind == "european"):
                            continue
                        b = {"T": T, "derivative": kind, "model": mv, "crit": crit, "param": p, "dtype": "float64",
                             "alphabets": alphabets, "cost": 1 / 512, "wseed": ctx.seed % 5,
                             "hedge": "stock" if mv in ("linear", "linear_prev") else None,
                             "repeat": 2 if mv in ("ww", "linear_prev") else (1 if mv == "linear" and T == 3 else 0),
                             "init_state": [1.0] if len(alphabets) == 2 else None}
                        if crit in CLOSED:
                            b["shift"] = 0.375
                        if crit == "iso":
                            # isoelastic utility needs a positive P&L: a funded position (clause -16 on the payoff)
                            b["clauses"] = [-16.0]
                        out.append(b)
                        if crit in ("user_lossonly", "user_satiated", "oce_cvar") and mv in ("naked", "linear"):
                            # a book that gains on every path (long the derivative, paid 1/1024 on top): the P&L is
                            # right-skewed and lies in the flat part of these utilities
                            b2 = dict(b)
                            b2["clauses"] = ["neg", -1 / 1024]
                            out.append(b2)
    # derivatives carrying 2 and 3 clauses (knock-out at 1.5, cap at 0.25, + 1/8), every order: the clauses compose
    import itertools
    terms = ["ko:1.5", "cap:0.25", 0.125]
    clause_lists = [list(c) for r in (2, 3) for c in itertools.permutations(terms, r)]
    for kind in (("european", "lookback") if ctx.quick else market.OPTION_KINDS):
        for mv in ("naked", "linear"):
            for crit, p in (("erm", 1.0), ("es", 0.5)) + ((("qcvar", 10.0), ("user_blend", 0.5)) if ctx.thorough else ()):
                for cl in clause_lists:
                    b = {"T": 3, "derivative": kind, "model": mv, "crit": crit, "param": p, "dtype": "float64",
                         "alphabets": [A0], "cost": 1 / 512, "wseed": ctx.seed % 5,
                         "hedge": "stock" if mv == "linear" else None, "init_state": None, "clauses": cl}
                    if crit in CLOSED:
                        b["shift"] = 0.375
                    out.append(b)
    # hedge lists whose cost rates differ from the underlier's: a listed option (cost 1/64) alone and next to the stock (1/512)
    for kind in (("european", "lookback") if ctx.quick else market.ALL_DERIVATIVE_KINDS):
        for hv in ("listed", "stock+listed"):
            for mv in ("linear", "linear_prev"):
                for crit, p in (("erm", 1.0), ("es", 0.5), ("qcvar", 10.0), ("user_blend", 0.5)):
                    b = {"T": 3, "derivative": kind, "model": mv, "crit": crit, "param": p, "dtype": "float64",
                         "alphabets": [A0] if mv == "linear" else [A0, A1], "cost": 1 / 512, "wseed": ctx.seed % 5,
                         "hedge": hv, "init_state": None, "repeat": 1}
                    if crit in CLOSED:
                        b["shift"] = 0.375
                    out.append(b)
    # a model with a mode-dependent random layer (Dropout), hedger in training mode (a fresh hedger) and in eval mode
    for kind in (("european", "variance_swap") if ctx.quick else market.ALL_DERIVATIVE_KINDS):
        for mode in ("train", "eval"):
            for crit, p in (("erm", 1.0), ("es", 0.5), ("eloss", 1.0), ("user_blend", 0.5)):
                for alphabets in ([A0], [A0, A1]):
                    for rng in ((3,) if ctx.quick else (3, 11)):
                        b = {"T": 3, "derivative": kind, "model": "dropout", "mode": mode, "rng": rng, "crit": crit,
                             "param": p, "dtype": "float64", "alphabets": alphabets, "cost": 1 / 512,
                             "wseed": ctx.seed % 5, "hedge": "stock", "init_state": None, "repeat": 1}
                        if crit in CLOSED:
                            b["shift"] = 0.375
                        out.append(b)
    # float32 world
    for crit, p in (("erm", 1.0), ("es", 0.5), ("qcvar", 10.0)):
        out.append({"T": 3, "derivative": "european", "model": "linear", "crit": crit, "param": p, "dtype": "float32",
                    "alphabets": [A0], "cost": 1 / 512, "wseed": ctx.seed % 5, "hedge": "stock", "shift": 0.375})
    return out


def run(ctx):
    ctx.rule("cash: every sample of length N over the alphabet (full product, constants/ties included) x criterion "
             "parameter x dtype/scale x target {none, scalar, tensor}: one cash() call per sample (identity, range, mean), "
             "then all samples as columns of one (N,M) and (N,M',2) tensor (column-wise equality); non-trivial = "
             "non-constant samples.  price: scripted market with ALL |A|^T price paths x 6 derivative kinds x hedgers "
             "{Naked, dyadic Linear, BlackScholes, WhalleyWilmott, Linear+prev_hedge} x criteria x n_times {1,2} (+ clause "
             "payoff+k, + long position clause, + compute_loss for the entropic risk measure, + repeated price / "
             "compute_portfolio / compute_loss calls on the same hedger for state-dependent models); one evaluation = one "
             "price() call compared on the same script")
    ctx.assume("identity slack = (search precision 1e-6 for the default search | derived rounding of the closed form) x "
               "slope of c -> criterion(const c), + derived rounding of both criterion values")
    ctx.assume("user criteria are monotone with certainty equivalent inside [min, max] on the enumerated samples "
               "(mean-variance: gamma * range <= 1)")
    ctx.assume("isoelastic criteria are evaluated on positive P&L only (positive alphabet; funded position in price)")
    ctx.alphabet("pl numerators/8", S.alphabet(ctx))
    ctx.alphabet("positive numerators/8 (isoelastic)", S.alphabet(ctx, positive=True))
    for k, v in PARAMS.items():
        ctx.alphabet("param " + k, v)
    ctx.alphabet("price spot alphabets/8", [[6, 8, 10, 12], [7, 8, 9, 11]])
    cb, pb = cash_blocks(ctx), price_blocks(ctx)
    if ctx.quick:
        for b in cb:
            ctx.run("cash", b)
        for b in pb:
            ctx.run("price", b)
    else:
        ctx.run_parallel("cash", sorted(cb, key=lambda b: -b["N"]))
        ctx.run_parallel("price_group", [{"blocks": pb[i::12]} for i in range(12)])


@family
def price_group(ctx, block):
    for b in block["blocks"]:
        ctx.run("price", b)

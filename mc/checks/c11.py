"""C11 - simulated buffers are well-formed for every generator and instrument.
Engine: tree (extreme RNG answers, owned RNG) + bfs (re-simulation histories).

Families
  series_tree   one generator or instrument, one configuration (parameters, initial state
                form/values, requested dtype, global default dtype, n_steps): the FULL depth-d
                tree of extreme RNG answers (every draw site of every step answered from
                normals {0,+-1,+-8}, uniforms {0,p,1-}, counts {0,1,6}, exponential sizes
                {tiny, 40/rate}) packed on the path axis, one real call; for n_steps-1 > d the
                answers repeat cyclically (so the all-(+8) / all-(-8) runs are in the tree).
                Oracle: series_contract (shape, dtype, column 0, finite, positive, non-negative,
                volatility = sqrt(variance)).  A float64 twin run with the same answers is the
                *range* oracle for narrower dtypes (overflow / underflow to zero are accepted
                only where the float64 value is outside the dtype's range).
                Then one pass with the real seeded RNG: patched and unpatched APIs agree on
                shape/dtype (and the real output is well-formed too).
  series_shape  same oracle over the shape grid n_paths in {1,2,5} x n_steps in {1,2,3,7}
                (answers: row r takes the r-th symbol of every alphabet, constant in time).
  resimulate    instruments: every history of simulate(n_paths, horizon, init) calls up to a
                depth and bfs over the abstract state (buffer names, shapes, dtypes) to a
                fixpoint: after each simulate() the buffers are exactly those of a fresh
                instrument given the same call and the same RNG answers (nothing stale).
"""
from __future__ import annotations

import math
import os

import torch

from mc.core import explore
from mc.core.rngscript import OwnedRNG
from mc.core.runner import HarnessError
from mc.models import series_contract as SC

FAMILIES = {}

# Optional diagnostic OUTSIDE the claim (default off): run the instruments also as USER subclasses overriding
# default_init_state.  For the built-in instruments the generator's own default IS the documented default, so whether
# simulate() substitutes the default itself or forwards None to the generator is an internal dispatch detail the
# property does not speak about; a user subclass makes that detail visible and would flag behaviour-preserving
# refactorings.
USER_SUBCLASS_WORLDS = os.environ.get("VERIF_USER_SUBCLASS") == "1"


def family(fn):
    FAMILIES[fn.__name__] = fn
    return fn


DT = SC.DTYPES

# ---------------------------------------------------------------------------------
# answer alphabets
# ---------------------------------------------------------------------------------
NORMAL = [0.0, 1.0, -1.0, 8.0, -8.0]
UNIFORM = ["0", "p", "1-"]          # 1- = the largest number below 1 in the requested dtype
COUNT = [0.0, 1.0, 6.0]
EXPO = ["tiny", "big"]              # smallest positive normal of the dtype / 40 means (prob e^-40)

# draw sites per generator: (site, call index at that site, components, column offset)
# column c of the answer belongs to step c - offset (columns with negative step are
# documented as ignored / overwritten: they are answered with +8 so that "ignored" is tested)
LAYOUT = {
    "brownian": [("randn", 0, ("z",), 1)],
    "geometric_brownian": [("randn", 0, ("z",), 1)],
    "cir": [("randn_like", 0, ("z",), 0), ("rand_like", 0, ("u",), 0)],
    "heston": [("randn_like", 0, ("z",), 0), ("rand_like", 0, ("u",), 0), ("randn_like", 1, ("zs",), 0)],
    "vasicek": [("randn_like", 0, ("z",), 0)],
    "merton_jump": [("poisson", 0, ("n",), 0), ("randn", 0, ("zj",), 0), ("randn", 1, ("z",), 1)],
    "kou_jump": [("randn", 0, ("z",), 1), ("poisson", 0, ("n",), 0), ("uniform", 0, ("ud",), 0),
                 ("exponential", 0, ("eu",), 0), ("exponential", 1, ("ed",), 0)],
    "rough_bergomi": [("mvn", 0, ("w0", "w1"), 0), ("randn", 0, ("z2",), 0)],
    "local_volatility": [("randn_like", 0, ("z",), 0)],
}
ALPHABET = {"z": NORMAL, "zj": NORMAL, "zs": NORMAL, "z2": NORMAL, "w0": NORMAL, "w1": NORMAL,
            "u": UNIFORM, "ud": UNIFORM, "n": COUNT, "eu": EXPO, "ed": EXPO}


CORNER_NORMAL = [0.0, 8.0, -8.0]
ALPHABETS = {"full": ALPHABET,
             "corner": dict(ALPHABET, z=CORNER_NORMAL, zj=CORNER_NORMAL, zs=CORNER_NORMAL, z2=CORNER_NORMAL,
                            w0=CORNER_NORMAL, w1=CORNER_NORMAL)}


def alpha_of(block):
    """Answer alphabets of a block: named base + the seed-dependent extra normal symbol (if any)."""
    a = ALPHABETS[block.get("alpha", "full")]
    x = block.get("extra_normal")
    if x is not None:
        a = dict(a)
        for c in ("z", "zj", "zs", "z2", "w0", "w1"):
            a[c] = list(a[c]) + [float(x)]
    return a


def components(gen):
    out = []
    for _, _, comps, _ in LAYOUT[gen]:
        out.extend(comps)
    return out


def joint_size(gen, alpha=None):
    n = 1
    for c in components(gen):
        n *= len((alpha or ALPHABET)[c])
    return n


def _resolve(sym, comp, dtype, req, uniform_p):
    """Numeric value of an answer symbol.  ``dtype`` is the effective dtype of the series under test (not
    of the request), so that the float64 twin run is fed numerically identical answers."""
    if isinstance(sym, float):
        return sym
    if sym == "0":
        return 0.0
    if sym == "p":
        return uniform_p
    if sym == "1-":
        return 1.0 - torch.finfo(dtype).eps / 2
    rate = float(req["params"]["rate"])
    if sym == "tiny":
        return float(torch.finfo(dtype).tiny)
    if sym == "big":
        return 40.0 / rate
    raise HarnessError(f"unknown symbol {sym}")


class Answers:
    """Answers every draw of one call from the leaves (N, depth) of joint-symbol indices."""

    def __init__(self, gen, leaves, uniform_p=0.5, alpha=None, eff=torch.float32):
        self.eff = eff
        self.gen = gen
        self.leaves = leaves            # LongTensor (N, depth)
        self.uniform_p = uniform_p
        self.alpha = alpha or ALPHABET
        self.comps = components(gen)
        self.stride = {}
        s = 1
        for c in reversed(self.comps):
            self.stride[c] = s
            s *= len(self.alpha[c])
        self.by_call = {(site, k): (comps, off) for site, k, comps, off in LAYOUT[gen]}

    def comp_index(self, comp):
        return (self.leaves // self.stride[comp]) % len(self.alpha[comp])   # (N, depth)

    def _series(self, comp, ncols, offset, dtype, req):
        table = torch.tensor([_resolve(s, comp, self.eff, req, self.uniform_p) for s in self.alpha[comp]],
                             dtype=torch.float64)
        idx = self.comp_index(comp)                    # (N, depth)
        depth = idx.size(1)
        cols = torch.arange(ncols) - offset
        vals = table[idx[:, cols.clamp(min=0) % depth]]      # (N, ncols)
        vals[:, cols < 0] = 8.0
        return vals

    def __call__(self, shape, dtype, req):
        key = (req["site"], req["index"])
        if key not in self.by_call:
            # a draw the documented scheme does not make: answer zeros (the well-formedness
            # oracle still applies to whatever comes out)
            return torch.zeros(shape, dtype=torch.float64)
        comps, off = self.by_call[key]
        N = self.leaves.size(0)
        if len(shape) == 0 or shape[0] != N:
            return torch.zeros(shape, dtype=torch.float64)
        if len(shape) == 1:
            return torch.zeros(shape, dtype=torch.float64)
        ncols = shape[1]
        if req["site"] == "mvn":
            cov = req["params"]["covariance_matrix"].to(torch.float64)
            a = self._series(comps[0], ncols, off, dtype, req) * math.sqrt(float(cov[0, 0]))
            b = self._series(comps[1], ncols, off, dtype, req) * math.sqrt(float(cov[1, 1]))
            return torch.stack([a, b], dim=-1)
        v = self._series(comps[0], ncols, off, dtype, req)
        if len(shape) == 3:
            v = v.unsqueeze(-1).expand(shape)
        return v

    def owned(self):
        return OwnedRNG({s: self for s in OwnedRNG.SITES})


# ---------------------------------------------------------------------------------
# the space: parameters, initial states
# ---------------------------------------------------------------------------------
SIGMA_FNS = {
    "const": lambda t, s: torch.full_like(s, 0.2),
    "time": lambda t, s: torch.full_like(s, 0.2) + 0.5 * t,
    "spot": lambda t, s: 0.4 / (1 + s.abs()),
    # time-only volatility functions that do not return a per-path tensor
    "time_0dim": lambda t, s: 0.2 + 0.5 * t,                     # 0-dim tensor
    "time_float": lambda t, s: 0.2 + 0.5 * float(t),             # python float
    "time_1elem": lambda t, s: (0.2 + 0.5 * t).reshape(1),       # (1,)-tensor
}

# admissible parameter sets per generator: [default, high volatility / vol-of-vol, low variance ...]
PARAMS = {
    "brownian": [{}, {"sigma": 2.0, "mu": 0.5, "dt": 1 / 12}, {"sigma": 0.0, "mu": -0.3}],
    "geometric_brownian": [{}, {"sigma": 2.0, "mu": 0.5, "dt": 1 / 12}, {"sigma": 0.0, "mu": -0.3}],
    # the last two: extreme vol-of-vol / low variance, sigma^2/(2 kappa theta) = 4.5e7 and about 1e4 - at v = 0
    # the QE ratio psi is so large that p = (psi-1)/(psi+1) rounds to exactly 1 in float32 (first set) and in
    # bfloat16 (second set; for CIR a coarser grid keeps m^2 inside float16's range, so float16 rounds too)
    "cir": [{}, {"kappa": 0.5, "theta": 0.04, "sigma": 2.0, "dt": 1 / 12},
            {"kappa": 3.0, "theta": 0.001, "sigma": 0.5},
            {"theta": 1e-7, "sigma": 3.0}, {"kappa": 5.0, "theta": 0.04, "sigma": 60.0, "dt": 1 / 12}],
    "heston": [{}, {"kappa": 0.5, "theta": 0.04, "sigma": 2.0, "rho": 0.7, "dt": 1 / 12},
               {"kappa": 3.0, "theta": 0.001, "sigma": 0.5, "rho": -0.95},
               {"theta": 1e-7, "sigma": 3.0}, {"theta": 0.04, "sigma": 30.0, "rho": 0.3}],
    "vasicek": [{}, {"kappa": 5.0, "theta": -0.02, "sigma": 0.5, "dt": 1 / 12}, {"theta": 0.0, "sigma": 0.0}],
    "merton_jump": [{}, {"mu": 0.1, "sigma": 0.5, "jump_per_year": 5.0, "jump_mean": -0.1, "jump_std": 0.3,
                         "dt": 1 / 12}, {"jump_per_year": 0.0}],
    "kou_jump": [{}, {"sigma": 0.5, "mu": 0.1, "jump_per_year": 5.0, "jump_mean_up": 0.3, "jump_mean_down": 0.2,
                      "jump_up_prob": 0.3, "dt": 1 / 12}, {"jump_up_prob": 1.0, "jump_per_year": 1.0},
                 {"jump_per_year": 0.0}],       # zero jump intensity (x non-default initial states)
    "rough_bergomi": [{}, {"alpha": -0.1, "rho": 0.5, "eta": 3.0, "xi": 0.01},
                      {"alpha": -0.45, "rho": 0.0, "eta": 0.5, "xi": 0.0004}],
    "local_volatility": [{"sigma_fn": "const"}, {"sigma_fn": "time", "dt": 1 / 12}, {"sigma_fn": "spot"},
                         {"sigma_fn": "time_0dim"}, {"sigma_fn": "time_float"}, {"sigma_fn": "time_1elem"}],
}
# non-default initial values per series kind (non-dyadic on purpose: rounding is observable)
INIT_VALUES = {
    "brownian": [[0.3], [-1.7]],
    "geometric_brownian": [[1.3], [0.7]],
    "cir": [[0.07], [0.0]],
    "heston": [[1.3, 0.07], [0.7, 0.0]],
    "vasicek": [[0.013], [0.0], [-0.07]],
    "merton_jump": [[1.3], [0.7]],
    "kou_jump": [[1.3], [0.7]],
    "rough_bergomi": [[1.3, 0.07], [0.7, 0.0003]],
    "local_volatility": [[1.3], [0.7]],
}
INT_INIT = {"brownian": [2], "geometric_brownian": [2], "cir": [1], "heston": [2, 1], "vasicek": [1],
            "merton_jump": [2], "kou_jump": [2], "rough_bergomi": [2, 1], "local_volatility": [2]}


def uniform_p(gen, params):
    return params.get("jump_up_prob", 0.5) if gen == "kou_jump" else 0.5


def init_kwargs(form, values):
    if form in ("default", "subclass"):
        return {}
    if form == "tuple":
        return {"init_state": tuple(float(v) for v in values)}
    if form == "bare":            # a bare python float instead of a tuple ("also accepts a Tensor or a float")
        return {"init_state": float(values[0])}
    if form == "bare_int":
        return {"init_state": int(values[0])}
    if form == "bare_tensor":     # a bare 0-dim tensor in the global default dtype, e.g. torch.tensor(0.0)
        return {"init_state": torch.tensor(float(values[0]))}
    if form == "int":
        return {"init_state": tuple(int(v) for v in values)}
    if form == "tensor64":
        return {"init_state": tuple(torch.tensor(float(v), dtype=torch.float64) for v in values)}
    if form == "tensor32":
        return {"init_state": tuple(torch.tensor(float(v), dtype=torch.float32) for v in values)}
    raise HarnessError(f"init form {form}")


def requested_init(kind, name, params, form, values):
    """The initial state the caller asked for (python numbers or tensors), per series."""
    if form == "default":
        spec = SC.GENERATORS[name] if kind == "gen" else SC.INSTRUMENTS[name]
        return list(spec["init"](params))
    if form == "subclass":        # a user subclass overriding default_init_state (documented extension point)
        return [float(v) for v in values]
    st = init_kwargs(form, values)["init_state"]
    return [st] if form.startswith("bare") else list(st)


# ---------------------------------------------------------------------------------
# running the real code
# ---------------------------------------------------------------------------------
class Default:
    def __init__(self, name):
        self.d = DT[name]

    def __enter__(self):
        self.prev = torch.get_default_dtype()
        torch.set_default_dtype(self.d)

    def __exit__(self, *a):
        torch.set_default_dtype(self.prev)
        return False


def _steps_to_horizon(k, dt):
    """time_horizon with exactly k steps of dt: precondition float(k*dt)/dt == k (the time-grid
    rounding of other (horizon, dt) pairs is property C13's subject, not this one's)."""
    h = k * dt
    if math.ceil(h / dt + 1) != k + 1:
        raise HarnessError(f"horizon {k}*{dt} is not an exact multiple in floating point")
    return h


def call_real(block, n_paths, dtype, rng):
    """One real call.  Returns dict series-name -> tensor plus '#vol', '#var' when exposed."""
    kind, name = block["kind"], block["name"]
    params = dict(block["params"])
    ikw = init_kwargs(block["init"]["form"], block["init"].get("values"))
    n_steps = block["n_steps"]
    if kind == "gen":
        import pfhedge.stochastic as S
        spec = SC.GENERATORS[name]
        fn = getattr(S, spec["fn"])
        if "sigma_fn" in params:
            params["sigma_fn"] = SIGMA_FNS[params["sigma_fn"]]
        if block.get("engine"):
            params["engine"] = make_engine(block["engine"])
        out = fn(n_paths=n_paths, n_steps=n_steps, dtype=dtype, **ikw, **params)
        if isinstance(out, torch.Tensor):
            res = {spec["fields"][0]: out}
        else:
            res = {f: getattr(out, f) for f in spec["fields"]}
            if spec["vol"]:
                res["#vol"] = getattr(out, spec["vol"][0])
                res["#var"] = getattr(out, spec["vol"][1])
        return res
    import pfhedge.instruments as I
    spec = SC.INSTRUMENTS[name]
    if "sigma_fn" in params:
        params["sigma_fn"] = SIGMA_FNS[params["sigma_fn"]]
    if block.get("engine"):
        params["engine"] = make_engine(block["engine"])
    cls = getattr(I, name)
    if block["init"]["form"] == "subclass":
        state = tuple(float(v) for v in block["init"]["values"])
        cls = type(name + "WithOwnDefault", (cls,), {"default_init_state": property(lambda self: state)})
    inst = cls(dtype=dtype, **params)
    if rng is not None:
        rng.own_engine(inst)
    inst.simulate(n_paths=n_paths, time_horizon=_steps_to_horizon(n_steps - 1, inst.dt), **ikw)
    res = dict(inst.named_buffers())
    if spec["vol"]:
        res["#vol"] = getattr(inst, spec["vol"][0])
        res["#var"] = getattr(inst, spec["vol"][1])
    return res


SOBOL_SEED = 7
ENGINES = ("antithetic", "sobol", "sobol_class", "sobol_default")
ENGINE_TARGETS = (("gen", "brownian"), ("gen", "geometric_brownian"), ("gen", "merton_jump"), ("gen", "kou_jump"),
                  ("inst", "MertonJumpStock"), ("inst", "KouJumpStock"))     # everything that accepts engine=


def make_engine(name):
    """The documented alternatives to engine=torch.randn."""
    import functools
    import pfhedge.stochastic as S
    from pfhedge.stochastic.engine import RandnSobolBoxMuller
    if name == "antithetic":
        return S.randn_antithetic
    if name == "sobol":          # scrambled, fixed seed: deterministic and independent of torch's global generator
        return functools.partial(S.randn_sobol_boxmuller, seed=SOBOL_SEED)
    if name == "sobol_class":
        return RandnSobolBoxMuller(scramble=True, seed=SOBOL_SEED)
    if name == "sobol_default":  # default constructor: unscrambled, the first Sobol point is exactly (0, 0)
        return RandnSobolBoxMuller()
    raise HarnessError(f"engine {name}")


def gen_of(block):
    return block["name"] if block["kind"] == "gen" else SC.INSTRUMENTS[block["name"]]["gen"]


def site_of(block):
    if block["kind"] == "gen":
        return SC.GENERATORS[block["name"]]["fn"]
    return block["name"] + ".simulate"


def leaves_of(block, gen):
    alpha = alpha_of(block)
    J = joint_size(gen, alpha)
    if block.get("rows") is not None:
        return torch.tensor(block["rows"], dtype=torch.long).reshape(len(block["rows"]), -1)
    if block.get("n_paths") is not None:
        # shape grid: row r takes symbol r of every alphabet (wrapping), constant in time
        comps = components(gen)
        rows = []
        for r in range(block["n_paths"]):
            j = 0
            for c in comps:
                j = j * len(alpha[c]) + (r % len(alpha[c]))
            rows.append([j])
        return torch.tensor(rows, dtype=torch.long)
    return explore.all_paths(list(range(J)), block["depth"], dtype=torch.float64).long()


# ---------------------------------------------------------------------------------
# the oracle
# ---------------------------------------------------------------------------------
RANGE_MARGIN = 4.0   # see _range_exempt


def _fields(block):
    if block["kind"] == "gen":
        spec = SC.GENERATORS[block["name"]]
        return spec["fields"], spec["exp"], spec["nonneg"]
    name = block["name"]
    return SC.INSTRUMENTS[name]["buffers"], SC.INSTRUMENT_EXP.get(name, ()), SC.INSTRUMENT_NONNEG.get(name, ())


def judge(block, res, n_paths, eff, twin=None, stats=None):
    """Compare one real result with the contract.  Returns list of (cls, msg, row or None, observed, expected)."""
    problems = []
    fields, exp_fields, nonneg_fields = _fields(block)
    n_steps = block["n_steps"]
    names = [k for k in res if not k.startswith("#")]
    if tuple(names) != tuple(fields):
        problems.append(("series_names", f"series {names}, documented {list(fields)}", None, names, list(fields)))
        return problems
    # shapes first: a misshaped (e.g. empty) result never reaches the value checks
    for f in fields:
        x = res[f]
        if not isinstance(x, torch.Tensor) or tuple(x.shape) != (n_paths, n_steps):
            shp = list(x.shape) if isinstance(x, torch.Tensor) else repr(type(x))
            problems.append((f"shape:{f}", f"{f} has shape {shp}, expected {(n_paths, n_steps)}",
                             None, shp, [n_paths, n_steps]))
    if problems:
        return problems
    if twin is not None and any(f not in twin or tuple(twin[f].shape) != (n_paths, n_steps) for f in fields):
        twin = None
    init = requested_init(block["kind"], block["name"], block["params"], block["init"]["form"],
                          block["init"].get("values"))
    finfo = torch.finfo(eff)
    # range oracle: per row, the largest / smallest magnitude the float64 twin reaches
    over = under = None
    untracked = None
    if twin is not None:
        over, under = _range_exempt(twin, fields, exp_fields, finfo)
        if eff in SC.HALF:
            untracked = _untracked_overflow(res, twin, fields, finfo)
        if stats is not None:
            stats["range_exempt_paths"] = int(over.sum()) + (0 if under is None else int((under & ~over).sum()))
            stats["half_untracked_overflow_paths"] = 0 if untracked is None else int((untracked & ~over).sum())
    for k, f in enumerate(fields):
        x = res[f]
        if x.dtype != eff:
            problems.append((f"dtype:{f}:{_dn(block['dtype'])}_under_{block['default']}:init_{block['init']['form']}",
                             f"{f} has dtype {x.dtype}, expected {eff} (requested {block['dtype']}, "
                             f"default {block['default']})", None, str(x.dtype), str(eff)))
            continue
        xd = x.double()
        # column 0 (initial volatility of the local-volatility model is sigma_fn's value, no init)
        if k < len(init):
            want = SC.scalar_in_dtype(init[k], eff)
            col = x[:, 0]
            if (block["kind"], block["name"], f) in (("gen", "heston", "spot"), ("inst", "HestonStock", "spot")):
                # a tensor initial state carries its own precision: with dtype=None its logarithm is taken
                # in the tensor's dtype, so the working precision is the coarser of the two
                work = eff
                if isinstance(init[k], torch.Tensor) and torch.finfo(init[k].dtype).eps > torch.finfo(eff).eps:
                    work = init[k].dtype
                tol = SC.explog_tolerance(float(want), work)
                bad = ~((col.double() - float(want)).abs() <= tol)
                how = f"within {tol:.3g} (exp(log(.)) scheme)"
            else:
                bad = ~(col == want)
                how = "bitwise"
            if bad.any():
                r = int(bad.nonzero()[0])
                problems.append((f"col0:{f}:{_init_class(block, init[k], eff)}",
                                 f"{f}[:,0] != requested initial state {float(want)!r} in {eff} ({how}); "
                                 f"init form {block['init']['form']}", r, float(col[r]), float(want)))
        # finite
        nonfin = ~torch.isfinite(xd)
        if over is not None:
            nonfin = nonfin & ~over.unsqueeze(1)
        if untracked is not None:
            nonfin = nonfin & ~untracked.unsqueeze(1)
        if nonfin.any():
            r = int(nonfin.any(dim=1).nonzero()[0])
            problems.append((f"nonfinite:{f}" + _nonfinite_class(block, res, r, eff), f"{f} has non-finite values where the float64 value is inside "
                             f"the range of {eff}", r, xd[r].tolist()[:8],
                             None if twin is None else twin[f][r].tolist()[:8]))
        fin = torch.isfinite(xd)
        if f in exp_fields or f in nonneg_fields:
            neg = fin & (xd < 0)
            if neg.any():
                r = int(neg.any(dim=1).nonzero()[0])
                problems.append((f"negative:{f}", f"{f} is negative", r, xd[r].tolist()[:8], ">= 0"))
        if f in exp_fields:
            zero = fin & (xd == 0)
            if under is not None:
                # zero only through underflow: the float64 value (or a one-step factor) of this path
                # is below the dtype's normal range
                zero = zero & ~under.unsqueeze(1)
            if zero.any():
                r = int(zero.any(dim=1).nonzero()[0])
                problems.append((f"zero_without_underflow:{f}", f"{f} is exactly 0 although the exponent does "
                                 f"not underflow in {eff}", r, xd[r].tolist()[:8],
                                 None if twin is None else twin[f][r].tolist()[:8]))
    if "#vol" in res and not problems:
        vol, var = res["#vol"], res["#var"]
        if tuple(vol.shape) != (n_paths, n_steps) or tuple(var.shape) != (n_paths, n_steps):
            problems.append(("shape:volatility", f"volatility {tuple(vol.shape)} / variance {tuple(var.shape)}",
                             None, [list(vol.shape), list(var.shape)], [n_paths, n_steps]))
        elif vol.dtype != eff or var.dtype != eff:
            problems.append(("dtype:volatility", f"volatility {vol.dtype} / variance {var.dtype}, expected {eff}",
                             None, [str(vol.dtype), str(var.dtype)], str(eff)))
        else:
            vd, wd = vol.double(), var.double()
            ok_rows = torch.isfinite(vd) & torch.isfinite(wd)
            root = wd.clamp(min=0).sqrt()
            # relative 2 eps (derivation: series_contract.sqrt_tolerance); absolute floor for variances in the
            # subnormal range, where one operand carries an absolute error of one subnormal ulp
            # u = tiny*eps: |sqrt(a) - sqrt(b)| <= sqrt(|a - b|) <= sqrt(u) (factor 2 for the final roundings)
            tol = SC.sqrt_tolerance(eff) * root + (finfo.tiny * finfo.eps) ** 0.5 * 2
            bad = ok_rows & (((vd - root).abs() > tol) | (vd < 0))
            if bad.any():
                r = int(bad.any(dim=1).nonzero()[0])
                problems.append(("volatility_not_sqrt_variance", "volatility != sqrt(variance)", r,
                                 vd[r].tolist()[:8], root[r].tolist()[:8]))
    return problems


def _nonfinite_class(block, res, r, eff):
    """Classifier of a non-finite value from the failing path.  float16 QE variance: the first non-finite
    entry follows a variance v for which the scheme's one-step variance
    s^2 = v sigma^2 e(1-e)/kappa + theta sigma^2 (1-e)^2/(2 kappa), e = exp(-kappa dt)  (Andersen's QE)
    is below 2^-24, the smallest positive float16: s^2 is computed as 0 (or as one subnormal ulp), psi = 0."""
    gen = gen_of(block)
    if eff != torch.float16 or gen not in ("cir", "heston"):
        return ""
    v = res["variance"] if "variance" in res else res[_fields(block)[0][0]]
    row = v[r].double()
    bad = (~torch.isfinite(row)).nonzero()
    if not len(bad) or int(bad[0]) < 1:
        return ""
    prev = float(row[int(bad[0]) - 1])
    p = block["params"]
    kappa, theta, sigma, dt = p.get("kappa", 1.0), p.get("theta", 0.04), p.get("sigma", 0.2), p.get("dt", 1 / 250)
    e = math.exp(-kappa * dt)
    s2 = prev * sigma ** 2 * e * (1 - e) / kappa + theta * sigma ** 2 * (1 - e) ** 2 / (2 * kappa)
    return ":float16_qe_s2_underflow" if 0 <= s2 < 2.0 ** -24 else ""


def _range_exempt(twin, fields, exp_fields, finfo):
    """Range oracle from the float64 twin (same call, same answers).  Per path: ``over`` = some series
    value, or some one-step growth factor of an exponential-type series, exceeds max/RANGE_MARGIN of the
    dtype (overflow is then not a violation of "finite"); ``under`` = some value or one-step factor of an
    exponential-type series is below RANGE_MARGIN*tiny ("zero only through floating-point underflow":
    the underflow may hit the final value or the factor of one step - exponential-type series are
    exp(cumulative sum) or cumulative products of per-step factors).  RANGE_MARGIN = 4 absorbs the
    relative error exp() has in the narrow dtype near the end of its range (|x| eps(dtype) <= 1.4)."""
    hi, lo = [], []
    for f in fields:
        if f not in twin:
            continue
        t = twin[f].double().abs()
        hi.append(t.amax(dim=1))
        if f in exp_fields:
            lo.append(t.amin(dim=1))
            if t.size(1) > 1:
                ratio = t[:, 1:] / t[:, :-1]
                ratio = torch.where(torch.isfinite(ratio), ratio, torch.ones_like(ratio))
                hi.append(ratio.amax(dim=1))
                lo.append(ratio.amin(dim=1))
    over = torch.stack(hi).amax(dim=0) > finfo.max / RANGE_MARGIN
    under = (torch.stack(lo).amin(dim=0) < finfo.tiny * RANGE_MARGIN) if lo else None
    return over, under


def _untracked_overflow(res, twin, fields, finfo):
    """Half precisions only.  The float64 twin tells the range of the narrow run only while the narrow run
    follows it; float16/bfloat16 recursions (QE variance at high vol-of-vol: 1-p cancels to a few bits) can
    leave the float64 trajectory by large factors, which is an accuracy matter the property does not speak
    about.  A path is *untracked* if, before its first non-finite column, some finite value differs from the
    twin's by more than a factor 2, and its first non-finite entries are +-inf (an overflow of the
    trajectory the narrow run is actually on), not NaN.  Untracked overflows are counted, not judged;
    a NaN that is not preceded by an overflow is always judged."""
    ok = [f for f in fields if f in twin and res[f].shape == twin[f].shape]
    if not ok:
        return None
    x = torch.stack([res[f].double() for f in ok])           # (F, N, T)
    t = torch.stack([twin[f].double() for f in ok])
    nonfin = ~torch.isfinite(x)
    T = x.size(2)
    col = torch.arange(T)
    first = torch.where(nonfin.any(dim=0), col.unsqueeze(0), torch.full((1, T), T)).amin(dim=1)   # (N,)
    before = col.unsqueeze(0) < first.unsqueeze(1)                                           # (N, T)
    scale = torch.maximum(x.abs(), t.abs())
    dev = ((x - t).abs() > 0.5 * scale) & (scale > finfo.tiny * RANGE_MARGIN) & torch.isfinite(x)
    deviates = (dev & before.unsqueeze(0)).any(dim=2).any(dim=0)
    at_first = col.unsqueeze(0) == first.unsqueeze(1)
    nan_first = (torch.isnan(x) & at_first.unsqueeze(0)).any(dim=2).any(dim=0)
    return deviates & ~nan_first & (first < T)


def _dn(d):
    return "None" if d is None else d


def _init_class(block, init, eff):
    """Classifier of a column-0 failure from the failing input."""
    form = block["init"]["form"]
    val = float(init)
    # "dyadic" = exactly representable with 8 significant bits (so in every float dtype used here)
    dyadic = float(torch.tensor(val, dtype=torch.float64).to(torch.bfloat16)) == val
    default = DT[block["default"]]
    wider = torch.finfo(eff).bits > torch.finfo(default).bits
    return (f"{form}_{'dyadic' if dyadic else 'nondyadic'}_"
            f"{'dtype_wider_than_default' if wider else 'dtype_not_wider_than_default'}")


def _run_once(block, leaves, dtype, eff_default):
    """Owned call with requested ``dtype``; ``eff_default`` = effective dtype of the block under test
    (fixes the numeric values of the dtype-relative answer symbols).  Returns (res, exc, log)."""
    gen = gen_of(block)
    ans = Answers(gen, leaves, uniform_p(gen, block["params"]), alpha=alpha_of(block), eff=eff_default)
    rng = ans.owned()
    try:
        with rng:
            res = call_real(block, leaves.size(0), dtype, rng)
        return res, None, rng.log
    except HarnessError:
        raise
    except Exception as e:  # noqa: BLE001 - classified by the caller
        return None, e, rng.log


def _exc_class(block, e):
    tag = f"raises:{type(e).__name__}"
    if block["n_steps"] == 1:
        return tag + ":n_steps=1"
    form = block["init"]["form"]
    return tag + f":init_{form}:dtype_{_dn(block['dtype'])}_under_{block['default']}"


def evaluate(block):
    """Everything the families do for one block, without ctx: returns
    (problems, status, info) where status in {'ok', 'unsupported', 'raised'}."""
    gen = gen_of(block)
    req = None if block["dtype"] is None else DT[block["dtype"]]
    with Default(block["default"]):
        eff = SC.expected_dtype(req, torch.get_default_dtype())
        leaves = leaves_of(block, gen)
        N = leaves.size(0)
        res, exc, log = _run_once(block, leaves, req, eff)
        info = {"N": N, "eff": eff, "requests": len(log)}
        if exc is not None:
            if SC.is_backend_unsupported(exc, eff):
                info["unsupported"] = str(exc)[:80]
                return [], "unsupported", info
            return [(_exc_class(block, exc), f"{type(exc).__name__}: {str(exc)[:200]}", None,
                     f"{type(exc).__name__}: {str(exc)[:200]}", "a series")], "raised", info
        twin = None
        if eff != torch.float64:
            b64 = dict(block)
            b64["dtype"] = "float64"
            twin, texc, _ = _run_once(b64, leaves, torch.float64, eff)
        stats = {}
        problems = judge(block, res, N, eff, twin, stats)
        info["stats"] = stats
        # real RNG pass: same call, unpatched torch
        torch.default_generator.manual_seed(1234 + block.get("seed", 0))   # cpu generator only
        try:
            real = call_real(block, N if N <= 4096 else 7, req, None)
            n_real = N if N <= 4096 else 7
            info["real"] = True
            shapes_p = {k: (tuple(v.shape)[1:], v.dtype) for k, v in res.items()}
            shapes_r = {k: (tuple(v.shape)[1:], v.dtype) for k, v in real.items()}
            if shapes_p != shapes_r:
                problems.append(("real_rng_differs", "series produced with the real RNG differ in names/steps/dtype "
                                 "from the owned-RNG run", None, repr(shapes_r), repr(shapes_p)))
            seen = {p[0] for p in problems}
            for p in judge(block, real, n_real, eff, None):
                if eff in SC.HALF and p[0].split(":")[0] in ("nonfinite", "zero_without_underflow"):
                    continue   # no range oracle for a real-RNG half-precision run
                if p[0] in seen:
                    continue   # already reported from the owned-RNG run of this configuration
                problems.append((p[0] + "@real_rng",) + tuple(p[1:3]) + (p[3], p[4]))
        except HarnessError:
            raise
        except Exception as e:  # noqa: BLE001
            if SC.is_backend_unsupported(e, eff):
                info["unsupported_real"] = str(e)[:80]
            else:
                problems.append((_exc_class(block, e) + "@real_rng", f"real RNG: {type(e).__name__}: {str(e)[:200]}",
                                 None, str(e)[:200], "a series"))
        info["leaves"] = leaves
        info["nontrivial_rows"] = _nontrivial(res, block)
        info["res"] = res
        return problems, "ok", info


def _nontrivial(res, block):
    """Rows on which some series actually moves (the answers were used)."""
    moving = None
    for k, v in res.items():
        if k.startswith("#") or v.dim() != 2 or v.size(1) < 2:
            continue
        m = (v[:, 1:] != v[:, :1]).any(dim=1)
        moving = m if moving is None else (moving | m)
    return 0 if moving is None else int(moving.sum())


def _report(ctx, block, problems, info):
    site = site_of(block)
    for cls, msg, row, obs, exp in problems:
        mini = block
        if row is not None and "leaves" in info:
            cand = dict(block)
            cand["rows"] = [info["leaves"][row].tolist()]
            cand.pop("n_paths", None)
            try:
                p2, _, _ = evaluate(cand)
            except HarnessError:
                p2 = []
            if any(p[0] == cls for p in p2):
                mini = cand
        ctx.violation(site, cls, f"{msg} [{_describe(block)}]", observed=obs, expected=exp, block=mini)


def _describe(block):
    return (f"{block['kind']} {block['name']} params={block['params']} init={block['init']} "
            f"dtype={block['dtype']} default={block['default']} n_steps={block['n_steps']}")


def _series_family(ctx, block):
    block = dict(block)
    block.setdefault("seed", ctx.seed)
    problems, status, info = evaluate(block)
    N = info["N"]
    ctx.tick(N, nontrivial=info.get("nontrivial_rows", 0))
    ctx.add("configurations", 1)
    # tree nodes = answer prefixes: sum_k |J|^k for a full tree, one per path for explicit rows
    if block.get("rows") is None and block.get("n_paths") is None and block["n_steps"] > 1:
        J = joint_size(gen_of(block), alpha_of(block))
        nodes = sum(J ** k for k in range(1, min(block["depth"], block["n_steps"] - 1) + 1))
    else:
        nodes = N
    ctx.add("states", nodes)
    ctx.add("transitions", nodes)          # one incoming edge (a joint RNG answer) per node
    ctx.add("rng_requests_answered", info["requests"])
    if status == "unsupported":
        ctx.add("unsupported_half_precision", 1)
        ctx.outcome(("unsupported", block["kind"], block["name"], str(info["eff"]), info["unsupported"]))
        return
    if status == "ok":
        ctx.add("traces_validated_against_impl", N)
        for k, v in info.get("stats", {}).items():
            if v:
                ctx.add(k, v)
        if info.get("real"):
            ctx.add("real_rng_passes", 1)
        res = info["res"]
        for k, v in res.items():
            if v.numel():
                ctx.outcome((block["name"], k, str(v.dtype), tuple(v.shape),
                             round(float(v.double().nan_to_num(nan=-7.0, posinf=1e300, neginf=-1e300)
                                         .clamp(-1e300, 1e300).mean()), 6)))
        if len(ctx.samples) < ctx.sample_cap and block["init"]["form"] != "default" and N > 1 \
                and block["n_steps"] == 3 and not any(x.get("block", {}).get("name") == block["name"]
                                                      for x in ctx.samples if isinstance(x, dict)) \
                and block["name"] in ("heston", "kou_jump", "vasicek", "RoughBergomiStock", "CIRRate",
                                      "MertonJumpStock"):
            r = N // 2
            ctx.sample({"family": ctx._family, "block": {k: v for k, v in block.items() if k != "rows"},
                        "row": r, "leaf(joint symbol index per level)": info["leaves"][r].tolist(),
                        "series": {k: v[r].tolist()[:8] for k, v in res.items()}})
    _report(ctx, block, problems, info)


@family
def series_tree(ctx, block):
    _series_family(ctx, block)


@family
def series_shape(ctx, block):
    _series_family(ctx, block)


def evaluate_engine(block):
    """One call with a non-default engine (every inner torch draw of the engine owned and scripted) + float64
    twin + one real-RNG pass; the same oracle.  Returns (problems, status, n_requests)."""
    req = None if block["dtype"] is None else DT[block["dtype"]]
    N = block["n_paths"]
    tag = f"@engine_{block['engine']}"
    eff0 = req if req is not None else DT[block["default"]]
    if eff0 in SC.HALF:
        tag += ":" + str(eff0).split(".")[-1]      # half precisions get their own class

    def run(b, dtype, owned):
        rng = OwnedRNG({s: _Scripted() for s in OwnedRNG.SITES}) if owned else None
        try:
            if owned:
                with rng:
                    return call_real(b, N, dtype, rng), None, len(rng.log)
            torch.default_generator.manual_seed(4321 + block.get("seed", 0))
            return call_real(b, N, dtype, None), None, 0
        except HarnessError:
            raise
        except Exception as e:  # noqa: BLE001
            return None, e, 0

    def exc_class(e):
        return (f"raises:{type(e).__name__}:n_paths_{'odd' if N % 2 else 'even'}"
                + (":n_steps=1" if block["n_steps"] == 1 else "") + tag)

    with Default(block["default"]):
        eff = SC.expected_dtype(req, torch.get_default_dtype())
        res, exc, nreq = run(block, req, True)
        if exc is not None:
            if SC.is_backend_unsupported(exc, eff):
                return [], "unsupported", nreq
            return [(exc_class(exc), f"{type(exc).__name__}: {str(exc)[:200]}", None, str(exc)[:200], "a series")], \
                "raised", nreq
        twin = None
        if eff != torch.float64:
            b64 = dict(block)
            b64["dtype"] = "float64"
            twin, _, _ = run(b64, torch.float64, True)
        problems = [(p[0] + tag,) + tuple(p[1:]) for p in judge(block, res, N, eff, twin)]
        real, rexc, _ = run(block, req, False)
        if rexc is not None:
            if not SC.is_backend_unsupported(rexc, eff):
                problems.append((exc_class(rexc) + "@real_rng", f"real RNG: {type(rexc).__name__}: {str(rexc)[:200]}",
                                 None, str(rexc)[:200], "a series"))
        else:
            seen = {p[0] for p in problems}
            for p in judge(block, real, N, eff, None):
                if eff in SC.HALF and p[0].split(":")[0] in ("nonfinite", "zero_without_underflow"):
                    continue
                if p[0] + tag not in seen:
                    problems.append((p[0] + tag + "@real_rng",) + tuple(p[1:]))
        return problems, "ok", nreq


@family
def series_engine(ctx, block):
    block = dict(block)
    block.setdefault("seed", ctx.seed)
    problems, status, nreq = evaluate_engine(block)
    ctx.tick(block["n_paths"], nontrivial=block["n_paths"] if block["n_paths"] % 2 else 0)
    ctx.add("configurations", 1)
    ctx.add("engine_configurations", 1)
    ctx.add("rng_requests_answered", nreq)
    if status == "unsupported":
        ctx.add("unsupported_half_precision", 1)
        return
    if status == "ok":
        ctx.add("traces_validated_against_impl", block["n_paths"])
    site = site_of(block)
    for cls, msg, row, obs, exp in problems:
        ctx.violation(site, cls, f"{msg} [engine={block['engine']} n_paths={block['n_paths']} {_describe(block)}]",
                      observed=obs, expected=exp, block=block)


# ---------------------------------------------------------------------------------
# re-simulation histories (bfs)
# ---------------------------------------------------------------------------------
def _resim_ops(name, tier="thorough"):
    """Operation alphabet of the re-simulation histories: simulate() calls with changing n_paths / horizon /
    initial state, READING the derived series (volatility / variance properties), and a cast."""
    iv = INIT_VALUES[SC.INSTRUMENTS[name]["gen"]]
    ops = [
        {"n": 2, "k": 2, "init": None},
        {"n": 5, "k": 3, "init": iv[0]},
        {"read": "derived"},
        {"n": 1, "k": 0, "init": None},
        {"to": "other"},            # to(float64), or to(float32) when the instrument already is float64
    ]
    if tier == "thorough":
        ops.append({"n": 3, "k": 6, "init": iv[1]})
    return ops


def _is_sim(op):
    return "n" in op


class _Scripted:
    """Deterministic answers that depend only on the request (site, call index, shape):
    symbol (row + col + call index) of the site's alphabet; the same simulate() call gets the
    same answers on a fresh instrument and at the end of a history."""

    def __call__(self, shape, dtype, req):
        site = req["site"]
        if site == "randperm":          # a fixed permutation (the reversal)
            return torch.arange(shape[0]).flip(0)
        if site in ("randn", "randn_like"):
            table = torch.tensor(NORMAL)
        elif site == "mvn":
            cov = req["params"]["covariance_matrix"].double()
            table = torch.tensor(NORMAL) * math.sqrt(float(cov[1, 1]))
        elif site in ("rand", "rand_like", "uniform"):
            table = torch.tensor([0.0, 0.5, 1.0 - torch.finfo(dtype).eps / 2])
        elif site == "poisson":
            table = torch.tensor(COUNT)
        elif site == "exponential":
            rate = float(req["params"]["rate"])
            table = torch.tensor([float(torch.finfo(dtype).tiny), 1.0 / rate, 40.0 / rate])
        else:
            raise HarnessError(f"unexpected site {site}")
        n = 1
        for s in shape:
            n *= s
        idx = torch.arange(n).reshape(shape) if n else torch.zeros(shape, dtype=torch.long)
        # position-dependent pattern: linear index + call index
        return table.double()[(idx + req["index"]) % len(table)]


def _derived_problems(name, inst):
    """volatility / variance exposed by the instrument NOW: shape and dtype of the current spot and
    volatility == sqrt(max(variance, 0)).  Returns a list of (class, message, observed, expected)."""
    spec = SC.INSTRUMENTS[name]
    if not spec["vol"]:
        return []
    spot = inst.spot
    out = []
    vol, var = getattr(inst, spec["vol"][0]), getattr(inst, spec["vol"][1])
    for what, t in (("volatility", vol), ("variance", var)):
        if tuple(t.shape) != tuple(spot.shape):
            out.append((f"derived_stale_shape:{what}", f"{what} has shape {tuple(t.shape)}, the current series "
                        f"have {tuple(spot.shape)}", list(t.shape), list(spot.shape)))
        elif t.dtype != spot.dtype:
            out.append((f"derived_stale_dtype:{what}", f"{what} has dtype {t.dtype}, the current series are "
                        f"{spot.dtype}", str(t.dtype), str(spot.dtype)))
    if out:
        return out
    finfo = torch.finfo(spot.dtype)
    vd, wd = vol.double(), var.double()
    ok = torch.isfinite(vd) & torch.isfinite(wd)
    root = wd.clamp(min=0).sqrt()
    tol = SC.sqrt_tolerance(spot.dtype) * root + (finfo.tiny * finfo.eps) ** 0.5 * 2     # as in judge()
    bad = ok & (((vd - root).abs() > tol) | (vd < 0))
    if bad.any():
        r = int(bad.any(dim=1).nonzero()[0])
        out.append(("derived_not_sqrt_variance", "volatility != sqrt(variance) of the current series",
                    vd[r].tolist()[:8], root[r].tolist()[:8]))
    return out


def _resim_build(block, history):
    """Fresh instrument, history replayed with the scripted RNG.  The derived series are read where the
    history says so and once more at the end.  Returns a dict describing the end state."""
    import pfhedge.instruments as I
    name = block["name"]
    params = dict(block["params"])
    if "sigma_fn" in params:
        params["sigma_fn"] = SIGMA_FNS[params["sigma_fn"]]
    dtype = None if block["dtype"] is None else DT[block["dtype"]]
    world = {"error": None, "derived": [], "read": False}
    with Default(block["default"]):
        cur = dtype if dtype is not None else torch.get_default_dtype()
        inst = getattr(I, name)(dtype=dtype, **params)
        simulated = False
        for i, op in enumerate(history):
            try:
                if "read" in op:
                    if simulated:
                        world["derived"] += [(i,) + p for p in _derived_problems(name, inst)]
                        world["read"] = True
                    continue
                if "to" in op:
                    cur = torch.float32 if cur == torch.float64 else torch.float64
                    inst.to(cur)
                    continue
                rng = OwnedRNG({s: _Scripted() for s in OwnedRNG.SITES})
                try:
                    with rng:
                        if hasattr(inst, "engine"):
                            inst.engine = rng._randn     # the engine stored at construction is torch.randn
                        kw = {} if op["init"] is None else {"init_state": tuple(op["init"])}
                        inst.simulate(n_paths=op["n"], time_horizon=_steps_to_horizon(op["k"], inst.dt), **kw)
                    simulated = True
                    world["read"] = False
                finally:
                    if hasattr(inst, "engine"):
                        inst.engine = torch.randn
            except HarnessError:
                raise
            except Exception as e:  # noqa: BLE001
                world["error"] = (op, e)
                break
        if world["error"] is None and simulated:
            try:
                world["derived"] += [(len(history),) + p for p in _derived_problems(name, inst)]
            except HarnessError:
                raise
            except Exception as e:  # noqa: BLE001
                world["error"] = ({"read": "derived"}, e)
        world["buffers"] = {k: v.detach().clone() for k, v in inst.named_buffers()}
        world["dtype"] = cur
    return world


def _resim_canon(world):
    if world["error"] is not None:
        return ("error", type(world["error"][1]).__name__)
    return (tuple((k, tuple(v.shape), str(v.dtype)) for k, v in world["buffers"].items()), world["read"])


def _resim_check(ctx, block, history, world, cache):
    """End state of ``history``: documented buffer names, the shape of the last simulate(), the current dtype,
    derived series consistent with the current series at every read, and - when the last operation is a
    simulate() - buffers bitwise those of a fresh instrument (in the current dtype) given only that call."""
    name = block["name"]
    site = name + ".simulate"
    eff = world.get("dtype") or (DT[block["dtype"]] if block["dtype"] else DT[block["default"]])
    mini = dict(block)
    mini["histories"] = [history]
    if world["error"] is not None:
        op, e = world["error"]
        if SC.is_backend_unsupported(e, eff):
            ctx.add("unsupported_half_precision", 1)
            return
        if _is_sim(op):
            cls = f"raises:{type(e).__name__}" + (":n_steps=1" if op["k"] == 0 else ":resimulate")
            what = f"simulate(n_paths={op['n']}, steps={op['k'] + 1})"
        else:
            cls = f"raises:{type(e).__name__}:{next(iter(op))}"
            what = repr(op)
        ctx.violation(site, cls, f"{type(e).__name__}: {str(e)[:200]} in {what} within history {history}",
                      observed=str(e)[:200], expected="buffers", block=mini)
        return
    for i, cls, msg, obs, exp in world["derived"]:
        ctx.violation(name + ".volatility", cls, f"{msg}; read after operation {i} of history {history}",
                      observed=obs, expected=exp, block=mini)
    sims = [op for op in history if _is_sim(op)]
    if not sims:
        return
    last = sims[-1]
    got = world["buffers"]
    expected_names = SC.INSTRUMENTS[name]["buffers"]
    shape = (last["n"], last["k"] + 1)
    if tuple(got) != tuple(expected_names):
        ctx.violation(site, "resim_buffer_names", f"buffers after history: {list(got)}, documented {expected_names}",
                      observed=list(got), expected=list(expected_names), block=mini)
        return
    for k in got:
        if tuple(got[k].shape) != shape:
            ctx.violation(site, f"resim_stale_shape:{k}", f"buffer {k} has shape {tuple(got[k].shape)} after "
                          f"simulate(n_paths={last['n']}, steps={last['k'] + 1}) at the end of {history}",
                          observed=list(got[k].shape), expected=list(shape), block=mini)
            return
        if got[k].dtype != eff:
            ctx.violation(site, f"resim_dtype:{k}", f"buffer {k} has dtype {got[k].dtype}, expected {eff}",
                          observed=str(got[k].dtype), expected=str(eff), block=mini)
            return
    i_last = max(i for i, op in enumerate(history) if _is_sim(op))
    if any("to" in op for op in history[i_last + 1:]):
        return          # a cast came after the last simulate(): values are the cast of the previous ones
    key = (repr(last), str(eff))
    if key not in cache:
        b2 = dict(block)
        b2["dtype"] = str(eff).split(".")[-1]
        cache[key] = _resim_build(b2, [last])
    fresh = cache[key]
    if fresh["error"] is not None:
        return
    want = fresh["buffers"]
    for k in got:
        a, b = got[k], want[k]
        same = a.shape == b.shape and (torch.equal(a, b) or torch.equal(a.double().nan_to_num(nan=-7.0),
                                                                        b.double().nan_to_num(nan=-7.0)))
        if not same:
            ctx.violation(site, f"resim_values:{k}", f"buffer {k} after history {history} differs from a fresh "
                          f"instrument's given the same simulate() call and RNG answers (stale data survives)",
                          observed=a.flatten().tolist()[:8], expected=b.flatten().tolist()[:8], block=mini)
            return


@family
def resimulate(ctx, block):
    """block: instrument config + either 'histories' (explicit list of op lists) or 'depth'."""
    name = block["name"]
    ops = _resim_ops(name, block.get("ops", "thorough"))
    cache = {}
    if "histories" in block:
        hists = [h for h in block["histories"] if h]
    else:
        hists = [h for h in explore.all_histories(ops, block["depth"]) if h]
    n_states = set()
    for h in hists:
        w = _resim_build(block, h)
        _resim_check(ctx, block, h, w, cache)
        n_states.add(_resim_canon(w))
        ctx.tick(1, nontrivial=1 if len([o for o in h if _is_sim(o)]) > 1 or (
            len(h) > 1 and any("read" in o for o in h[:-1])) else 0)
        ctx.add("traces_validated_against_impl", 1)
        ctx.add("transitions", len(h))
        ctx.outcome((name, _resim_canon(w)))
    if "histories" in block:
        return
    # bfs over the abstract state (names, shapes, dtypes) to a fixpoint: every (state, op) pair
    def on_tr(hist, op, before, after):
        _resim_check(ctx, block, hist + [op], after, cache)
        ctx.tick(1, nontrivial=1 if _resim_canon(before) != _resim_canon(after) else 0)

    res = explore.bfs([[]], ops, lambda h: _resim_build(block, h), _resim_canon, on_transition=on_tr)
    if not res.fixpoint:
        ctx.cap("resimulate bfs did not reach a fixpoint")
    ctx.add("states", res.states)
    ctx.add("transitions", res.transitions)
    ctx.add("bfs_fixpoints", 1)


@family
def batch(ctx, block):
    """A list of blocks of one family (unit of work of a worker process)."""
    for b in block["blocks"]:
        prev = (ctx._family, ctx._block)
        ctx._family, ctx._block = block["family"], b
        try:
            FAMILIES[block["family"]](ctx, b)
        finally:
            ctx._family, ctx._block = prev


# ---------------------------------------------------------------------------------
# enumeration
# ---------------------------------------------------------------------------------
def _instrument_params(name, p):
    """Constructor arguments of the instrument for a generator parameter set (same names)."""
    return dict(p)


def _init_forms(ctx, kind, name):
    gen = name if kind == "gen" else SC.INSTRUMENTS[name]["gen"]
    forms = [("default", None)]
    for v in INIT_VALUES[gen]:
        forms.append(("tuple", v))
    forms.append(("int", INT_INIT[gen]))
    forms.append(("tensor64", INIT_VALUES[gen][0]))
    if ctx.thorough:
        forms.append(("tensor32", INIT_VALUES[gen][0]))
    # bare scalars (not wrapped in a tuple): cast_state and the generators' documentation accept them, and every
    # single-series instrument passes init_state through unchanged.  A zero initial state (falsy!) is admissible
    # for the series that are not exponential-type prices.
    if kind == "inst" and USER_SUBCLASS_WORLDS:
        forms.append(("subclass", INIT_VALUES[gen][0]))
    single = len(INIT_VALUES[gen][0]) == 1
    if single and (kind == "inst" or SC.GENERATORS[gen]["bare"]):
        forms.append(("bare", INIT_VALUES[gen][0]))
        forms.append(("bare_tensor", INIT_VALUES[gen][0]))
        if gen in ZERO_START:
            forms += [("bare", [0.0]), ("bare_int", [0]), ("bare_tensor", [0.0])]
    return forms


ZERO_START = ("brownian", "cir", "vasicek")     # a zero initial state is admissible (not an exponential-type price)


def _quick_tree(J, pi, form, values, default, dtype, n_steps, depth, init_values):
    """Quick-tier subset of the tree configurations (the thorough tier runs the full product)."""
    first_value = form != "tuple" or values == init_values[0]
    if default == "float64":
        # non-default global dtype: requested None / narrower / half, one horizon
        return dtype in (None, "float32", "float16") and n_steps == 3 and first_value and not form.startswith("bare")
    if J >= 75 and depth == 2 and not (dtype in (None, "float64", "float16") and form in ("default", "tuple")):
        return False      # large joint alphabets: depth 2 only on the main rows
    if n_steps == 7:
        return pi < 2 and form in ("default", "tuple") and first_value and dtype != "bfloat16"
    if form in ("int", "tensor64", "bare", "bare_int", "bare_tensor", "subclass"):
        return pi == 0 and n_steps == (3 if J < 75 else 2)
    return True


# long grids / fast mean reversion: kappa*T = 100 (251 daily steps), 800 (2001 steps) and 100 (kappa=5 over 20 years);
# answers of the depth-2 tree repeat cyclically over the whole horizon.  (generator, parameters, n_steps, depth, tier)
LONG_GRIDS = [
    ("vasicek", {"kappa": 100.0}, 251, 2, "quick"), ("vasicek", {"kappa": 100.0}, 2001, 2, "quick"),
    ("vasicek", {"kappa": 5.0}, 5001, 2, "thorough"),
    ("cir", {"kappa": 100.0}, 251, 2, "quick"), ("cir", {"kappa": 100.0}, 2001, 1, "thorough"),
    ("heston", {"kappa": 100.0}, 251, 1, "quick"), ("heston", {"kappa": 100.0}, 2001, 1, "thorough"),
    ("brownian", {}, 2001, 2, "quick"), ("geometric_brownian", {}, 2001, 2, "quick"),
    ("local_volatility", {"sigma_fn": "const"}, 501, 2, "quick"),
    ("merton_jump", {}, 501, 1, "thorough"),
    # (no long Kou grid: 500 repetitions of "6 jumps of 40 mean sizes" leave the range of float64 itself, and
    # float64 has no wider twin to judge the range against)
]


def _horizon_ok(k, dt):
    return math.ceil(k * dt / dt + 1) == k + 1


def _blocks_long(ctx):
    for gen, params, n_steps, depth, tier in LONG_GRIDS:
        if tier == "thorough" and ctx.quick:
            continue
        targets = [("gen", gen)] + [("inst", n) for n, sp in SC.INSTRUMENTS.items() if sp["gen"] == gen]
        for kind, name in targets:
            if kind == "inst" and not _horizon_ok(n_steps - 1, params.get("dt", 1 / 250)):
                continue
            for dtype in ([None, "float64"] if (ctx.quick and n_steps > 1000) else
                          [None, "float64", "float16", "bfloat16"]):
                yield {"kind": kind, "name": name, "params": params, "init": {"form": "default", "values": None},
                       "dtype": dtype, "default": "float32", "n_steps": n_steps, "depth": depth}


EXTRA_NORMALS = [2.0, -2.0, 4.0, -4.0, 0.5, -0.5, 16.0, -16.0]


def _blocks_tree(ctx):
    extra = ctx.extra_symbol("normal answer", EXTRA_NORMALS)
    dtypes = [None, "float16", "bfloat16", "float32", "float64"]
    for kind, names in (("gen", list(SC.GENERATORS)), ("inst", list(SC.INSTRUMENTS))):
        for name in names:
            gen = name if kind == "gen" else SC.INSTRUMENTS[name]["gen"]
            J = joint_size(gen)
            plist = PARAMS[gen]
            for pi, params in enumerate(plist):
                for form, values in _init_forms(ctx, kind, name):
                    for default in ("float32", "float64"):
                        for dtype in dtypes:
                            for n_steps, depth in ((2, 1), (3, 2), (7, 2)):
                                if ctx.quick and not _quick_tree(J, pi, form, values, default, dtype, n_steps,
                                                                  depth, INIT_VALUES[gen]):
                                    continue
                                b = {"kind": kind, "name": name, "params": params,
                                     "init": {"form": form, "values": values}, "dtype": dtype,
                                     "default": default, "n_steps": n_steps, "depth": depth}
                                if ctx.quick and J > 125 and depth == 2:
                                    b["alpha"] = "corner"     # Kou: normals {0,+-8} at depth 2 in the quick tier
                                if J < 75:
                                    b["extra_normal"] = extra  # seed-dependent additional answer symbol
                                yield b


def _blocks_shape(ctx):
    dtypes = [None, "float16", "bfloat16", "float32", "float64"]
    for kind, names in (("gen", list(SC.GENERATORS)), ("inst", list(SC.INSTRUMENTS))):
        for name in names:
            gen = name if kind == "gen" else SC.INSTRUMENTS[name]["gen"]
            plist = PARAMS[gen] if ctx.thorough else PARAMS[gen][:2]
            for pi, params in enumerate(plist):
                for form, values in [("default", None), ("tuple", INIT_VALUES[gen][0])]:
                    for default in ("float32", "float64"):
                        for dtype in dtypes:
                            if ctx.quick:
                                # quick: the full (n_paths, n_steps) grid for the default parameters; for the
                                # second parameter set only the dtypes that differ from the default in force
                                if default == "float64" and dtype in ("float16", "bfloat16"):
                                    continue
                                if pi == 1 and (form == "default" or dtype not in ("float16", "float64")
                                                or default == "float64"):
                                    continue
                            for n_paths in (1, 2, 5):
                                for n_steps in (1, 2, 3, 7):
                                    if ctx.quick and not (default == "float32" and dtype in (None, "float64")) \
                                            and (n_paths, n_steps) not in ((2, 1), (2, 3), (1, 7)):
                                        continue
                                    yield {"kind": kind, "name": name, "params": params,
                                           "init": {"form": form, "values": values}, "dtype": dtype,
                                           "default": default, "n_steps": n_steps, "depth": 1,
                                           "n_paths": n_paths}


def _blocks_engine(ctx):
    dtypes = [None, "float64"] if ctx.quick else [None, "float16", "bfloat16", "float32", "float64"]
    for kind, name in ENGINE_TARGETS:
        gen = name if kind == "gen" else SC.INSTRUMENTS[name]["gen"]
        inits = [("default", None)] + ([("tuple", INIT_VALUES[gen][0])] if ctx.thorough else [])
        for engine in ENGINES:
            for default in (("float32",) if ctx.quick else ("float32", "float64")):
                for dtype in (dtypes + ["float16"] if (ctx.quick and engine == "sobol_default") else dtypes):
                    for form, values in inits:
                        for n_paths in (1, 2, 3, 5):
                            for n_steps in (1, 2, 3):
                                yield {"kind": kind, "name": name, "params": {}, "init": {"form": form, "values": values},
                                       "dtype": dtype, "default": default, "n_steps": n_steps, "depth": 1,
                                       "n_paths": n_paths, "engine": engine}


def _blocks_resim(ctx):
    for name, spec in SC.INSTRUMENTS.items():
        gen = spec["gen"]
        for params in (PARAMS[gen][:1] if ctx.quick else PARAMS[gen][:2]):
            for default, dtype in (("float32", None), ("float32", "float64"), ("float64", "float32"),
                                   ("float32", "float16")):
                if ctx.quick and (default, dtype) not in (("float32", None), ("float32", "float64")):
                    continue
                yield {"name": name, "params": params, "dtype": dtype, "default": default,
                       "depth": ctx.pick(3, 4), "ops": ctx.tier}


def run(ctx):
    ctx.rule("series_tree: generators(9)+instruments(8) x parameter sets x initial-state forms/values x requested "
             "dtype {None,f16,bf16,f32,f64} x global default {f32,f64} x n_steps {2,3,7}; per configuration the "
             "full depth-d tree of joint extreme answers on the path axis (one evaluation = one leaf = one path); "
             "non-trivial = paths on which a series moves.  series_shape: n_paths {1,2,5} x n_steps {1,2,3,7} grid. "
             "resimulate: all histories of 4 simulate() ops up to the depth + bfs to fixpoint over (names,shapes,dtypes)")
    ctx.alphabet("normal answers", NORMAL)
    ctx.alphabet("normal answers (Kou, depth 2, quick tier)", CORNER_NORMAL)
    ctx.alphabet("seed-dependent extra normal answer (generators with < 75 joint symbols)",
                 [ctx.extra_symbol("normal answer", EXTRA_NORMALS)])
    ctx.alphabet("uniform answers", UNIFORM)
    ctx.alphabet("poisson counts", COUNT)
    ctx.alphabet("exponential sizes", EXPO)
    ctx.alphabet("parameter sets", PARAMS)
    ctx.alphabet("non-default initial states", INIT_VALUES)
    ctx.alphabet("joint alphabet size per generator", {g: joint_size(g) for g in LAYOUT})
    ctx.assume("torch's RNG primitives return tensors of the requested shape/dtype with values in the support "
               "(checked by one real-RNG pass per configuration); distributions themselves are out of scope here")
    ctx.assume("overflow/underflow in a narrower dtype is judged against a float64 run of the same call with the "
               "same answers (range oracle): non-finite / zero values are accepted only on paths whose float64 "
               f"magnitude exceeds max/{RANGE_MARGIN:g} (resp. is below {RANGE_MARGIN:g}*tiny) of the dtype")
    ctx.assume("half precisions: on paths where the half-precision trajectory has left the float64 one by more than "
               "a factor 2 before its first non-finite value, a +-inf (never a NaN) is counted "
               "(half_untracked_overflow_paths) and not judged - accuracy of half-precision recursions is not part "
               "of the property")
    ctx.assume("half precision: only torch's '\"kernel\" not implemented for Half/BFloat16' errors are exempted "
               "(counted as unsupported_half_precision); every other exception is a violation")
    ctx.assume("time_horizon = k*dt with k*dt/dt == k exactly (grid rounding is C13's subject)")
    tree_blocks = list(_blocks_tree(ctx)) + list(_blocks_long(ctx))
    ctx.alphabet("long grids (generator, parameters, n_steps, depth, tier)", LONG_GRIDS)
    shape_blocks = list(_blocks_shape(ctx))
    resim_blocks = list(_blocks_resim(ctx))
    engine_blocks = list(_blocks_engine(ctx))
    ctx.alphabet("engines (generators and instruments that accept engine=)", list(ENGINES))
    if ctx.thorough:
        # interleave so that every chunk gets a similar mix of cheap and expensive generators
        work = []
        for name, blocks in (("series_tree", tree_blocks), ("series_shape", shape_blocks),
                             ("resimulate", resim_blocks), ("series_engine", engine_blocks)):
            k = 24
            work += [{"family": name, "blocks": blocks[i::k]} for i in range(k) if blocks[i::k]]
        ctx.run_parallel("batch", work, workers=min(8, int(os.environ.get("VERIF_WORKERS", "8"))))
    else:
        for b in tree_blocks:
            ctx.run("series_tree", b)
        for b in shape_blocks:
            ctx.run("series_shape", b)
        for b in resim_blocks:
            ctx.run("resimulate", b)
        for b in engine_blocks:
            ctx.run("series_engine", b)
    if not ctx.samples:
        ctx.sample({"note": "no configuration completed normally (see violations)", "first_block": tree_blocks[0]})

"""C05 - risk-measure values equal their mathematical definitions.  Engine: grid.

Families
  values    every sample of length N over the alphabet (all |A|^N columns), realised at a
            scale/dtype, through one call variant (module or functional form, shape (N,),
            (N,M) or (N,M,K), explicit dim, target none/scalar/tensor); every column's value
            is compared with the exact / 50-digit reference (mc.models.risk_ref):
            entropic risk, expected shortfall, value at risk, quadratic CVaR (exact
            minimum, two-sided), entropic / isoelastic loss, OCE.
  pointwise exp_utility / isoelastic_utility element by element, and topp.

Quadratic CVaR: finding 11 (the search interval [-max x, -min x] does not contain the
minimiser when mean(max x - x) < 1/(2 lam)) is classified from the input and from the value
the defective search is bound to return (objective at the interval end); everything else
that is not the minimum gets the class ``not_minimum``.
"""
from __future__ import annotations

import math
from fractions import Fraction

import mpmath as mp
import torch

from mc.models import risk_ref as R
from mc.models import risk_space as S

FAMILIES = {}


def family(fn):
    FAMILIES[fn.__name__] = fn
    return fn


# ----------------------------------------------------------------------------
# references (cached per column of actual floats)
# ----------------------------------------------------------------------------

_CACHE = {}


def _ref_column(measure, param, xs):
    """-> list of accepted (lo, hi) float intervals (lo == hi: a prescribed value)."""
    key = (measure, param if not isinstance(param, list) else tuple(param), tuple(xs))
    hit = _CACHE.get(key)
    if hit is not None:
        return hit
    if measure == "erm":
        v = float(R.entropic_risk(xs, param))
        out = [(v, v)]
    elif measure == "eloss":
        v = R.entropic_loss(xs, param)
        v = float(v) if v < mp.mpf("1e4000") else math.inf
        out = [(v, v)]
    elif measure == "iso":
        v = float(R.isoelastic_loss(xs, param))
        out = [(v, v)]
    elif measure == "oce":
        v = R.oce(xs, param, lambda z: 1 - mp.exp(-z))
        v = float(v) if abs(v) < mp.mpf("1e4000") else (-math.inf if v < 0 else math.inf)
        out = [(v, v)]
    elif measure == "es":
        out = [(float(v), float(v)) for v in R.expected_shortfall_accepted(xs, param)]
    elif measure == "var":
        r = R.value_at_risk(xs, param)
        if r[0] == "exact":
            out = [(float(v), float(v)) for v in r[1]]
        else:
            out = [(float(r[1]), float(r[2]))]
    elif measure == "qcvar":
        v = float(R.quadratic_cvar(xs, param))
        out = [(v, v)]
    else:
        raise KeyError(measure)
    if len(_CACHE) < 400000:
        _CACHE[key] = out
    return out


def _reference(measure, param, pl):
    """pl (N, M) -> (lo, hi) float64 tensors of shape (K, M), K accepted alternatives."""
    cols = pl.to(torch.float64).t().tolist()
    alts = [_ref_column(measure, param, xs) for xs in cols]
    K = max(len(a) for a in alts)
    lo = torch.tensor([[a[min(k, len(a) - 1)][0] for a in alts] for k in range(K)], dtype=torch.float64)
    hi = torch.tensor([[a[min(k, len(a) - 1)][1] for a in alts] for k in range(K)], dtype=torch.float64)
    return lo, hi


# ----------------------------------------------------------------------------
# call variants
# ----------------------------------------------------------------------------

def _target(kind, shape, scale, dtype):
    """Dyadic targets (multiples of scale/8): none, a python scalar, a full tensor."""
    if kind is None:
        return None
    if kind == "scalar":
        return 0.375 * scale
    n = 1
    for s in shape:
        n *= s
    t = ((torch.arange(n, dtype=torch.float64) * 3) % 7 - 3) / 4 * scale
    return t.reshape(shape).to(S.DT[dtype])


def _arrange(x, variant):
    """x (N, M) realised samples -> (input tensor, sample axis, M_used, restore) for the
    variant's shape/dim; ``restore(out)`` flattens the output back to (M,)."""
    N, M = x.shape
    shape, dim = variant["shape"], variant.get("dim", 0)
    if shape == "2d":
        if dim in (0, None):
            return x, 0
        return (x.t() if dim == 1 else x.t().contiguous()), dim   # (M, N): sample axis last
    if shape == "3d":
        K = variant.get("K", 2)
        pad = (-M) % K
        xp = torch.cat([x, x[:, :pad]], dim=1) if pad else x
        x3 = xp.reshape(N, -1, K)
        if dim == 0:
            return x3, 0
        if dim == 1:
            return x3.permute(1, 0, 2), 1            # (M', N, K)
        return x3.permute(1, 2, 0).contiguous(), -1  # (M', K, N)
    raise KeyError(shape)


def _call(measure, param, inp, variant, target, dtype):
    """One real call.  Returns the output tensor."""
    via, dim = variant["via"], variant.get("dim", 0)
    if measure == "oce":
        from pfhedge.nn.modules.loss import OCE
        m = OCE(lambda z: 1 - (-z).exp()).to(S.DT[dtype])
        with torch.no_grad():
            m.w.fill_(param)
            return m(inp) if target is None else m(inp, target)
    return S.evaluate(measure, param, inp, via=via, target=target, dim=dim)


def _tag(variant):
    t = variant["via"]
    if variant["shape"] != "2d":
        t += ":" + variant["shape"]
    if variant.get("dim", 0) != 0:
        t += ":dim" + str(variant.get("dim"))
    if variant.get("target"):
        t += ":target_" + variant["target"]
    return t


def _site(measure, variant):
    return (S.SITE if variant["via"] == "module" else S.FSITE).get(measure, measure)


def _mini(block, cols, j, param):
    mini = {k: block[k] for k in ("measure", "scale", "dtype", "variant") if k in block}
    if block.get("offset"):
        mini["offset"] = block["offset"]
    mini["N"] = int(cols.size(0))
    mini["cols"] = [S.col_list(cols, j)]
    mini["params"] = [param]
    return mini


def _tol(measure, param, pl, lo):
    if measure == "oce":
        # w - mean(1 - exp(-(x+w))): as eloss for the mean, plus the subtraction
        eps = S.eps_of(pl)
        xd = pl.to(torch.float64) + param
        return 2 * eps * ((xd.abs().amax(0) + pl.size(0) + 3) * torch.exp(-xd).mean(0) + abs(param) + 2)
    if measure == "eloss":
        # + underflow: terms below the smallest normal number of the dtype are flushed/denormal
        return S.tol_value(measure, param, pl, value=lo[0].clamp(max=1e300)) + 2 * float(torch.finfo(pl.dtype).tiny)
    return S.tol_value(measure, param, pl)


@family
def values(ctx, block):
    measure, dtype, scale = block["measure"], block["dtype"], block["scale"]
    variant = block["variant"]
    cols = S.columns(block)
    N, M = cols.shape
    base = S.realise(cols, scale, dtype, block.get("offset", 0.0))
    site = _site(measure, variant)
    tag = _tag(variant)
    nonconst = int((cols != cols[:1]).any(0).sum())

    if variant["shape"] == "1d":
        # one call per sample
        outs = {p: [] for p in block["params"]}
        tgt = _target(variant.get("target"), (N,), scale, dtype)
        pls = []
        for j in range(M):
            xj = base[:, j].clone()
            inp = xj if tgt is None else xj + tgt
            pls.append(inp if tgt is None else inp - tgt)
            for p in block["params"]:
                o = _call(measure, p, inp, variant, tgt, dtype)
                if o.dim() != 0 or o.dtype != base.dtype:
                    ctx.violation(site, "shape_or_dtype:" + tag, f"output shape {tuple(o.shape)} dtype {o.dtype} "
                                  f"for a sample of shape ({N},)", observed=[list(o.shape), str(o.dtype)],
                                  expected=[[], str(base.dtype)], block=_mini(block, cols, j, p))
                    o = o.reshape(-1)[:1].sum().to(base.dtype)
                outs[p].append(o.reshape(()))
        pl = torch.stack(pls, dim=1)
        results = {p: torch.stack(v) for p, v in outs.items()}
    else:
        arranged, axis = _arrange(base, variant)
        tgt = _target(variant.get("target"), tuple(arranged.shape), scale, dtype)
        inp = arranged if tgt is None else arranged + tgt
        snap = inp.clone()
        pl_arr = inp if tgt is None else inp - tgt
        # back to (N, M'): sample axis first, the rest flattened in the order of the output
        ax = axis if axis >= 0 else pl_arr.dim() + axis
        pl = pl_arr.movedim(ax, 0).reshape(N, -1)
        expect_shape = tuple(s for i, s in enumerate(arranged.shape) if i != ax)
        results = {}
        for p in block["params"]:
            o = _call(measure, p, inp, variant, tgt, dtype)
            if tuple(o.shape) != expect_shape or o.dtype != base.dtype:
                ctx.violation(site, "shape_or_dtype:" + tag,
                              f"output shape {tuple(o.shape)} dtype {o.dtype} for input {tuple(inp.shape)}",
                              observed=[list(o.shape), str(o.dtype)], expected=[list(expect_shape), str(base.dtype)],
                              block=block)
                continue
            results[p] = o.reshape(-1)
        if not torch.equal(snap, inp) and not (snap.isnan() & inp.isnan()).all():
            ctx.violation(site, "mutates_input:" + tag, "the criterion modified its input tensor", block=block)
    Mx = pl.size(1)
    colmap = torch.arange(Mx) % M  # padded 3d variants repeat the first columns

    for p, out in results.items():
        lo, hi = _reference(measure, p, pl)
        tol = _tol(measure, p, pl, lo)
        v = out.to(torch.float64)
        ctx.tick(Mx, nontrivial=min(nonconst, Mx))
        nan = v.isnan()
        if nan.any():
            j = int(nan.nonzero()[0])
            ctx.violation(site, "nan:" + tag, f"NaN value ({int(nan.sum())}/{Mx} samples, param={p})",
                          observed="nan", expected=float(lo[0, j]), block=_mini(block, cols, int(colmap[j]), p))
        # overflow of the format is not a wrong value: when the exact value (or, for a mean of N
        # terms, N times it) exceeds the largest finite number of the dtype, +-inf is accepted
        fmax = torch.finfo(base.dtype).max
        inf_ok = ((lo.abs() * N > fmax) & v.unsqueeze(0).isinf() & (v.unsqueeze(0).sign() == lo.sign()))
        ok = (((v.unsqueeze(0) >= lo - tol) & (v.unsqueeze(0) <= hi + tol)) | inf_ok).any(0)
        bad = (~ok & ~nan).nonzero().flatten().tolist()
        for o in v[:: max(1, Mx // 20)].tolist():
            ctx.outcome((measure, round(o, 9) if math.isfinite(o) else repr(o)))
        if measure == "qcvar":
            _qcvar_report(ctx, block, cols, colmap, pl, p, v, lo[0], tol, bad, site, tag)
        else:
            for j in bad:
                jj = int(colmap[j])
                ctx.violation(site, f"value:{tag}",
                              f"{measure}(param={p}) != definition on {len(bad)}/{Mx} samples "
                              f"(scale={scale}, {dtype}, N={N}); tolerance {float(tol[j]):.3g}",
                              observed=float(v[j]), expected=[float(lo[k, j]) for k in range(lo.size(0))],
                              block=_mini(block, cols, jj, p))
        if len(ctx.samples) < 6 and measure in ("qcvar", "es", "erm") and N == 3 and variant["shape"] == "2d" \
                and not any(s.get("measure") == measure for s in ctx.samples):
            j = Mx // 3
            ctx.sample({"family": "values", "measure": measure, "param": p, "variant": tag, "dtype": dtype,
                        "sample": pl[:, j].tolist(), "value": float(v[j]),
                        "reference": [float(lo[0, j]), float(hi[0, j])], "tolerance": float(tol[j])})
    if measure == "var" and len(results) > 1:
        # monotone in p (the part of the statement that is a relation between levels)
        ps = sorted(results)
        for p1, p2 in zip(ps[:-1], ps[1:]):
            v1, v2 = results[p1].to(torch.float64), results[p2].to(torch.float64)
            slack = S.tol_value("var", p1, pl) * 2
            bad = (v1 > v2 + slack).nonzero().flatten().tolist()
            ctx.tick(Mx, nontrivial=min(nonconst, Mx))
            for j in bad:
                mini = _mini(block, cols, int(colmap[j]), p1)
                mini["params"] = [p1, p2]
                ctx.violation(site, "var_not_monotone_in_p:" + tag,
                              f"value_at_risk(p={p1}) > value_at_risk(p={p2})", observed=[float(v1[j]), float(v2[j])],
                              expected="non-decreasing in p", block=mini)


def _qcvar_report(ctx, block, cols, colmap, pl, lam, v, ref, tol, bad, site, tag):
    """Two-sided test against the exact minimum already failed for columns ``bad``:
    classify.  Finding 11 iff (computed from the input) the minimiser is below -max x
    AND the value is the objective at the end of the searched interval, which is what
    a search confined to [-max x - 1e-8, -min x + 1e-8] must return: the returned w is within
    1e-8 (interval slack) + 1e-5 (r + 2e-8) (search precision, see tol_value) of -max x and
    the slope of the objective is in [0, 1] there."""
    for j in bad:
        xs = pl[:, j].to(torch.float64).tolist()
        jj = int(colmap[j])
        below = R.minimiser_below_range(xs, lam)
        if float(v[j]) < float(ref[j]) - float(tol[j]):
            cls = "below_minimum"
            msg = "value is smaller than the minimum of the objective (not a value of the objective)"
            exp = float(ref[j])
        elif below and abs(float(v[j]) - float(R.quadratic_cvar_range_restricted(xs, lam))) <= float(tol[j]) + \
                S.QC_SLACK + S.QC_RELPREC * (max(xs) - min(xs) + 2 * S.QC_SLACK):
            cls = "minimiser_below_range:returns_range_end"
            gap = float(R.quadratic_gap(xs, lam))
            msg = (f"mean(max x - x) - 1/(2 lam) = {gap:.3g} < 0: the minimiser "
                   f"w* = {float(R.quadratic_cvar_argmin(xs, lam)):.6g} is below -max x = {-max(xs):.6g}; returned the "
                   f"objective at the end of the searched range, some w does better")
            exp = float(ref[j])
        else:
            cls = "not_minimum"
            msg = (f"value exceeds the minimum of w + lam mean(relu(-w-x)^2) by {float(v[j]) - float(ref[j]):.3g} "
                   f"(tolerance {float(tol[j]):.3g}); minimiser inside the sample range: {not below}")
            exp = float(ref[j])
        ctx.violation(site, f"{cls}:{tag}" if cls != "minimiser_below_range:returns_range_end" else cls,
                      f"quadratic_cvar(lam={lam}) on {xs}: {msg}", observed=float(v[j]), expected=exp,
                      block=_mini(block, cols, jj, lam))


@family
def pointwise(ctx, block):
    """exp_utility, isoelastic_utility on every alphabet value; topp on every sample."""
    import pfhedge.nn.functional as F
    dtype, scale = block["dtype"], block["scale"]
    what = block["what"]
    if what in ("exp_utility", "isoelastic_utility"):
        vals = torch.tensor(block["A"], dtype=torch.float64) / S.DEN * scale
        x = vals.to(S.DT[dtype])
        eps = S.eps_of(x)
        for a in block["params"]:
            out = (F.exp_utility(x, a=a) if what == "exp_utility" else F.isoelastic_utility(x, a=a))
            ctx.tick(len(vals), nontrivial=len(vals))
            if out.shape != x.shape or out.dtype != x.dtype:
                ctx.violation(what, "shape_or_dtype", f"{tuple(out.shape)} {out.dtype}", block=block)
                continue
            for i, xv in enumerate(x.tolist()):
                ref = R.exp_utility(xv, a) if what == "exp_utility" else R.isoelastic_utility(xv, a)
                got = float(out[i])
                if abs(ref) > mp.mpf("1e300"):
                    ok = math.isinf(got) and (got < 0) == (ref < 0)
                else:
                    # exp: argument rounding eps a|x| + 2 ulp; pow/log: 4 ulp of |u| (+ eps absolute for log)
                    tol = 4 * eps * (abs(a * xv) + 2) * abs(float(ref)) if what == "exp_utility" \
                        else 8 * eps * (abs(float(ref)) + 1)
                    ok = abs(got - float(ref)) <= tol + float(torch.finfo(x.dtype).tiny)  # underflow to 0
                ctx.outcome((what, a, round(got, 9) if math.isfinite(got) else repr(got)))
                if not ok:
                    mini = dict(block)
                    mini["A"] = [block["A"][i]]
                    mini["params"] = [a]
                    ctx.violation(what, "value", f"{what}({xv}, a={a})", observed=got, expected=float(ref), block=mini)
        return
    # topp: the ceil(p n) largest (or smallest) entries along dim, sorted
    cols = S.columns(block)
    N, M = cols.shape
    x = S.realise(cols, scale, dtype)
    for p in block["params"]:
        ks, borderline = R.tail_counts(p, N)
        for largest in (True, False):
            for dim, inp in ((0, x), (1, x.t()), (-1, x.t().contiguous()), (None, None)):
                if dim is None:
                    res = [F.topp(x[:, j], p, largest=largest) for j in range(min(M, 16))]
                    got = torch.stack([r.values for r in res], dim=1) if res else None
                    idx = torch.stack([r.indices for r in res], dim=1) if res else None
                    xx = x[:, :min(M, 16)]
                else:
                    r = F.topp(inp, p, dim=dim, largest=largest)
                    got = r.values if dim == 0 else r.values.t()
                    idx = r.indices if dim == 0 else r.indices.t()
                    xx = x
                ctx.tick(xx.size(1), nontrivial=int((xx != xx[:1]).any(0).sum()))
                srt = xx.sort(0, descending=largest).values
                ok = got.size(0) in ks and torch.equal(got, srt[: got.size(0)]) and \
                    torch.equal(xx.gather(0, idx), got)
                ctx.outcome(("topp", p, largest, dim, int(got.size(0))))
                if not ok:
                    ctx.violation("topp", f"values:largest={largest}:dim={dim}",
                                  f"topp(p={p}, dim={dim}, largest={largest}) is not the ceil(pN)={ks} "
                                  f"{'largest' if largest else 'smallest'} entries (N={N})",
                                  observed=got[:, 0].tolist(), expected=srt[: ks[0], 0].tolist(), block=block)


# ----------------------------------------------------------------------------

def p_levels(N):
    """{k/N, (k-1/2)/N, tiny, 1-tiny, 1} and the C04 levels."""
    ps = {1e-12, 1e-9, 1e-7, 1 - 1e-12, 1.0, 0.05, 0.2, 1 / 3, 0.5, 0.75, 0.8,
          # neighbourhoods of the "special" levels: the value must move monotonically through them
          0.25, 0.249, 0.251, 0.499, 0.501, 0.749, 0.751, 1 / 3 - 1e-3, 1 / 3 + 1e-3}
    for k in range(1, N + 1):
        ps.add(k / N)
        ps.add((k - 0.5) / N)
    return sorted(ps)


PARAMS = {"erm": [1e-4, 5e-4, 2e-3, 0.1, 1.0, 10.0], "eloss": [0.1, 1.0, 10.0], "iso": [0.25, 0.5, 1 - 1e-5, 1 - 1e-6, 1 - 5e-7, 1 - 1e-7, math.nextafter(1.0, 0.0), 1.0],
          "qcvar": [1.0, 2.0, 10.0, 100.0], "oce": [-1.0, 0.0, 0.5]}

TINY = [1, 3, 10, 100, 700]             # numerators/8 at scale 8e-6: 1e-6, 3e-6, 1e-5, 1e-4, 7e-4
MIXED = [1, 2 ** 27, 3 * 2 ** 27]     # numerators/8 at scale 1/4: 1/32, 2^22, 3*2^22 (exact in float32)
V_MOD = {"via": "module", "shape": "2d"}
FULL_VARIANTS = [
    {"via": "module", "shape": "2d"},
    {"via": "module", "shape": "2d", "target": "scalar"},
    {"via": "module", "shape": "2d", "target": "tensor"},
    {"via": "module", "shape": "3d", "K": 2},
    {"via": "module", "shape": "3d", "K": 3, "target": "tensor"},
    {"via": "functional", "shape": "2d", "dim": 0},
    {"via": "functional", "shape": "2d", "dim": 1},
    {"via": "functional", "shape": "2d", "dim": -1},
    {"via": "functional", "shape": "3d", "K": 2, "dim": 0},
    {"via": "functional", "shape": "3d", "K": 3, "dim": 1},
    {"via": "functional", "shape": "3d", "K": 2, "dim": -1},
]
ONE_D = [
    {"via": "module", "shape": "1d"},
    {"via": "module", "shape": "1d", "target": "tensor"},
    {"via": "functional", "shape": "1d", "dim": None},
    {"via": "functional", "shape": "1d", "dim": 0},
]
LIGHT_VARIANTS = [
    {"via": "module", "shape": "2d"},
    {"via": "module", "shape": "2d", "target": "tensor"},
    {"via": "functional", "shape": "2d", "dim": -1},
]


def _variant_ok(measure, v):
    if measure == "oce":
        return v["via"] == "module"
    if measure == "var":
        return v["via"] == "functional"
    if measure in ("erm", "eloss", "iso") and v["via"] == "functional":
        # entropic_risk_measure has no dim argument; the utilities are elementwise (mean along dim by the adapter)
        return v.get("dim", 0) in (0, None) if measure == "erm" else True
    return True


def blocks(ctx):
    A = S.alphabet(ctx)
    Ap = S.alphabet(ctx, positive=True)
    Ns = [1, 2, 3, 4] if ctx.quick else [1, 2, 3, 4, 5]
    out = []
    for measure in ("erm", "es", "var", "qcvar", "eloss", "iso", "oce"):
        alpha = Ap if measure == "iso" else A
        for N in Ns:
            params = p_levels(N) if measure in ("es", "var") else PARAMS[measure]
            confs = [("float64", 1.0, FULL_VARIANTS + (ONE_D if N <= (3 if ctx.quick else 4) else [])),
                     ("float32", 1.0, LIGHT_VARIANTS + [{"via": "module", "shape": "3d", "K": 2}]),
                     ("float64", 1e-6, LIGHT_VARIANTS), ("float64", 1e6, LIGHT_VARIANTS),
                     ("float32", 1e3, LIGHT_VARIANTS[:2])]
            for dtype, scale, variants in confs:
                if measure == "oce" and scale > 1:
                    continue  # 1 - exp(-x) at |x| ~ 1e3..1e6 is +-inf: nothing to compare
                for v in variants:
                    if not _variant_ok(measure, v):
                        continue
                    out.append({"measure": measure, "N": N, "A": alpha, "params": params, "scale": scale,
                                "dtype": dtype, "variant": v})
            if N in (2, 3):
                # heavy tail: one outcome two orders of magnitude worse (better, for the positive alphabet)
                heavy = [2, 8, 800] if measure == "iso" else [-800, 0, 4]
                for dtype in ("float64", "float32"):
                    out.append({"measure": measure, "N": N, "A": heavy, "params": params, "scale": 1.0,
                                "dtype": dtype, "variant": V_MOD if measure != "var" else FULL_VARIANTS[5]})
            if measure == "iso" and N <= 3:
                # tiny positive outcomes {1e-6, 3e-6, 1e-5, 1e-4, 7e-4} (an almost wiped-out position)
                for dtype in ("float32", "float64"):
                    for v in (V_MOD, FULL_VARIANTS[5]):
                        out.append({"measure": measure, "N": N, "A": TINY, "params": params, "scale": 8e-6,
                                    "dtype": dtype, "variant": v})
            if measure in ("es", "var"):
                # magnitudes MIXED inside one sample: {1/32, 2^22, 3*2^22}; the expected shortfall of small tail
                # outcomes is exact to eps * (tail magnitude), whatever the size of the outcomes outside the tail
                for dtype in ("float32", "float64"):
                    out.append({"measure": measure, "N": N, "A": MIXED, "params": params, "scale": 0.25, "dtype": dtype,
                                "variant": V_MOD if measure == "es" else FULL_VARIANTS[5]})
                    if measure == "es":
                        out.append({"measure": measure, "N": N, "A": MIXED, "params": params, "scale": 0.25,
                                    "dtype": dtype, "variant": FULL_VARIANTS[7]})
            if measure == "erm" and N in (2, 3):
                # heavy tail at a large scale (a small risk aversion is not a small exponent there)
                out.append({"measure": measure, "N": N, "A": [-800, 0, 4], "params": params, "scale": 1e4,
                            "dtype": "float64", "variant": V_MOD})
            if measure in ("qcvar", "erm", "es"):
                # large common offset (cash component): centring / logsumexp stability
                out.append({"measure": measure, "N": N, "A": alpha, "params": params, "scale": 1.0,
                            "dtype": "float64", "offset": 1e6, "variant": V_MOD})
                out.append({"measure": measure, "N": N, "A": alpha, "params": params, "scale": 1.0,
                            "dtype": "float32", "offset": 1024.0, "variant": V_MOD})
    # flattening forms (dim=None on a matrix) where the documentation defines them
    return out


@family
def flatten(ctx, block):
    """dim=None on a 2-D input: quadratic_cvar documents "the tensor is flattened";
    value_at_risk counts N = number of elements.  A sample of length N = n1*n2 is reshaped."""
    import pfhedge.nn.functional as F
    cols = S.columns(block)
    N, M = cols.shape
    x = S.realise(cols, block["scale"], block["dtype"])
    fn = {"qcvar": F.quadratic_cvar, "var": F.value_at_risk}[block["measure"]]
    for j in range(M):
        xs = x[:, j]
        for p in block["params"]:
            with torch.no_grad():
                got = fn(xs.reshape(2, N // 2), p, dim=None)
            lo, hi = _reference(block["measure"], p, xs.unsqueeze(-1))
            tol = float(S.tol_value(block["measure"], p, xs.unsqueeze(-1))[0])
            ctx.tick(1, nontrivial=int(len(set(xs.tolist())) > 1))
            if got.dim() != 0:
                ctx.violation(S.FSITE[block["measure"]], "shape:dimNone", f"shape {tuple(got.shape)}",
                              block=_mini(block, cols, j, p))
                continue
            g = float(got)
            ok = any(float(lo[k, 0]) - tol <= g <= float(hi[k, 0]) + tol for k in range(lo.size(0)))
            if not ok and block["measure"] == "qcvar":
                _qcvar_report(ctx, block, cols, torch.arange(M), x, p, torch.full((M,), g, dtype=torch.float64),
                              lo[0].expand(M), torch.full((M,), tol, dtype=torch.float64), [j],
                              "quadratic_cvar", "functional:dimNone")
            elif not ok:
                ctx.violation(S.FSITE[block["measure"]], "value:functional:dimNone",
                              f"{block['measure']}(x.reshape(2,{N // 2}), {p}, dim=None) != value of the flattened sample",
                              observed=g, expected=[float(lo[0, 0]), float(hi[0, 0])], block=_mini(block, cols, j, p))


def run(ctx):
    ctx.rule("values: every sample of length N over the alphabet (full product |A|^N, itertools order) x every "
             "parameter of the measure x scale/dtype x call variant (module|functional, shape (N,),(N,M),(N,M,K), "
             "dim, target none|scalar|tensor); one evaluation = one (sample, parameter, variant) compared with the "
             "exact/50-digit reference; non-trivial = non-constant samples.  pointwise: every alphabet value x a; "
             "topp: every sample x p x largest x dim; ambient_flag: every sample N<=3 x ES/VaR/topp/QCVaR/entropic call, default mode vs "
             "torch.use_deterministic_algorithms(True), bitwise")
    ctx.assume("float inputs are taken exactly by the reference (Fraction(float)/mpf(float)); target subtraction "
               "input - target is recomputed with the same IEEE operation")
    ctx.assume("tolerances are derived per measure in mc/models/risk_space.tol_value (rounding model of the "
               "documented algorithm; quadratic CVaR additionally lam*(1e-5*range)^2 for the documented bisection)")
    ctx.assume("borderline quantile levels (|pN - k| < 1e-9, pN != k) accept both adjacent tail counts, as the "
               "property states")
    A = S.alphabet(ctx)
    ctx.alphabet("pl numerators/8", A)
    ctx.alphabet("positive numerators/8 (isoelastic)", S.alphabet(ctx, positive=True))
    ctx.alphabet("scale,dtype", [[1e-6, "float64"], [1, "float64"], [1e6, "float64"], [1, "float32"], [1e3, "float32"]])
    ctx.alphabet("a", PARAMS["erm"])
    ctx.alphabet("lam", PARAMS["qcvar"])
    ctx.alphabet("p (N=4)", p_levels(4))
    ctx.alphabet("isoelastic a", PARAMS["iso"])
    ctx.alphabet("OCE w", PARAMS["oce"])
    bl = blocks(ctx)
    if ctx.quick:
        for b in bl:
            ctx.run("values", b)
    else:
        # group by (measure, N) so that the reference cache is shared inside a worker
        groups = {}
        for b in bl:
            groups.setdefault((b["measure"], b["N"], b["dtype"], b["scale"]), []).append(b)
        ctx.run_parallel("values_group", [{"blocks": g} for g in groups.values()])
    for dtype, scale in (("float64", 1.0), ("float32", 1.0), ("float64", 1e6)):
        ctx.run("pointwise", {"what": "exp_utility", "A": A + [-64, 64, 700 * 8], "params": PARAMS["eloss"],
                              "scale": scale, "dtype": dtype})
        ctx.run("pointwise", {"what": "isoelastic_utility", "A": S.alphabet(ctx, positive=True),
                              "params": PARAMS["iso"], "scale": scale, "dtype": dtype})
    for N in ([1, 2, 3, 4] if ctx.quick else [1, 2, 3, 4, 5]):
        ctx.run("pointwise", {"what": "topp", "N": N, "A": A, "params": p_levels(N), "scale": 1.0,
                              "dtype": "float64"})
    long_blocks = []
    for N, sym, via, dtype in ((9, 3, "functional", "float64"), (10, 3, "module", "float64"), (10, 2, "functional", "float32"),
                               (11, 3 if ctx.thorough else 2, "module", "float64")):
        long_blocks.append({"N": N, "A": A[:3] if sym == 3 else [A[0], A[2]], "params": [0.25, 0.3, 0.35, 0.5, 0.75],
                            "dtype": dtype, "via": via})
    for b in long_blocks:
        ctx.run("es_long", b)
    for N in (1, 2, 3):
        for dtype in ("float64", "float32"):
            ctx.run("ambient_flag", {"N": N, "A": A, "scale": 1.0, "dtype": dtype})
    for measure in ("qcvar", "var"):
        for dtype in ("float64", "float32"):
            ctx.run("flatten", {"measure": measure, "N": 4, "A": A, "scale": 1.0, "dtype": dtype,
                                "params": PARAMS["qcvar"] if measure == "qcvar" else p_levels(4)})


@family
def ambient_flag(ctx, block):
    """torch.use_deterministic_algorithms(True) is an ambient switch that must not change any
    value: every sample of the block through ES / VaR / topp / quadratic CVaR / entropic risk in the
    default mode and under the switch, outputs compared bitwise.  An operation that refuses to run
    under the switch on the tree under test (RuntimeError "does not have a deterministic
    implementation") is skipped and counted."""
    import pfhedge.nn.functional as F
    cols = S.columns(block)
    N, M = cols.shape
    x = S.realise(cols, block["scale"], block["dtype"])
    calls = []
    for p in p_levels(N):
        calls.append((f"expected_shortfall(p={p},dim=0)", "expected_shortfall", lambda p=p: F.expected_shortfall(x, p, dim=0)))
        calls.append((f"expected_shortfall(p={p},dim=1)", "expected_shortfall", lambda p=p: F.expected_shortfall(x.t(), p, dim=1)))
        calls.append((f"ExpectedShortfall({p})", "ExpectedShortfall", lambda p=p: S.evaluate("es", p, x)))
        calls.append((f"ExpectedShortfall({p}).cash", "ExpectedShortfall.cash", lambda p=p: S.module("es", p).cash(x)))
        calls.append((f"value_at_risk(p={p})", "value_at_risk", lambda p=p: F.value_at_risk(x, p, dim=0)))
        for largest in (True, False):
            calls.append((f"topp(p={p},largest={largest}).values", "topp",
                          lambda p=p, largest=largest: F.topp(x, p, dim=0, largest=largest).values))
            calls.append((f"topp(p={p},largest={largest}) gathered by indices", "topp",
                          lambda p=p, largest=largest: x.gather(0, F.topp(x, p, dim=0, largest=largest).indices)))
    for lam in PARAMS["qcvar"]:
        calls.append((f"quadratic_cvar(lam={lam})", "quadratic_cvar", lambda lam=lam: F.quadratic_cvar(x, lam, dim=0)))
    for a in PARAMS["erm"]:
        calls.append((f"entropic_risk_measure(a={a})", "entropic_risk_measure", lambda a=a: F.entropic_risk_measure(x, a)))
    prev = torch.are_deterministic_algorithms_enabled()
    warn = torch.is_deterministic_algorithms_warn_only_enabled()
    for name, site, fn in calls:
        with torch.no_grad():
            base = fn()
        torch.use_deterministic_algorithms(True)
        try:
            with torch.no_grad():
                got = fn()
        except RuntimeError as e:
            if "deterministic" in str(e):
                ctx.add("ops_refusing_deterministic_mode", 1)
                continue
            raise
        finally:
            torch.use_deterministic_algorithms(prev, warn_only=warn)
        ctx.tick(M, nontrivial=int((cols != cols[:1]).any(0).sum()))
        ctx.outcome(("flag", site, tuple(got.shape)))
        if got.shape != base.shape or not torch.equal(got, base):
            j = 0
            if got.shape == base.shape:
                d = (got != base)
                while d.dim() > 1:
                    d = d.any(0)
                j = int(d.nonzero()[0]) if d.numel() == M else 0
            mini = {k: block[k] for k in ("scale", "dtype") if k in block}
            mini["N"] = N
            mini["cols"] = [S.col_list(cols, j)]
            ctx.violation(site, "depends_on_deterministic_algorithms_flag",
                          f"{name} on {x[:, j].tolist()} differs under torch.use_deterministic_algorithms(True)",
                          observed=got.reshape(-1)[:8].tolist() if got.shape != base.shape else got[..., j].tolist(),
                          expected=base[..., j].tolist() if got.shape == base.shape else list(base.shape), block=mini)


@family
def es_long(ctx, block):
    """Expected shortfall of LONG samples (N = 9..11: p N a non-integer above 2): every sample over a
    2-3 symbol dyadic alphabet (up to 3^11 columns in one call).  Reference in exact integer arithmetic,
    vectorised over the columns only: sort the integer numerators, add the ceil(pN) smallest, divide once."""
    dtype, via = block["dtype"], block["via"]
    cols = S.columns(block)
    N, M = cols.shape
    x = S.realise(cols, 1.0, dtype)
    srt = cols.sort(0).values
    site = (S.SITE if via == "module" else S.FSITE)["es"]
    for p in block["params"]:
        ks, _ = R.tail_counts(p, N)
        if via == "module":
            got = S.evaluate("es", p, x, via="module")
        else:
            got = S.evaluate("es", p, x.t().contiguous(), via="functional", dim=-1)
        ctx.tick(M, nontrivial=int((cols != cols[:1]).any(0).sum()))
        if tuple(got.shape) != (M,) or got.dtype != x.dtype:
            ctx.violation(site, "shape_or_dtype:long", f"shape {tuple(got.shape)} dtype {got.dtype}", block=block)
            continue
        v = got.to(torch.float64)
        tol = S.tol_value("es", p, x)
        ok = torch.zeros(M, dtype=torch.bool)
        for k in ks:
            ref = -(srt[:k].sum(0).to(torch.float64) / (S.DEN * k))       # integers / (8k): one rounding
            ok |= (v - ref).abs() <= tol
        ctx.outcome(("es_long", N, p, round(float(v.sum()), 6)))
        bad = (~ok).nonzero().flatten()
        if len(bad):
            j = int(bad[0])
            mini = {"N": N, "cols": [S.col_list(cols, j)], "params": [p], "dtype": dtype, "via": via}
            k = ks[0]
            ctx.violation(site, "value:long", f"es(p={p}) on {x[:, j].tolist()} (N={N}, ceil(pN)={ks}) is not minus the mean "
                          f"of the {k} worst outcomes", observed=float(v[j]),
                          expected=-float(srt[:k, j].sum()) / (S.DEN * k), block=mini)
            ctx.viol_counts[(str(site), "value:long")] += len(bad) - 1


@family
def values_group(ctx, block):
    for b in block["blocks"]:
        ctx.run("values", b)

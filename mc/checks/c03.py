"""C03 - batched and stepwise hedge evaluation agree; prev_hedge is the last output.
Engine: bfs (the hedge loop as a state machine whose state is prev_output) + grid (features x steps).

Families
  feature_steps  every feature x every step index i in [-T, T) on the exhaustive path set:
                 ``get(i)`` == ``get(None)[:, [i]]`` (bitwise; <= 4 ulp of the maturity for
                 time_to_maturity with a non-dyadic dt), shape (N, 1, F); FeatureList columns are the
                 features in the order given, for one step and for all steps.
  feature_resim  re-simulation histories on ONE derivative object with features bound once: the underlier
                 is re-simulated (scripted simulate) >= 3 times with path sets of the same shape and
                 different content (rows reversed / rolled / interleaved, and back); after every round and
                 in both orders (get(i) first / get(None) first) get(i) == get(None)[:, [i]] and both equal
                 models/feature_ref on the CURRENT buffers.
                 Hedger.get_input(derivative, i) for every i in 0..T-1 and None == the feature list at step i
                 == column i of the all-steps input.
  hedge_loop     the stepwise loop against the reference automaton (models/hedge_loop.py): a recording
                 wrapper logs what the model sees; in_0 carries zeros of shape (N,1,H) in the prev_hedge
                 slot, in_i carries out_{i-1} bitwise, exactly T-1 model calls, last column repeated,
                 final prev_output == last output; hedge == the automaton run with the bare model.
                 H in {1,2,3}, n_paths in {1, all paths}.  States = distinct prev_output vectors reached.
  hedge_ops      explicit-state BFS (explore.bfs, to a fixpoint) over histories of public calls on ONE
                 hedger object (compute_hedge / compute_pl / compute_loss on worlds with different N, H, T,
                 a direct forward call that leaves junk in prev_output): from every abstract state
                 (shape/dtype of the stale prev_output) every call must restart from the zero state of
                 its own shape and give the result a fresh hedger gives.
  branches       the same strategy evaluated by the vectorised branch (state-independent inputs) and by
                 the stepwise branch (same inputs + an ignored prev_hedge): compute_hedge, compute_pl,
                 compute_portfolio, compute_loss (same scripted simulate) agree, and both equal the
                 reference loop - bitwise for exact (dyadic) models, 1e-12 relative for transcendental.
                 Includes models returning a VIEW of their input (Identity, a slicing module) on
                 single-feature input lists; the simulated buffers must be bitwise unchanged by every
                 call (own class mutates_market_data).
"""
from __future__ import annotations

import itertools
import os

import torch

from mc.core import market
from mc.core.explore import bfs
from mc.models import hedge_loop as HL
from mc.models import hedge_world as hw

FAMILIES = {}
family = hw.family_decorator(FAMILIES)
#: optional diagnostic outside the claim (default OFF): worlds on user subclasses of the primaries that override
#: library properties (volatility / variance); see hedge_world.USER_SUBCLASS_WORLDS
USER_SUBCLASS_WORLDS = os.environ.get("VERIF_USER_SUBCLASS") == "1"


# Exact (dyadic) features and models are compared bitwise; anything that goes through a logarithm,
# a Black-Scholes kernel or a matrix product over non-dyadic numbers within hw.tol(dtype)
# (atol = rtol; derivation there; 1e-12 in float64 as in DESIGN 4/C03): the (N,T) and the (N,1)
# evaluation may round the same element differently.


def _guard(ctx, site, cls, desc, block, fn):
    """Run a pfhedge call; an exception where the reference defines a value is a violation."""
    try:
        with torch.no_grad():
            return True, fn()
    except Exception as e:   # noqa: BLE001
        import traceback
        ctx.violation(site, f"{cls}:raises:{type(e).__name__}",
                      f"{type(e).__name__}: {str(e)[:200]} ({desc})",
                      observed=traceback.format_exc()[-1200:], expected="no exception", block=block)
        return False, None


def _eq(a, b):
    return (a == b) | (a.isnan() & b.isnan())


def _close(a, b, exact, scale=1.0):
    if exact:
        return _eq(a, b)
    tol = hw.tol(b.dtype)
    return ((a - b).abs() <= tol * scale + tol * b.abs()) | _eq(a, b)


# ----------------------------------------------------------------------------
# (i) features x steps
# ----------------------------------------------------------------------------

def _ttm_tol(spec, world):
    """get(None) computes (T-1)dt - i dt, get(i) computes (T-1-i) dt: each product is correctly rounded
    (<= 1/2 ulp of a number <= maturity), the subtraction adds <= 1/2 ulp: <= 2 ulp(maturity) apart;
    4 ulp is the bound of DESIGN 4/C03.  Exactly 0 for a dyadic dt."""
    if spec["f"] in ("time_to_maturity", "expiry_time") and world.env["dt"] != hw.DTS["dyadic"]:
        mat = (world.T - 1) * world.env["dt"]
        return 4 * torch.finfo(world.dtype).eps * mat
    return 0.0


def _contains_ttm(spec):
    if spec["f"] in ("time_to_maturity", "expiry_time"):
        return True
    if spec["f"] == "module_output":
        return spec["module"] == "bs" or any(_contains_ttm(s) for s in spec.get("inputs", []))
    return False


@family
def feature_steps(ctx, block):
    w = block["world"]
    T = w["T"]
    indices = block.get("indices") or list(range(T)) + list(range(-T, 0))
    usable = []
    for spec in block["features"]:
        if not hw.feature_supported(spec, w):
            continue
        world = hw.build_world(w)   # fresh objects per feature
        N = world.N
        site = hw.site_of(spec)
        lab = hw.label(spec)
        where = f"{w['ul']}/{w.get('kind')}/{w.get('dtype', 'float64')}/dt={w.get('dt', 'dyadic')}"
        mini = {"world": w, "features": [spec]}
        F = spec.get("out", 1)
        f = hw.bind(hw.make_feature(spec, world, ctx.seed), world)
        ok, full = _guard(ctx, site, "get(None)", f"{lab} {where}", mini, lambda: f.get(None).clone())
        if not ok:
            continue
        if tuple(full.shape) != (N, T, F):
            ctx.violation(site, "shape:get(None)", f"{lab}.get(None) has shape {tuple(full.shape)} ({where})",
                          observed=list(full.shape), expected=[N, T, F], block=mini)
            continue
        usable.append(spec)
        if spec["f"] == "empty":
            for i in indices:
                col = f.get(i)
                ctx.tick(N)
                if tuple(col.shape) != (N, 1, F) or col.dtype != full.dtype:
                    ctx.violation(site, "shape:get(i)", f"{lab}.get({i}) has shape {tuple(col.shape)} ({where})",
                                  observed=list(col.shape), expected=[N, 1, F], block=dict(mini, indices=[i]))
            continue
        tol = _ttm_tol(spec, world)
        if tol == 0.0 and _contains_ttm(spec) and world.env["dt"] != hw.DTS["dyadic"]:
            tol = None   # module over a non-dyadic time: relative tolerance below
        # a ModuleOutput hands the index to its input features, which are enumerated themselves
        # with negative indices: only the steps 0..T-1 of the property's quantifier here
        for i in ([i for i in indices if i >= 0] if spec["f"] == "module_output" else indices):
            try:
                with torch.no_grad():
                    col = f.get(i)
            except Exception as e:   # noqa: BLE001
                if i < 0 and isinstance(e, (IndexError, RuntimeError)):
                    ctx.outcome((lab, "negative index rejected", i, type(e).__name__))
                    ctx.add("negative_index_rejected")
                    continue
                ctx.violation(site, f"get(i):raises:{type(e).__name__}",
                              f"{lab}.get({i}) raises {type(e).__name__}: {str(e)[:200]} ({where})",
                              observed=repr(e)[:300], expected="a tensor of shape (N, 1, F)",
                              block=dict(mini, indices=[i]))
                continue
            exp = full[:, [i]]
            j = i % T
            ctx.tick(N, nontrivial=int((~_eq(full[:, j], full[:, (j + 1) % T]) | ~_eq(full[:, j], full[:, j - 1]))
                                       .flatten(1).any(1).sum()))
            if tuple(col.shape) != (N, 1, F) or col.dtype != full.dtype:
                ctx.violation(site, "shape:get(i)", f"{lab}.get({i}) has shape {tuple(col.shape)} {col.dtype} ({where})",
                              observed=[list(col.shape), str(col.dtype)], expected=[[N, 1, F], str(full.dtype)],
                              block=dict(mini, indices=[i]))
                continue
            if tol is None or not hw.is_exact(spec):
                ok = _close(col, exp, False)
            elif tol:
                ok = ((col - exp).abs() <= tol) | _eq(col, exp)
            else:
                ok = _eq(col, exp)
            if not ok.all():
                r = int((~ok).flatten(1).any(1).nonzero()[0])
                neg = "negative_index" if i < 0 else "step"
                ctx.violation(site, f"{neg}:get(i)!=get(None)[:,[i]]",
                              f"{lab}.get({i}) != get(None)[:, [{i}]] on {int((~ok).flatten(1).any(1).sum())}/{N} "
                              f"paths ({where})",
                              observed={"path": world.spot[r].tolist(),
                                        "second": None if world.second is None else world.second[r].tolist(),
                                        "get(i)": col[r].flatten().tolist()},
                              expected={"get(None)[:, [i]]": exp[r].flatten().tolist()},
                              block={"world": dict(w, rows=[int(world.orig[r])]), "features": [spec], "indices": [i]})
        # evaluating single steps must not change what the all-steps evaluation returns
        with torch.no_grad():
            again = f.get(None)
        if not _eq(again, full).all():
            ctx.violation(site, "get(None)_changes_after_get(i)",
                          f"{lab}.get(None) returns different values after single-step evaluations ({where})",
                          block=mini)
        ctx.outcome((lab, where, round(float(full.nan_to_num(nan=7.0).sum()), 9)))
    # FeatureList: columns are the features in the order given
    if block.get("feature_list", True) and len(usable) >= 2:
        from pfhedge.features import FeatureList
        world = hw.build_world(w)
        N = world.N
        specs = [s for s in usable if s["f"] != "empty" and not (s["f"] == "module_output" and s["module"] != "mlp")]
        objs = [hw.make_feature(s, world, ctx.seed) for s in specs]
        widths = [s.get("out", 1) for s in specs]
        with torch.no_grad():
            fl = FeatureList(objs).of(world.d)
            bound = [hw.bind(o, world) for o in objs]
            full = fl.get(None)
            parts = [b.get(None) for b in bound]
        site = "FeatureList.get"
        mini = {"world": w, "features": usable, "indices": block.get("indices")}
        exp_full = torch.cat(parts, dim=-1)
        exact_col = torch.tensor([hw.is_exact(s_) for s_, k in zip(specs, widths) for _ in range(k)])

        def _eqc(a, b):   # bitwise on exact columns, within tolerance on the others
            if tuple(a.shape) != tuple(b.shape) or a.shape[-1] != exact_col.numel():
                return torch.zeros(1, dtype=torch.bool)   # misshaped (reported by the shape classes): never "equal"
            return torch.where(exact_col, _eq(a, b), _close(a, b, False))
        ctx.tick(N * T, nontrivial=N * T)
        if tuple(full.shape) != tuple(exp_full.shape):
            ctx.violation(site, "shape:get(None)", f"FeatureList.get(None) shape {tuple(full.shape)}",
                          observed=list(full.shape), expected=list(exp_full.shape), block=mini)
        elif not _eqc(full, exp_full).all():
            c = int((~_eqc(full, exp_full)).flatten(0, 1).any(0).nonzero()[0])
            ctx.violation(site, "column_order:get(None)",
                          f"FeatureList.get(None) column {c} is not feature #{c} of the list "
                          f"({[hw.label(s) for s in specs]})", observed=full[0, :, c].tolist(),
                          expected=exp_full[0, :, c].tolist(), block=mini)
        for i in range(T):
            with torch.no_grad():
                col = fl.get(i)
                exp = torch.cat([b.get(i) for b in bound], dim=-1)
            ctx.tick(N, nontrivial=N)
            if tuple(col.shape) != (N, 1, sum(widths)):
                ctx.violation(site, "shape:get(i)", f"FeatureList.get({i}) shape {tuple(col.shape)}",
                              observed=list(col.shape), expected=[N, 1, sum(widths)], block=mini)
            elif not _eqc(col, exp).all():
                c = int((~_eqc(col, exp)).flatten(0, 1).any(0).nonzero()[0])
                ctx.violation(site, "column_order:get(i)",
                              f"FeatureList.get({i}) column {c} is not feature #{c} of the list",
                              observed=col[0, 0].tolist(), expected=exp[0, 0].tolist(), block=mini)
        # Hedger.get_input(derivative, i): the documented way to step a hedger by hand.  For every i in 0..T-1
        # (and None) it is the FeatureList of the inputs at step i == column i of the all-steps input
        from pfhedge.nn import Hedger, Naked
        hedger = Hedger(Naked(), list(objs))
        site = "Hedger.get_input"
        do_input = (ctx.thorough and w.get("dtype", "float64") == "float64" and w.get("dt", "dyadic") == "dyadic"
                    and w.get("call", True)) or (
                        w.get("dtype", "float64") == "float64" and w.get("dt", "dyadic") == "dyadic"
                                    and not w.get("listed") and w["ul"] in ("brownian", "heston", "cir")
                                    and w.get("kind") in ("european", "lookback", "variance_swap") and w.get("call", True))
        okg, allsteps = _guard(ctx, site, "get_input(None)", f"{w['ul']}/{w.get('kind')}", mini,
                               lambda: hedger.get_input(world.d, None)) if do_input else (False, None)
        if okg:
            if tuple(allsteps.shape) != tuple(full.shape) or not _eqc(allsteps, full).all():
                ctx.violation(site, "get_input(None)!=FeatureList.get(None)",
                              f"Hedger.get_input(derivative, None) is not the feature list evaluated for all steps "
                              f"({w['ul']}/{w.get('kind')})", observed=list(allsteps.shape), expected=list(full.shape),
                              block=mini)
            for i in range(T):
                okg, got = _guard(ctx, site, "get_input(i)", f"step {i} {w['ul']}/{w.get('kind')}", mini,
                                  lambda: hedger.get_input(world.d, i))
                if not okg:
                    continue
                with torch.no_grad():
                    exp = fl.get(i)
                ctx.tick(N, nontrivial=N)
                # (a non-dyadic dt makes time_to_maturity(i) and column i of time_to_maturity(None) differ by an ulp:
                #  that pair is compared per feature above with its derived bound; here within hw.tol)
                col_ok = _eqc(got, full[:, [i]]) if w.get("dt", "dyadic") == "dyadic" else _close(got, full[:, [i]], False)
                if tuple(got.shape) != tuple(exp.shape) or not _eqc(got, exp).all() or not col_ok.all():
                    bad_ = tuple(got.shape) != tuple(exp.shape) or not _eqc(got, exp).all()
                    ctx.violation(site, "get_input(i)!=features_at_step_i" + (":last_step" if i == T - 1 else ""),
                                  f"Hedger.get_input(derivative, {i}) is not "
                                  f"{'FeatureList.get(i)' if bad_ else 'column i of the all-steps input'} "
                                  f"({[hw.label(s_) for s_ in specs]}, {w['ul']}/{w.get('kind')})",
                                  observed=got[0, 0].tolist() if got.dim() == 3 else list(got.shape),
                                  expected=exp[0, 0].tolist(), block=mini)



# ----------------------------------------------------------------------------
# (i') features x steps over re-simulation histories of ONE derivative object
# ----------------------------------------------------------------------------

def ref_table(spec, world):
    """(N, T) tensor of models/feature_ref values on the world's CURRENT script (python loop over the
    prefix of every path; one evaluation per tree node when the full path set is present), or None
    where the reference does not model the feature."""
    from mc.models import feature_ref
    env, T, N = world.env, world.T, world.N
    sp = world.spot.tolist()
    se = None if world.second is None else world.second.tolist()
    out = [[0.0] * T for _ in range(N)]
    cache = {}
    for r in range(N):
        for t in range(T):
            key = (tuple(sp[r][: t + 1]), None if se is None else tuple(se[r][: t + 1]))
            v = cache.get((t, key))
            if v is None:
                v = feature_ref.value(spec, t, sp[r][: t + 1], None if se is None else se[r][: t + 1], env)
                if v is None:
                    return None
                cache[(t, key)] = v
            out[r][t] = v
    return torch.tensor(out, dtype=torch.float64).to(world.dtype)


def _perm(name, N):
    ar = torch.arange(N)
    if name == "A":
        return ar
    if name == "reversed":
        return ar.flip(0)
    if name == "rolled":
        return ar.roll(N // 3 + 1)
    if name == "interleaved":
        return torch.cat([ar[1::2], ar[0::2]])
    raise KeyError(name)


@family
def feature_resim(ctx, block):
    """One derivative object, features bound once; the underlier is re-simulated (scripted simulate,
    as fit / compute_loss / price do every epoch) with path sets of the SAME shape but different
    content; after every round, every feature at every step: get(i) == get(None)[:, [i]] and both
    equal the reference on the CURRENT buffers.  Both evaluation orders."""
    w = block["world"]
    T = w["T"]
    world = hw.build_world(w)
    N = world.N
    base_spot = world.spot.clone()
    base_second = None if world.second is None else world.second.clone()
    second_name = hw.TWO_FACTOR.get(w["ul"])
    rounds = block["rounds"]
    scripts = []
    for name in rounds:
        pm = _perm(name, N)
        bufs = {"spot": base_spot[pm]}
        if base_second is not None:
            bufs[second_name] = base_second[pm]
        scripts.append(bufs)
    feats = []
    for spec in block["features"]:
        if spec["f"] == "empty" or not hw.feature_supported(spec, w):
            continue
        feats.append((spec, hw.bind(hw.make_feature(spec, world, ctx.seed), world),
                      ref_table(spec, world) if block.get("reference", True) and spec.get("out", 1) == 1 else None))
    sim = market.ScriptedSimulate(world.p, scripts, cycle=False)
    where = f"{w['ul']}/{w.get('kind')}/{w.get('dtype', 'float64')}"
    eps = torch.finfo(world.dtype).eps
    ctx.add("states", len(rounds))
    try:
        for r, name in enumerate(rounds):
            world.d.simulate(n_paths=N)
            ctx.add("transitions", 1)
            pm = _perm(name, N)
            if not torch.equal(world.p.spot, base_spot[pm]):
                raise AssertionError("scripted simulate did not register the round's script")
            step_first = (r % 2 == 0) == (block["order"] == "step_first")
            for spec, f, table in feats:
                site = hw.site_of(spec)
                lab = hw.label(spec)
                mini = dict(block, features=[spec])
                hist = f"round {r} ({'->'.join(rounds[: r + 1])}), {'get(i) first' if step_first else 'get(None) first'}"
                with torch.no_grad():
                    if step_first:
                        steps = [f.get(i) for i in range(T)]
                        full = f.get(None).clone()
                    else:
                        full = f.get(None).clone()
                        steps = [f.get(i) for i in range(T)]
                stacked = torch.cat(steps, dim=1)
                exact = hw.is_exact(spec) and not (_contains_ttm(spec) and w.get("dt", "dyadic") != "dyadic")
                fresh = r > 0 and not torch.equal(base_spot[pm], base_spot[_perm(rounds[r - 1], N)])
                ctx.tick(N * T, nontrivial=N * T if fresh else 0)
                if tuple(stacked.shape) != tuple(full.shape):
                    ctx.violation(site, "resimulated:shape", f"{lab}: shapes {tuple(stacked.shape)} vs "
                                  f"{tuple(full.shape)} after {hist} ({where})", block=mini)
                    continue
                ok = _close(stacked, full, exact)
                if not ok.all():
                    row = int((~ok).flatten(1).any(1).nonzero()[0])
                    i = int((~ok)[row].flatten(1).any(1).nonzero()[0]) if ok.dim() == 3 else 0
                    ctx.violation(site, "resimulated:get(i)!=get(None)[:,[i]]",
                                  f"{lab}.get({i}) != get(None)[:, [{i}]] on {int((~ok).flatten(1).any(1).sum())}/{N} "
                                  f"paths after re-simulating the same derivative object: {hist} ({where})",
                                  observed={"current_path": world.p.spot[row].tolist(),
                                            "get(i) for i=0..T-1": stacked[row].flatten().tolist()},
                                  expected={"get(None)": full[row].flatten().tolist()}, block=mini)
                if table is not None:
                    ref = table[pm].unsqueeze(-1)
                    for mode, got in (("get(i)", stacked), ("get(None)", full)):
                        # tolerance as in C02: 0 where exact, else 8 eps (1+|ref|) (two correctly rounded logs
                        # of a correctly rounded quotient)
                        good = _eq(got, ref) if exact else (((got - ref).abs() <= 8 * eps * (1 + ref.abs())) | _eq(got, ref))
                        if not good.all():
                            row = int((~good).flatten(1).any(1).nonzero()[0])
                            ctx.violation(site, f"resimulated:value:{mode}",
                                          f"{lab} {mode} is not the documented function of the CURRENT paths after "
                                          f"{hist} ({where})",
                                          observed={"current_path": world.p.spot[row].tolist(),
                                                    "value": got[row].flatten().tolist()},
                                          expected=ref[row].flatten().tolist(), block=mini)
                ctx.outcome((lab, where, r, round(float(full.nan_to_num(nan=7.0).sum()), 9)))
    finally:
        sim.remove()
    ctx.add("traces_validated_against_impl", N * len(rounds))

# ----------------------------------------------------------------------------
# (ii) the hedge loop as a state machine
# ----------------------------------------------------------------------------

def _parts_fn(kit, world, seed):
    """features_at(i) for the automaton: list of parts in model-input order.  State-independent
    features come from the ALL-STEPS evaluation on fresh objects (a different code path from the
    one the loop uses); None marks the prev_hedge slot; a module_output over prev_hedge becomes a
    callable of the state."""
    fresh = hw.build_world(world.w)
    cols = []
    for spec in kit.specs:
        if spec["f"] == "prev_hedge":
            cols.append(None)
        elif hw.depends_on_state(spec):
            inner_specs = spec["inputs"]
            inner_cols = []
            for s in inner_specs:
                if s["f"] == "prev_hedge":
                    inner_cols.append(None)
                else:
                    with torch.no_grad():
                        inner_cols.append(hw.bind(hw.make_feature(s, fresh, seed), fresh).get(None))
            module = hw.make_module(spec["module"], sum(hw.n_columns(s, world.H) for s in inner_specs),
                                    spec.get("out", 1), world.dtype, seed + 17)
            cols.append(("module", module, inner_cols))
        else:
            with torch.no_grad():
                cols.append(hw.bind(hw.make_feature(spec, fresh, seed), fresh).get(None))

    def features_at(i):
        parts = []
        for c in cols:
            if c is None:
                parts.append(None)
            elif isinstance(c, tuple):
                _, module, inner = c

                def fn(state, module=module, inner=inner, i=i):
                    with torch.no_grad():
                        return module(torch.cat([state if x is None else x[:, [i]] for x in inner], dim=-1))
                parts.append(fn)
            else:
                parts.append(c[:, [i]])
        return parts
    features_at.exact = [None if s["f"] == "empty" else hw.is_exact(s) for s in kit.specs]
    return features_at


def _run_world(w):
    world = hw.build_world(w)
    world.w = w
    return world


@family
def hedge_loop(ctx, block):
    w, m = block["world"], block["model"]
    T = w["T"]
    world = _run_world(w)
    N, H = world.N, world.H
    kit = hw.make_hedger(m, world, ctx.seed, record=True)
    site = "Hedger.compute_hedge"
    desc = (f"model={m['model']} inputs={[hw.label(s) for s in kit.specs]} {w['ul']}/{w.get('kind')} "
            f"H={H} N={N} T={T} {w.get('dtype', 'float64')}")
    if not kit.state_dependent:
        raise AssertionError("hedge_loop family needs a state-dependent hedger")
    cls_tag = f"H{'1' if H == 1 else '>1'}"
    hedger, recorder, original = kit.hedger, kit.recorder, None
    if block.get("copy"):
        # the loop runs on copy.deepcopy(hedger), taken before the original was ever used ('before') or
        # after it hedged once ('after'): the copy is a hedger of its own - its prev_hedge is ITS last
        # output, and the original's state is not touched by it
        import copy
        original = kit.hedger
        if block["copy"] == "after":
            first = _run_world(w)
            ok, _ = _guard(ctx, site, f"loop:{cls_tag}", desc, block,
                           lambda: original.compute_hedge(first.d, hedge=first.hedge))
            if not ok:
                return
        hedger = copy.deepcopy(original)
        recorder = hedger.model
        recorder.log = []
        orig_state = original._buffers.get("prev_output")
        orig_snapshot = None if orig_state is None else orig_state.clone()
        cls_tag += f":deepcopy_{block['copy']}"
        desc += f" on copy.deepcopy(hedger) taken {block['copy']} the original's first use"
    ok, hedge = _guard(ctx, site, f"loop:{cls_tag}", desc, block,
                       lambda: hedger.compute_hedge(world.d, hedge=world.hedge))
    if not ok:
        return
    final_state = hedger.get_buffer("prev_output")
    trace = recorder.log
    if original is not None:
        now = original._buffers.get("prev_output")
        if (now is None) != (orig_state is None) or (now is not None and (
                now is not orig_state or not HL.same(now, orig_snapshot))):
            ctx.violation(site, f"loop:copy_writes_state_of_original:{cls_tag}",
                          f"evaluating the copy changed prev_output of the ORIGINAL hedger ({desc})",
                          observed=None if now is None else list(now.shape),
                          expected=None if orig_state is None else "unchanged " + str(list(orig_state.shape)),
                          block=block)
    features_at = _parts_fn(kit, world, ctx.seed)
    bad = HL.conform(trace, features_at, N, H, T, world.dtype, final_state=final_state,
                     exact_part=features_at.exact, rtol=hw.tol(world.dtype), atol=hw.tol(world.dtype))
    for (i, what, obs, exp) in bad:
        ctx.violation(site, f"loop:{what}:{cls_tag}",
                      f"hedge loop deviates from the reference automaton at step {i}: {what} ({desc})",
                      observed=obs, expected=exp, block=block)
    # the automaton run with the bare model (fresh objects, same weights)
    fresh = _run_world(w)
    kit2 = hw.make_hedger(m, fresh, ctx.seed)
    with torch.no_grad():
        ref, auto = HL.run(kit2.raw, features_at, N, H, T, world.dtype)
    ctx.add("transitions", N * (T - 1))
    ctx.add("model_calls", len(trace))
    ctx.add("traces_validated_against_impl", N)
    reached = torch.cat([s.reshape(N, H) for s in auto.states], dim=0)
    n_states = int(torch.unique(reached.nan_to_num(nan=12345.0), dim=0).size(0))
    ctx.add("states", n_states)
    fed_back = sum(int((s != 0).any(-1).sum()) for s in auto.states[1:-1]) if T > 2 else 0
    ctx.tick(N * (T - 1), nontrivial=fed_back)
    if tuple(hedge.shape) != (N, H, T):
        ctx.violation(site, f"shape:{cls_tag}", f"hedge shape {tuple(hedge.shape)} != {(N, H, T)} ({desc})",
                      observed=list(hedge.shape), expected=[N, H, T], block=block)
        return
    ok = _close(hedge, ref, kit.exact)
    if not ok.all():
        r = int((~ok).flatten(1).any(1).nonzero()[0])
        t = int((~ok)[r].any(0).nonzero()[0])
        what = "last_column" if t == T - 1 else "value"
        ctx.violation(site, f"loop:hedge_{what}!=automaton:{cls_tag}",
                      f"compute_hedge differs from the reference loop first at step {t} on "
                      f"{int((~ok).flatten(1).any(1).sum())}/{N} paths ({desc})",
                      observed={"path": world.spot[r].tolist(), "hedge": hedge[r].tolist()},
                      expected={"hedge": ref[r].tolist()},
                      block={"world": dict(w, rows=[int(world.orig[r])]), "model": m})
    ctx.outcome((m["model"], w["ul"], w.get("kind"), H, N, round(float(hedge.nan_to_num(nan=7.0).sum()), 9)))
    if len(ctx.samples) < 3 and H == 2 and N > 1 and m["model"] == "linear":
        r = (N * 5) // 13
        ctx.sample({"family": "hedge_loop", "config": desc, "path": world.spot[r].tolist(),
                    "model_inputs_by_step": [x[r, 0].tolist() for x, _ in trace],
                    "model_outputs_by_step": [o[r, 0].tolist() for _, o in trace],
                    "hedge": hedge[r].tolist(), "distinct_states": n_states})


# ----------------------------------------------------------------------------
# (ii') histories of calls on one hedger object (explicit-state BFS)
# ----------------------------------------------------------------------------

class AdaptiveModel(torch.nn.Module):
    """A user model that works for any number of hedging instruments: F state-independent
    columns first, the prev_hedge columns last; H = number of remaining columns.  Dyadic:
    out_h = (h+1)/2 * sum_k a_k x_k + prev_h/2 + prev_{h+1 mod H}/4 - 1/8."""

    def __init__(self, F, dtype):
        super().__init__()
        self.F = F
        self.a = torch.tensor([0.5, -0.25, 1.0, 0.75][:F], dtype=dtype)

    def forward(self, x):
        F = self.F
        base = (x[..., :F] * self.a.to(x.dtype)).sum(-1, keepdim=True)
        prev = x[..., F:]
        H = prev.size(-1)
        scale = torch.arange(1, H + 1, dtype=x.dtype) / 2
        return base * scale + prev / 2 + prev.roll(-1, dims=-1) / 4 - 0.125


OPS = ["hedge_A", "hedge_B", "pl_C", "loss_A", "junk_forward", "hedge_C"]


def _ops_worlds(block):
    A = block["A"]
    base = {"ul": "brownian", "kind": "european", "As": A, "dtype": block.get("dtype", "float64"), "cost": 1 / 128}
    return {
        "A": dict(base, T=block["T"], hedge="default"),
        "B": dict(base, T=block["T"], hedge="ul+listed", rows=[block.get("row", 5)], kind="lookback"),
        "C": dict(base, T=block["T"] - 1, hedge="ul+listed+listed3", ul="heston", Av=[1 / 64, 1 / 16]),
    }


def _apply(sysm, op):
    """Run one public call on the shared hedger; returns (result tensor, trace, world)."""
    from pfhedge.nn import Hedger  # noqa: F401
    try:
        return _apply_unguarded(sysm, op) + (None,)
    except Exception as e:   # noqa: BLE001
        import traceback
        name = op.split("_")[1]
        world = None if op == "junk_forward" else _run_world(sysm["worlds"][name])
        return None, list(sysm["rec"].log), world, (type(e).__name__, traceback.format_exc()[-1200:])


def _apply_unguarded(sysm, op):
    hedger, rec = sysm["hedger"], sysm["rec"]
    rec.log = []
    if op == "junk_forward":
        x = torch.full((2, 1, 5), 0.375, dtype=sysm["dtype"])
        with torch.no_grad():
            out = hedger(x)
        return out, list(rec.log), None
    name = op.split("_")[1]
    world = _run_world(sysm["worlds"][name])
    with torch.no_grad():
        if op.startswith("hedge"):
            out = hedger.compute_hedge(world.d, hedge=world.hedge)
        elif op.startswith("pl"):
            out = hedger.compute_pl(world.d, hedge=world.hedge)
        else:
            bufs = {"spot": world.spot.clone()}
            if world.second is not None:
                bufs[hw.TWO_FACTOR[world.w["ul"]]] = world.second.clone()
            sim = market.ScriptedSimulate(world.p, [bufs])
            out = hedger.compute_loss(world.d, hedge=world.hedge, n_paths=world.N)
            sim.remove()
    return out, list(rec.log), world


def _build_system(block, history):
    from pfhedge.nn import Hedger
    dtype = hw.DTYPES[block.get("dtype", "float64")]
    F = 2
    rec = hw.Recorder(AdaptiveModel(F, dtype))
    hedger = Hedger(rec, ["moneyness", "time_to_maturity", "prev_hedge"])
    sysm = {"hedger": hedger, "rec": rec, "worlds": _ops_worlds(block), "dtype": dtype, "F": F,
            "last": None}
    for op in history:
        sysm["last"] = (op,) + _apply(sysm, op)
    return sysm


def _canon(sysm):
    h = sysm["hedger"]
    po = h._buffers.get("prev_output") if "prev_output" in h._buffers else None
    return ("none",) if po is None else (tuple(po.shape), str(po.dtype))


@family
def hedge_ops(ctx, block):
    """BFS over call histories on one hedger.  Abstract state = shape/dtype of the (stale)
    prev_output buffer: compute_hedge overwrites the buffer before the first read, so nothing else of
    the past can reach the future - which is exactly what every transition verifies."""
    site = "Hedger.compute_hedge"
    dtype = hw.DTYPES[block.get("dtype", "float64")]
    ops = block.get("ops", OPS)
    fresh_results = {}

    def fresh(op):
        if op not in fresh_results:
            s = _build_system(block, [])
            fresh_results[op] = _apply(s, op)
        return fresh_results[op]

    def on_transition(hist, op, before, after):
        _, out, trace, world, err = after["last"]
        ctx.tick(1, nontrivial=1 if hist else 0)
        ctx.add("model_calls", len(trace))
        mini = dict(block, histories=[hist + [op]])
        if err is not None:
            ctx.violation(site, f"history:raises:{err[0]}", f"{op} after history {hist} raises {err[0]} "
                          f"(stale prev_output {_canon(before)})", observed=err[1], expected="no exception",
                          block=mini)
            return
        if world is None:
            return
        N, H, T = world.N, world.H, world.T
        kit_specs = [{"f": "moneyness"}, {"f": "time_to_maturity"}, {"f": "prev_hedge"}]

        class K:
            specs = kit_specs
        features_at = _parts_fn(K, world, ctx.seed)
        final_state = after["hedger"].get_buffer("prev_output")
        bad = HL.conform(trace, features_at, N, H, T, dtype, final_state=final_state)
        prev = _canon(before)
        for (i, what, obs, exp) in bad:
            ctx.violation(site, f"history:{what}",
                          f"after history {hist}, {op}: step {i} {what} (stale prev_output {prev}, N={N}, H={H})",
                          observed=obs, expected=exp, block=mini)
        out0 = fresh(op)[0]
        if out0 is not None and not HL.same(out, out0):
            ctx.violation(site, f"history:result_depends_on_history:{op.split('_')[0]}",
                          f"{op} after history {hist} differs from {op} on a fresh hedger", block=mini,
                          observed=out.flatten()[:8].tolist(), expected=out0.flatten()[:8].tolist())
        ctx.add("traces_validated_against_impl", N)

    if block.get("histories"):
        # replay mode: explicit histories
        for h in block["histories"]:
            before = _build_system(block, h[:-1])
            after = _build_system(block, h)
            on_transition(h[:-1], h[-1], before, after)
            ctx.add("transitions", 1)
        return
    res = bfs([[]], ops, lambda h: _build_system(block, h), _canon, on_transition=on_transition)
    if not res.fixpoint:
        ctx.cap("hedge_ops BFS did not reach a fixpoint")
    ctx.add("states", res.states)
    ctx.add("transitions", res.transitions)
    ctx.info["hedge_ops_states"] = sorted(str(k) for k in res.seen)
    ctx.info["hedge_ops_max_depth"] = res.max_depth
    for k in res.seen:
        ctx.outcome(("abstract state", str(k)))


# ----------------------------------------------------------------------------
# (iii) vectorised branch == stepwise branch == reference loop
# ----------------------------------------------------------------------------

def _loss_via_scripted_simulate(kit, world):
    bufs = {"spot": world.spot.clone()}
    if world.second is not None:
        bufs[hw.TWO_FACTOR[world.w["ul"]]] = world.second.clone()
    sim = market.ScriptedSimulate(world.p, [bufs])
    try:
        loss = kit.hedger.compute_loss(world.d, hedge=world.hedge, n_paths=world.N, enable_grad=False)
    finally:
        sim.remove()
    return loss, sim.log


@family
def branches(ctx, block):
    w, m = block["world"], block["model"]
    T = w["T"]
    res = {}
    for mode in ("vectorised", "stepwise"):
        out = {}
        for what in ("hedge", "pl", "portfolio", "loss"):
            world = _run_world(w)   # fresh objects for every call
            kit = hw.make_hedger(dict(m, mode=mode), world, ctx.seed)
            call = {"hedge": lambda: kit.hedger.compute_hedge(world.d, hedge=world.hedge),
                    "pl": lambda: kit.hedger.compute_pl(world.d, hedge=world.hedge),
                    "portfolio": lambda: kit.hedger.compute_portfolio(world.d, hedge=world.hedge),
                    "loss": lambda: _loss_via_scripted_simulate(kit, world)}[what]
            before = market.snapshot(world.d)
            ok, val = _guard(ctx, "Hedger.compute_" + what, f"branches:{mode}",
                             f"model={m['model']} {w['ul']}/{w.get('kind')} H={world.H}", block, call)
            if not ok:
                return
            # the simulated market must be bitwise what it was (compute_loss re-registers the same
            # scripted buffers: only values / dtype / shape count there, not the storage)
            changed = [(k, why) for k, why in market.snapshot_diff(before, market.snapshot(world.d))
                       if why != "storage" or what != "loss"]
            if changed:
                (_, name), why = changed[0]
                buf = dict(world.p.named_buffers())[name]
                orig_buf = before[(0, name)][0]
                r = int(((buf != orig_buf).any(-1)).nonzero()[0]) if why == "values" else 0
                ctx.violation("Hedger.compute_" + what, f"mutates_market_data:{mode}",
                              f"compute_{what} ({mode}) changed the simulated buffer '{name}' ({why}) "
                              f"(model={m['model']} inputs={[hw.label(s_) for s_ in m.get('inputs', [])]} "
                              f"{w['ul']}/{w.get('kind')})",
                              observed={name: buf[r].tolist()}, expected={name: orig_buf[r].tolist()}, block=block)
            if what == "loss":
                val, log = val
                if len(log) != 1 or log[0]["n_paths"] != world.N:
                    raise AssertionError("scripted simulate: unexpected requests %r" % (log,))
            out[what] = val
        res[mode] = out
        exact, N, H = kit.exact, world.N, world.H
        assert kit.state_dependent == (mode == "stepwise")
    desc = (f"model={m['model']} module_mode={m.get('module_mode', 'train')} "
            f"inputs={[hw.label(s) for s in kit.specs[:-1]]} {w['ul']}/{w.get('kind')}"
            f"{'' if w.get('call', True) else '/put'} H={H} N={N} {w.get('dtype', 'float64')}")
    site_of = {"hedge": "Hedger.compute_hedge", "pl": "Hedger.compute_pl",
               "portfolio": "Hedger.compute_portfolio", "loss": "Hedger.compute_loss"}
    hv, hs = res["vectorised"]["hedge"], res["stepwise"]["hedge"]
    moving = int((hv[..., 1:] != hv[..., :-1]).flatten(1).any(1).sum()) if tuple(hv.shape) == (N, H, T) else 0
    ctx.tick(4 * N, nontrivial=4 * moving)
    ctx.add("traces_validated_against_impl", 2 * N)
    # reference loop with the bare model on all-steps features (fresh objects)
    world = _run_world(w)
    kit = hw.make_hedger(dict(m, mode="vectorised"), world, ctx.seed)
    features_at = _parts_fn(kit, world, ctx.seed)
    with torch.no_grad():
        ref, auto = HL.run(kit.raw, features_at, N, H, T, world.dtype, with_state=False)
    ctx.add("transitions", N * (T - 1))
    ctx.add("states", int(torch.unique(torch.cat([s.reshape(N, H) for s in auto.states], 0)
                                       .nan_to_num(nan=12345.0), dim=0).size(0)))
    pl_scale = float(world.spot.abs().max()) * T * max(1.0, float(ref.nan_to_num().abs().max())) + 1.0
    hl = world.hedge if world.hedge is not None else list(world.d.underliers())
    with torch.no_grad():
        spot_h = torch.stack([h.spot for h in hl], dim=1)
        cost_h = [h.cost for h in hl]
        payoff_h = world.d.payoff()
    for what in ("hedge", "pl", "portfolio", "loss"):
        a, b = res["vectorised"][what], res["stepwise"][what]
        if tuple(a.shape) != tuple(b.shape) or a.dtype != b.dtype:
            ctx.violation(site_of[what], f"branches:shape:{what}",
                          f"{what}: vectorised {tuple(a.shape)} {a.dtype} vs stepwise {tuple(b.shape)} {b.dtype} ({desc})",
                          observed=[list(a.shape), str(a.dtype)], expected=[list(b.shape), str(b.dtype)], block=block)
            continue
        if what == "hedge":
            # element-wise, independent of memory layout: bitwise for exact models
            ok = _close(a, b, exact, 1.0)
        else:
            # sums: equal up to the rounding of the sums involved (the reduction order legitimately depends
            # on the memory layout of the hedge tensor); for inexact models add the hedge tolerance
            # propagated through the cash flows
            slack = hw.pl_rounding_bound(spot_h, ref, cost_h, None if what == "portfolio" else payoff_h)
            if not exact:
                slack = slack + hw.tol(world.dtype) * pl_scale
            if what == "loss":
                slack = hw.loss_rounding_bound(slack, N, world.dtype, b)
            ok = ((a - b).abs() <= slack) | _eq(a, b)
        if not ok.all():
            if what == "loss":
                obs, exp, mini = float(a), float(b), block
            else:
                r = int((~ok).reshape(N, -1).any(1).nonzero()[0])
                obs = {"path": world.spot[r].tolist(), "vectorised": a[r].tolist()}
                exp = {"stepwise": b[r].tolist()}
                mini = {"world": dict(w, rows=[int(world.orig[r])]), "model": m}
            last_only = what == "hedge" and bool(ok[..., :-1].all())
            ctx.violation(site_of[what], f"branches:{what}{'_last_column' if last_only else ''}:{m['model']}"
                          + (":" + m["module_mode"] if m.get("module_mode") else ""),
                          f"{what} differs between the all-steps-at-once and the step-by-step evaluation of the "
                          f"same strategy ({desc})", observed=obs, expected=exp, block=mini)
    for mode in ("vectorised", "stepwise"):
        a = res[mode]["hedge"]
        if tuple(a.shape) != tuple(ref.shape):
            continue
        ok = _close(a, ref, exact)
        if not ok.all():
            r = int((~ok).flatten(1).any(1).nonzero()[0])
            t = int((~ok)[r].any(0).nonzero()[0])
            ctx.violation("Hedger.compute_hedge", f"reference_loop:{mode}:{'last_column' if t == T - 1 else 'value'}"
                          + (":" + m["module_mode"] if m.get("module_mode") else ""),
                          f"{mode} compute_hedge differs from the reference step-by-step loop first at step {t} "
                          f"({desc})", observed={"path": world.spot[r].tolist(), "hedge": a[r].tolist()},
                          expected={"hedge": ref[r].tolist()},
                          block={"world": dict(w, rows=[int(world.orig[r])]), "model": m})
    ctx.outcome((m["model"], w["ul"], w.get("kind"), H, round(float(hv.nan_to_num(nan=7.0).sum()), 9),
                 round(float(res["vectorised"]["loss"]), 9)))
    if len(ctx.samples) < 6 and m["model"] == "bs" and N > 1:
        r = (N * 5) // 13
        ctx.sample({"family": "branches", "config": desc, "path": world.spot[r].tolist(),
                    "hedge_vectorised": hv[r].tolist(), "hedge_stepwise": hs[r].tolist(),
                    "pl_vectorised": float(res["vectorised"]["pl"][r]), "pl_stepwise": float(res["stepwise"]["pl"][r]),
                    "loss_vectorised": float(res["vectorised"]["loss"]), "loss_stepwise": float(res["stepwise"]["loss"])})


# ----------------------------------------------------------------------------
# enumeration
# ----------------------------------------------------------------------------

def feature_specs(As, listed):
    from mc.checks.c02 import feature_specs as fs
    return fs(As, listed)


def loop_models(H):
    base = [{"f": "moneyness"}, {"f": "time_to_maturity"}]
    return [
        # models that USE the previous hedge (feedback observable in the values)
        {"model": "linear", "inputs": base + [{"f": "prev_hedge"}]},
        {"model": "user", "inputs": [{"f": "max_moneyness"}, {"f": "barrier", "threshold": 1.0, "up": True},
                                     {"f": "prev_hedge"}]},
        {"model": "mlp", "inputs": [{"f": "prev_hedge"}, {"f": "moneyness"}, {"f": "volatility"}]},   # state first
        {"model": "linear", "inputs": [{"f": "moneyness"},
                                       {"f": "module_output", "module": "linear",
                                        "inputs": [{"f": "max_moneyness"}, {"f": "prev_hedge"}]}]},
        {"model": "ww"},
        # models that ignore it (stepwise forced)
        {"model": "linear", "inputs": base + [{"f": "volatility"}], "mode": "stepwise"},
        {"model": "bs", "mode": "stepwise"},
        {"model": "naked", "inputs": [{"f": "empty"}], "mode": "stepwise"},
    ]


def branch_models(listed):
    out = [
        {"model": "linear", "inputs": [{"f": "moneyness"}, {"f": "time_to_maturity"}, {"f": "volatility"}]},
        {"model": "linear", "inputs": [{"f": "log_moneyness"}, {"f": "max_log_moneyness"},
                                       {"f": "underlier_log_spot"}, {"f": "variance"}]},
        {"model": "mlp", "inputs": [{"f": "max_moneyness"}, {"f": "barrier", "threshold": 1.0, "up": True},
                                    {"f": "barrier", "threshold": 1.0, "up": False}, {"f": "expiry_time"}]},
        {"model": "user", "inputs": [{"f": "moneyness"}, {"f": "max_moneyness"}, {"f": "variance"}]},
        {"model": "linear", "inputs": [{"f": "underlier_spot"}, {"f": "variance"}, {"f": "ones"},
                                       {"f": "barrier", "threshold": 1.0, "up": True}]},
        {"model": "mlp", "inputs": [{"f": "module_output", "module": "bs"}, {"f": "zeros"},
                                    {"f": "module_output", "module": "user",
                                     "inputs": [{"f": "max_moneyness"}, {"f": "volatility"}]}]},
        {"model": "bs"},
        {"model": "naked", "inputs": [{"f": "zeros"}]},
    ]
    if listed:
        out.append({"model": "linear", "inputs": [{"f": "spot", "pricer": listed}, {"f": "underlier_spot"},
                                                  {"f": "log_spot", "pricer": listed}]})
        out.append({"model": "identity", "inputs": [{"f": "spot", "pricer": listed}]})
    # models that return (a view of) their input, single-feature input lists (H = 1 only): whatever the
    # hedger does in place to the model output it does to the feature tensor
    for f in ("underlier_spot", "moneyness", "time_to_maturity", "variance", "volatility", "max_moneyness",
              "log_moneyness", "zeros"):
        out.append({"model": "identity", "inputs": [{"f": f}], "view": True})
    out += [{"model": "identity", "inputs": [{"f": "barrier", "threshold": 1.0, "up": True}], "view": True},
            {"model": "first", "inputs": [{"f": "underlier_spot"}], "view": True},
            {"model": "first", "inputs": [{"f": "time_to_maturity"}, {"f": "moneyness"}], "view": True},
            {"model": "first", "inputs": [{"f": "variance"}, {"f": "underlier_spot"}], "view": True}]
    return out


def run(ctx):
    ctx.rule("feature_steps: every feature x derivative kind x underlier x listing x dtype x every index in [-T,T) on "
             "all joint paths (non-trivial = rows where the feature differs between neighbouring steps, so a wrong "
             "index is visible). feature_resim: one derivative object re-simulated 4 times with same-shape path sets, "
             "both evaluation orders, every feature x step against get(None) and the reference on the current "
             "buffers. hedge_loop: every state-dependent model x world x H in {1,2,3} x n_paths in {1, all}: "
             "recorded model inputs/outputs replayed against the reference automaton (states = distinct prev_output "
             "vectors reached, transitions = per-path steps; non-trivial = steps entered with a non-zero state). "
             "hedge_ops: BFS to a fixpoint over call histories on one hedger (abstract state = shape/dtype of the "
             "stale prev_output). Worlds include derivatives whose own maturity is shorter / longer than the registered "
             "time grid (shared underlier), a short-dated listed hedge, and variance scripts with negative and zero entries "
             "(user subclasses of the primaries only with VERIF_USER_SUBCLASS=1, outside the claim); the loop is also run on copy.deepcopy(hedger) "
             "taken before / after the original's first use. branches (train() and, on a sub-grid, eval() mode): every state-independent model x world evaluated through both branches "
             "and the reference loop (non-trivial = paths on which the position changes over time)")
    ctx.assume("the model is deterministic and row-wise; the hedger, not the model, is under test")
    ctx.assume("values of the 'empty' feature are never compared (uninitialised memory); it is only fed to Naked")
    As = [0.875, 1.0, 1.25]
    extra = ctx.extra_symbol("spot", [0.75, 1.125, 1.5, 0.9375])
    A = As + [extra]
    Av = {"variance": [1 / 64, 1 / 16], "volatility": [0.125, 0.25]}
    T = ctx.pick(4, 5)
    ctx.alphabet("spot", A)
    ctx.alphabet("variance (heston, rough_bergomi)", Av["variance"])
    ctx.alphabet("volatility (local_vol)", Av["volatility"])
    ctx.alphabet("dt", ["1/256", "1/250", "1/365", "0.01"])
    ctx.info["T"] = T
    uls = ["brownian", "heston", "rough_bergomi", "local_vol", "merton", "kou", "cir", "vasicek"]
    # ---- (i)
    fblocks = []
    for ul in uls:
        av = Av.get(hw.TWO_FACTOR.get(ul))
        for kind in market.ALL_DERIVATIVE_KINDS:
            for call in ((True, False) if kind in market.OPTION_KINDS else (True,)):
                for listed in (None, "dyadic", "bs", "varswap"):
                    if (listed == "varswap") != (kind == "variance_swap" and listed is not None):
                        continue
                    for dtype, dt in (("float64", "dyadic"), ("float32", "dyadic"), ("float64", "1/250"),
                                      ("float64", "1/365"), ("float32", "0.01")):
                        w = {"ul": ul, "kind": kind, "call": call, "T": T, "As": A, "Av": av, "dtype": dtype,
                             "dt": dt, "listed": listed}
                        if not hw.world_ok(w):
                            continue
                        if ctx.thorough and (dtype, dt) != ("float64", "dyadic") and (
                                listed is not None or (not call and kind != "european")
                                or ul in ("merton", "kou", "vasicek")):
                            continue   # dtype / dt variants: one listing, puts for the European only
                        if ctx.quick:
                            minor = ul in ("merton", "kou", "cir", "vasicek")
                            if (dtype, dt) != ("float64", "dyadic") and (kind not in ("european", "lookback")
                                                                          or not call or listed is not None or minor
                                                                          or ul in ("rough_bergomi", "local_vol")):
                                continue
                            if minor and (kind not in ("european", "variance_swap") or listed == "bs"):
                                continue
                            if ul in hw.TWO_FACTOR and not call and kind != "european":
                                continue
                            if ul in hw.TWO_FACTOR and listed == "bs" and kind not in ("european", "lookback"):
                                continue
                        fblocks.append({"world": w, "features": feature_specs(A, listed)})
    rblocks_extra = []
    # ---- (ii)
    lblocks = []
    for ul, kind, hv, dtype in itertools.product(
            ["brownian", "heston", "local_vol"] if ctx.quick else uls[:6],
            market.OPTION_KINDS if ctx.thorough else ("european", "lookback", "american_binary"),
            ["default", "ul+listed", "ul+listed+listed3", "listed+ul"], ["float64", "float32"]):
        H = {"default": 1, "ul+listed": 2, "ul+listed+listed3": 3, "listed+ul": 2}[hv]
        if hv == "listed+ul" and (ul != "brownian" or kind != "european" or dtype != "float64"):
            continue
        if ctx.quick and ((H == 3 and (ul != "brownian" or kind != "european"))
                          or (dtype == "float32" and (ul != "brownian" or kind != "european"))
                          or (H == 2 and kind == "american_binary")):
            continue
        av = Av.get(hw.TWO_FACTOR.get(ul))
        for rows in (None, [ctx.seed % 7 + 3]):
            w = {"ul": ul, "kind": kind, "call": True, "T": T, "As": A, "Av": av, "dtype": dtype, "hedge": hv,
                 "rows": rows, "cost": 1 / 128}
            for m in loop_models(H):
                if not hw.model_ok(m, w):
                    continue
                if dtype == "float32" and m["model"] in ("bs", "ww"):
                    continue   # transcendental models are compared in float64 only
                lblocks.append({"world": w, "model": m})
    # copy.deepcopy(hedger): models using prev_hedge, H in {1, 2}
    for ul, hv, mode in itertools.product(("brownian", "heston"), ("default", "ul+listed"), ("before", "after")):
        H = 1 if hv == "default" else 2
        w = {"ul": ul, "kind": "european", "call": True, "T": T, "As": As, "Av": Av.get(hw.TWO_FACTOR.get(ul)),
             "dtype": "float64", "hedge": hv, "cost": 1 / 128}
        for m in loop_models(H)[:5]:
            if hw.model_ok(m, w):
                lblocks.append({"world": w, "model": m, "copy": mode})
    # ---- (ii')
    oblocks = [{"A": As, "T": 4, "dtype": "float64", "row": 5}]
    if ctx.thorough:
        oblocks.append({"A": A, "T": 5, "dtype": "float32", "row": 11})
    # ---- (iii)
    bblocks = []
    for ul in (["brownian", "heston", "local_vol", "rough_bergomi"] if ctx.quick else uls):
        av = Av.get(hw.TWO_FACTOR.get(ul))
        for kind in market.ALL_DERIVATIVE_KINDS:
            for call in ((True, False) if kind in market.OPTION_KINDS else (True,)):
                for listed, hv in ((None, "default"), (None, "ul+listed"), ("dyadic", "default"),
                                   (None, "ul+listed+listed3")):
                    H = {"default": 1, "ul+listed": 2, "ul+listed+listed3": 3}[hv]
                    if listed == "dyadic" and kind == "variance_swap":
                        continue
                    if ctx.quick:
                        if H == 3 and (ul != "brownian" or kind != "lookback"):
                            continue
                        if ul == "rough_bergomi" and (kind != "european" or H > 1 or listed):
                            continue
                        if not call and kind != "european":
                            continue
                        if H == 2 and (ul != "heston" or kind not in ("european", "lookback", "variance_swap")):
                            continue
                        if listed and (ul == "local_vol" or kind not in ("european", "lookback", "forward_start")):
                            continue
                        if ul in ("heston", "local_vol") and (kind in ("european_binary", "american_binary")
                                                               or (listed and kind != "european")):
                            continue
                    w = {"ul": ul, "kind": kind, "call": call, "T": T, "As": A, "Av": av, "dtype": "float64",
                         "listed": listed, "hedge": hv, "cost": 1 / 128}
                    if not hw.world_ok(w):
                        continue
                    for m in branch_models(listed):
                        if not hw.model_ok(m, w):
                            continue
                        if m["model"] == "naked" and (H > 1 and ctx.quick):
                            continue
                        if ctx.quick and m.get("view") and (ul not in ("brownian", "heston") or not call or listed or
                                                            kind not in ("european", "lookback", "variance_swap")):
                            continue
                        bblocks.append({"world": w, "model": {k: v for k, v in m.items() if k != "view"}})
    # float32, exact models only
    for kind in ("european", "lookback"):
        w = {"ul": "heston", "kind": kind, "call": True, "T": T, "As": As, "Av": Av["variance"], "dtype": "float32",
             "hedge": "ul+listed", "cost": 1 / 128}
        for m in branch_models(None)[:1] + branch_models(None)[2:4]:
            bblocks.append({"world": w, "model": m})
    # shortest horizons: T = 2 (a single model call) and T = 3
    for Ts, ul, hv in itertools.product((2, 3), ("brownian", "heston"), ("default", "ul+listed")):
        H = 1 if hv == "default" else 2
        w = {"ul": ul, "kind": "lookback", "call": True, "T": Ts, "As": A, "Av": Av["variance"] if ul == "heston" else None,
             "dtype": "float64", "hedge": hv, "cost": 1 / 128}
        for m in loop_models(H):
            if hw.model_ok(m, w):
                lblocks.append({"world": w, "model": m})
        for m in branch_models(None):
            if hw.model_ok(m, w):
                bblocks.append({"world": w, "model": m})
        fblocks.append({"world": dict(w, hedge="default"), "features": feature_specs(A, None)})
    # the derivative's own maturity is NOT the registered grid: the underlier is shared with a derivative of
    # another maturity / was simulated for another horizon (maturity shorter: mat_k < T-1, longer: mat_k > T-1),
    # and the Hedger docstring's setting: a longer-dated derivative hedged with a short-dated listed option
    for ul, kind, mat_k in itertools.product(
            ("brownian", "heston"), market.OPTION_KINDS if ctx.thorough else ("european", "lookback"),
            (max(1, T - 3), T + 1)):
        w = {"ul": ul, "kind": kind, "call": True, "T": T, "As": A if ctx.thorough else As,
             "Av": Av["variance"] if ul == "heston" else None, "dtype": "float64", "hedge": "default",
             "cost": 1 / 128, "mat_k": mat_k}
        fblocks.append({"world": w, "features": feature_specs(w["As"], None)})
        for m in loop_models(1):
            if hw.model_ok(m, w):
                lblocks.append({"world": w, "model": m})
        for m in branch_models(None):
            if hw.model_ok(m, w) and not m.get("view") and m["model"] in ("linear", "bs", "mlp"):
                bblocks.append({"world": w, "model": m})
    for ul, kind in itertools.product(("brownian", "heston"), ("lookback", "european")):
        w = {"ul": ul, "kind": kind, "call": True, "T": T, "As": A if ctx.thorough else As,
             "Av": Av["variance"] if ul == "heston" else None, "dtype": "float64", "hedge": "ul+listed_short",
             "cost": 1 / 128}
        for m in loop_models(2):
            if hw.model_ok(m, w):
                lblocks.append({"world": w, "model": m})
        for m in branch_models(None)[:4]:
            if hw.model_ok(m, w):
                bblocks.append({"world": w, "model": m})
    # USER SUBCLASSES of the primaries overriding documented properties (volatility term structure on a
    # BrownianStock subclass, floored volatility on a HestonStock subclass) and variance scripts with negative
    # and zero entries (register_buffer scenario sets; the volatility property clamps them at 0)
    for ul, kind, av in itertools.product((("brownian_ts", "heston_user") if USER_SUBCLASS_WORLDS else ())
                                          + ("heston", "rough_bergomi"),
                                          ("european", "lookback") if ctx.quick else market.OPTION_KINDS,
                                          ("std", "neg")):
        if (av == "neg") != (ul in ("heston", "rough_bergomi")):
            continue
        if ctx.quick and ul == "rough_bergomi" and kind != "european":
            continue
        w = {"ul": ul, "kind": kind, "call": True, "T": T, "As": As if ctx.quick else A,
             "Av": None if ul == "brownian_ts" else ([-1 / 64, 0.0, 1 / 16] if av == "neg" else Av["variance"]),
             "dtype": "float64", "hedge": "default", "cost": 1 / 128}
        fblocks.append({"world": w, "features": [f for f in feature_specs(w["As"], None)
                                                  if av == "std" or f.get("module") != "bs"]})
        if av == "std":
            rblocks_extra.append({"world": dict(w, listed=None), "features": feature_specs(w["As"], None),
                                  "order": "step_first", "rounds": ["A", "reversed", "rolled", "A"], "reference": True})
        for m in loop_models(1):
            if hw.model_ok(m, w) and (av == "std" or m["model"] in ("linear", "user", "mlp")):
                lblocks.append({"world": w, "model": m})
        for m in branch_models(None):
            if hw.model_ok(m, w) and (av == "std" or m["model"] not in ("bs",)) and not (
                    av == "neg" and any(f.get("module") == "bs" for f in m.get("inputs", []))):
                bblocks.append({"world": w, "model": {k: v for k, v in m.items() if k != "view"}})
    # long time grids (more than 256 / 512 steps; T = 257 and 513 leave a one-step remainder for any
    # implementation that works in blocks of 256): all periodic paths of period 3 over the alphabet
    for Tl, ul in itertools.product((257, 300, 513) if ctx.quick else (257, 300, 513, 1025), ("brownian", "heston")):
        if ctx.quick and ul == "heston":
            continue
        w = {"ul": ul, "kind": "european", "call": True, "T": Tl, "As": As, "period": 3,
             "Av": Av["variance"] if ul == "heston" else None, "dtype": "float64", "hedge": "default", "cost": 1 / 128}
        for m in branch_models(None)[:1] + branch_models(None)[2:3] + [{"model": "bs"}]:
            if ctx.quick and Tl == 513 and m["model"] != "linear":
                continue
            if hw.model_ok(m, w):
                bblocks.append({"world": w, "model": m})
        if Tl == 300:
            fblocks.append({"world": w, "features": [f for f in feature_specs(As, None) if f["f"] != "module_output"],
                            "feature_list": False})
            lblocks.append({"world": w, "model": loop_models(1)[0]})
    # ---- (i') re-simulation histories on one derivative object
    rblocks = []
    for ul, kind, listed, dtype in itertools.product(
            ["brownian", "heston"] if ctx.quick else ["brownian", "heston", "local_vol", "rough_bergomi", "merton", "cir"],
            ["european", "lookback", "variance_swap"] if ctx.quick else list(market.ALL_DERIVATIVE_KINDS),
            [None, "dyadic"], ["float64", "float32"]):
        if listed and kind == "variance_swap":
            continue
        if dtype == "float32" and (kind != "lookback" or listed):
            continue
        for order, rounds in (("step_first", ["A", "reversed", "rolled", "A"]),
                              ("all_first", ["A", "interleaved", "reversed", "interleaved"])):
            w = {"ul": ul, "kind": kind, "call": True, "T": T, "As": As if ul in hw.TWO_FACTOR and ctx.quick else A,
                 "Av": Av.get(hw.TWO_FACTOR.get(ul)), "dtype": dtype, "listed": listed}
            if hw.world_ok(w):
                rblocks.append({"world": w, "features": feature_specs(w["As"], listed), "order": order,
                                "rounds": rounds, "reference": True})
    # a large batch: more than 2^16 paths with a remainder (5^7 = 78125 = 65536 + 12589 paths), "any n_paths"
    big = sorted(set(A) | {1.5, 0.75, 1.125})[:5]
    wbig = {"ul": "brownian", "kind": "european", "call": True, "T": 7, "As": big, "Av": None, "dtype": "float64",
            "hedge": "default", "cost": 1 / 128}
    for m in branch_models(None)[:1] + ([{"model": "bs"}] if ctx.thorough else []):
        bblocks.append({"world": wbig, "model": m})
    # module mode: hedger.eval() (the mode price() runs in and the one fit() leaves behind) next to the default
    # train() mode, for a sub-grid
    evals = []
    for b in bblocks:
        wb, mb = b["world"], b["model"]
        if mb["model"] not in ("linear", "mlp", "bs", "user") or wb.get("period") or wb.get("mat_k") is not None:
            continue
        if wb["ul"] not in ("brownian", "heston") or wb["kind"] not in ("european", "lookback") or not wb.get("call", True):
            continue
        if ctx.quick and (wb.get("listed") or wb["dtype"] != "float64" or wb["ul"] == "heston"
                          or wb.get("hedge") not in ("default", "ul+listed")):
            continue
        evals.append({"world": wb, "model": dict(mb, module_mode="eval")})
    bblocks += evals
    rblocks += rblocks_extra
    ctx.info["blocks"] = {"feature_resim": len(rblocks), "feature_steps": len(fblocks), "hedge_loop": len(lblocks), "hedge_ops": len(oblocks),
                          "branches": len(bblocks)}
    if ctx.quick:
        for name, blocks in (("feature_steps", fblocks), ("feature_resim", rblocks), ("hedge_loop", lblocks),
                             ("hedge_ops", oblocks), ("branches", bblocks)):
            for b in blocks:
                ctx.run(name, b)
    else:
        ctx.run_parallel("feature_steps", fblocks)
        ctx.run_parallel("feature_resim", rblocks)
        ctx.run_parallel("hedge_loop", lblocks)
        for b in oblocks:
            ctx.run("hedge_ops", b)
        ctx.run_parallel("branches", bblocks)

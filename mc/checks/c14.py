"""C14 - loss gradients through the hedger are the true gradients.  Engine: grid (configurations).

Families
  grad_fd    for every configuration (criterion x feature set / evaluation mode [incl. ModuleOutput features
             with and without parameters, fed with prev_hedge or not] x cost x number of hedging instruments x
             model [tanh-MLP, Linear, trainable no-transaction bands through Clamp/LeakyClamp/functional clamps
             in both inverted_output modes] x path set) the gradient of ``Hedger.compute_loss`` w.r.t.
             EVERY scalar parameter (model, ModuleOutput's module, criterion) obtained by
             back-propagation is compared with central finite differences of the same loss on the
             same scripted paths (mc/models/fd_ref.py), two step sizes; coordinates whose two
             differences disagree are counted as non-smooth (kink inside the stencil), must stay
             below 1 % and are still required to lie between the two one-sided slopes.
             Feature mode "bsf": pfhedge's built-in BlackScholes / WhalleyWilmott AS the model with one input slot
             (volatility, time to maturity, log-moneyness) supplied by a trainable ModuleOutput, call and put,
             batches of 1, 2 and all paths (explicit row subsets ``rows`` of the complete path set).
  no_graph   ``price()`` (default arguments) and ``compute_loss(enable_grad=False)`` return tensors
             without ``grad_fn`` / ``requires_grad`` for every criterion / feature set, also when
             called inside an enabled-grad region with trainable parameters; ``compute_loss()``
             (default) does carry a graph (vacuity guard).

All simulate calls are owned (core ScriptedSimulate): every evaluation sees the same de-tied complete
path set, float64.
"""
from __future__ import annotations

import itertools
import math
import os

import torch

from mc.core import market
from mc.core.explore import all_paths
from mc.core.runner import HarnessError
from mc.models import fd_ref

FAMILIES = {}


def family(fn):
    FAMILIES[fn.__name__] = fn
    return fn


DT = 1 / 16
LADDER = (1e-4, 2.5e-5, 6.25e-6, 1.5625e-6)   # central-difference steps, ratio 4
H1, H2 = LADDER[0], LADDER[1]
CRITERIA = ("erm", "es", "qcvar", "entropic_loss", "isoelastic", "oce", "mse", "l1")
FMODES = ("vec", "step", "prev", "mo_vec", "mo_prev", "mo_free_prev", "mo_ww")
MODELS = ("mlp", "linear")
# no-transaction-band models: prev_hedge clamped into [centre - width, centre + width], centre and width from
# trainable layers; "band:<module|functional>:<inverted_output>:<clamped_slope>"
BANDS = tuple(f"band:{impl}:{mode}:{slope}" for impl in ("module", "functional") for mode in ("mean", "max")
              for slope in ("0", "0.01"))
GOLD = 0.6180339887498949

PATH_SETS = {
    # name: (alphabet, T, pinned first value)
    "A3T4": ([0.85, 1.0, 1.2], 4, None),
    "A2T5": ([0.9, 1.15], 5, None),
    "A4T3": ([0.8, 0.95, 1.05, 1.3], 3, None),
    "A3T5p": ([0.88, 1.02, 1.17], 5, 1.0),
    "A2T6": ([0.93, 1.1], 6, None),
    "A5T3": ([0.75, 0.9, 1.0, 1.1, 1.35], 3, None),
}


LONG_T = 70


def _long_paths():
    """16 long price paths (T = 70 points, more than 64 steps): every +-1 pattern of length 4 drives an oscillating,
    bounded log-price; de-tied like the complete sets."""
    signs = all_paths([-1.0, 1.0], 4, dtype=torch.float64)                 # (16, 4)
    t = torch.arange(LONG_T - 1)
    drive = signs[:, t % 4] * torch.where((t // 4) % 2 == 0, 1.0, -1.0).to(torch.float64)
    logp = torch.cat([torch.zeros(16, 1, dtype=torch.float64), 0.04 * drive.cumsum(-1)], dim=-1)
    return logp.exp()


def path_set(name, extra=None, batch=0):
    """Complete path set over the alphabet, de-tied: cell (j, t) is multiplied by
    1 + (frac((j*T + t + 1) * golden) - 1/2) / 32, a deterministic low-discrepancy perturbation, so
    that no two paths (and no two P&L order statistics) coincide.  ``batch`` j > 0 gives the j-th further batch of an
    ensemble (n_times > 1): another stretch of the perturbation sequence and all prices scaled by 1 + j/16."""
    if name == "L70":
        base, T = _long_paths(), LONG_T
    else:
        A, T, first = PATH_SETS[name]
        if extra is not None:
            A = list(A) + [extra]
        base = all_paths(A, T, dtype=torch.float64, first=first)
    N = base.size(0)
    k = torch.arange(N * T, dtype=torch.float64).reshape(N, T) + 1 + 1009 * batch
    pert = torch.frac(k * GOLD) - 0.5
    return base * (1 + pert / 32) * (1 + batch / 16)


def _generic(shape, gen, scale):
    return (torch.rand(shape, generator=gen, dtype=torch.float64) * 2 - 1) * scale


def _init_generic(module, gen, scale=0.9):
    with torch.no_grad():
        for p in module.parameters():
            p.copy_(_generic(p.shape, gen, scale))


def _oce_utility(x):
    return 1 - (-x).exp()


def make_criterion(name):
    import pfhedge.nn as nn
    from pfhedge.nn.modules.loss import OCE
    if name == "erm":
        return nn.EntropicRiskMeasure(a=1.5)
    if name == "es":
        return nn.ExpectedShortfall(0.3)
    if name == "qcvar":
        return nn.QuadraticCVaR(lam=5.0)
    if name == "entropic_loss":
        return nn.EntropicLoss(a=1.25)
    if name == "isoelastic":
        return nn.IsoelasticLoss(a=0.5)
    if name == "isoelastic_log":
        return nn.IsoelasticLoss(a=1.0)
    if name == "oce":
        c = OCE(_oce_utility).to(torch.float64)
        with torch.no_grad():
            c.w.fill_(0.3)
        return c
    if name == "mse":
        return torch.nn.MSELoss()
    if name == "l1":
        return torch.nn.L1Loss()
    raise KeyError(name)


def _step_feature():
    from pfhedge.features._base import Feature

    class StepLogMoneyness(Feature):
        """log-moneyness as a *state-dependent* feature: forces the step-by-step evaluation loop of
        compute_hedge without feeding the previous hedge back."""
        name = "step_log_moneyness"

        def get(self, time_step):
            if time_step is None:
                raise ValueError("state dependent feature: time_step required")
            return self.derivative.log_moneyness(time_step).unsqueeze(-1)

    return StepLogMoneyness()


class ParamFree(torch.nn.Module):
    """A user module without parameters (smooth in every input)."""

    def forward(self, x):
        return torch.tanh(x[..., [0]] * 2 + x[..., 1:].sum(-1, keepdim=True))


class BandModel(torch.nn.Module):
    """No-transaction band: the previous hedge clamped into [centre - width, centre + width].  Centre
    (in (0.2, 0.8)) and width magnitude (in (0.05, 0.2)) come from trainable layers.  A data-determined role per
    (path, step) cell, r = (step + [log-moneyness > 0]) mod 3, makes every run exercise all branches whatever the
    weights: r = 0 plain band (the clamp is active at step 0, where prev_hedge = 0 lies below it), r = 1 band
    widened 20-fold (>= 1: the clamp is inactive), r = 2 width negated (min > max: the only place where the two
    ``inverted_output`` conventions differ)."""

    def __init__(self, H, impl, mode, slope, T):
        super().__init__()
        from pfhedge.nn import Clamp, LeakyClamp
        self.H, self.impl, self.mode, self.slope, self.T = H, impl, mode, slope, T
        self.centre = torch.nn.Linear(2, H)
        self.width = torch.nn.Linear(2, H)
        if impl == "module":
            self.clamp = Clamp(inverted_output=mode) if slope == 0 else LeakyClamp(clamped_slope=slope, inverted_output=mode)
        self.stats = None

    def forward(self, x):
        import pfhedge.nn.functional as F
        feat, prev = x[..., :2], x[..., 2:]
        step = self.T - 1 - torch.round(feat[..., [1]] / DT)
        role = torch.remainder(step + (feat[..., [0]] > 0).to(step), 3)
        c = 0.5 + 0.3 * torch.tanh(self.centre(feat))
        wd = 0.05 + 0.15 * torch.sigmoid(self.width(feat))
        wd = wd * torch.where(role == 1, 20.0, 1.0) * torch.where(role == 2, -1.0, 1.0)
        lo, hi = c - wd, c + wd
        if self.stats is not None:
            with torch.no_grad():
                self.stats["inverted"] += int((lo > hi).sum())
                self.stats["active"] += int(((prev < lo) | (prev > hi)).logical_and(lo <= hi).sum())
                self.stats["inactive"] += int(((prev >= lo) & (prev <= hi)).sum())
        if self.impl == "module":
            return self.clamp(prev, lo, hi)
        if self.slope == 0:
            return F.clamp(prev, lo, hi, inverted_output=self.mode)
        return F.leaky_clamp(prev, lo, hi, clamped_slope=self.slope, inverted_output=self.mode)


class PreWW(torch.nn.Module):
    """A trainable pre-transform of the features in front of pfhedge's WhalleyWilmott strategy: log-moneyness is
    scaled and shifted, volatility scaled (kept positive), so the Black-Scholes delta AND the gamma-dependent
    width of the no-transaction band depend on parameters."""

    def __init__(self, ww):
        super().__init__()
        self.ww = ww
        self.a = torch.nn.Parameter(torch.zeros(()))
        self.b = torch.nn.Parameter(torch.zeros(()))
        self.v = torch.nn.Parameter(torch.zeros(()))
        self.stats = None

    def forward(self, x):
        logm = (1 + 0.3 * self.a) * x[..., [0]] + 0.05 * self.b
        vol = x[..., [2]] * torch.exp(0.3 * self.v)
        y = torch.cat([logm, x[..., [1]], vol, x[..., [3]]], dim=-1)
        out = self.ww(y)
        if self.stats is not None:
            with torch.no_grad():
                active = int((out != x[..., [3]]).sum())
                self.stats["active"] += active
                self.stats["inactive"] += out.numel() - active
        return out


class CountWW(torch.nn.Module):
    """WhalleyWilmott itself as the (parameter-free) model; counts active / inactive clamp cells."""

    def __init__(self, ww):
        super().__init__()
        self.ww = ww
        self.stats = None

    def forward(self, x):
        out = self.ww(x)
        if self.stats is not None:
            with torch.no_grad():
                active = int((out != x[..., [-1]]).sum())
                self.stats["active"] += active
                self.stats["inactive"] += out.numel() - active
        return out


class SlotNet(torch.nn.Module):
    """A trainable feature standing for ONE input of the built-in Black-Scholes / Whalley-Wilmott models: reads
    (log_moneyness, time_to_maturity, volatility) and returns the named slot adjusted by a small trainable network of
    the first two (log-moneyness shifted; time to maturity / volatility scaled by a positive factor)."""

    def __init__(self, net, slot):
        super().__init__()
        self.net, self.slot = net, slot

    def forward(self, x):
        n = self.net(x[..., :2])
        if self.slot == "logm":
            return x[..., [0]] + 0.1 * n
        if self.slot == "ttm":
            return x[..., [1]] * torch.exp(0.3 * n)
        return x[..., [2]] * torch.exp(0.3 * n)


class BSPrev(torch.nn.Module):
    """pfhedge's BlackScholes delta plus a smooth parameter-free function of the previous hedge (a recurrent model
    whose only parameter dependence enters through the Black-Scholes formulas)."""

    def __init__(self, bs):
        super().__init__()
        self.bs = bs

    def forward(self, x):
        return self.bs(x[..., :3]) + 0.125 * torch.tanh(x[..., [3]])


class World:
    pass


def build_world(case):
    import pfhedge.instruments as I
    from pfhedge.features import ModuleOutput
    from pfhedge.nn import Hedger
    w = World()
    f64 = torch.float64
    rows = case.get("rows")       # explicit subset of the complete path set (n_paths axis: 1, 2, ... paths)
    sel = (lambda b: b) if rows is None else (lambda b: b[list(rows)])
    spot = sel(path_set(case["paths"], case.get("extra")))
    N, T = spot.shape
    cost = case["cost"]
    stock = market.primary("brownian", dtype=f64, cost=cost, dt=DT, sigma=0.25)
    deriv = market.derivative("european", stock, T=T, dt=DT, strike=1.0, call=bool(case.get("call", True)))
    crit_name = case["criterion"]
    endowment = {"value": 0.0}
    if crit_name.startswith("isoelastic"):
        # isoelastic utility needs positive wealth: the liability is the payoff minus a constant endowment
        # (fixed below, once the hedger exists, so that the terminal wealth is >= 2 on every path)
        deriv.add_clause("c14_endowment", lambda d, payoff: payoff - endowment["value"])
    # one scripted batch per simulate call of an evaluation (n_times of them); the call counter is reset before
    # every evaluation, so every evaluation of the loss sees the same batches in the same order
    w.n_times = int(case.get("n_times", 1))
    w.mode = case.get("mode", "train")
    batches = [spot] + [sel(path_set(case["paths"], case.get("extra"), batch=j)) for j in range(1, w.n_times)]
    w.sim = market.ScriptedSimulate(stock, [{"spot": b} for b in batches], cycle=True)
    H = case["H"]
    hedge = None
    if H == 2:
        listed = I.EuropeanOption(stock, strike=1.1, maturity=(T - 1) * DT)
        listed.list(lambda d: torch.nn.functional.relu(d.ul().spot - 1.1) + 0.25 * d.ul().spot.square(),
                    cost=2 * cost)
        hedge = [stock, listed]
    gen = torch.Generator().manual_seed(14000 + 97 * case.get("wseed", 0))
    fm = case["fm"]
    mo_net = None
    if fm == "vec":
        inputs, F = ["log_moneyness", "time_to_maturity"], 2
    elif fm == "step":
        inputs, F = [_step_feature(), "time_to_maturity"], 2
    elif fm == "prev":
        inputs, F = ["log_moneyness", "time_to_maturity", "prev_hedge"], 2 + H
    elif fm == "mo_vec":
        mo_net = torch.nn.Sequential(torch.nn.Linear(2, 2), torch.nn.Tanh(), torch.nn.Linear(2, 1)).to(f64)
        inputs, F = ["log_moneyness", "time_to_maturity", ModuleOutput(mo_net, ["log_moneyness", "time_to_maturity"])], 3
    elif fm == "mo_prev":
        mo_net = torch.nn.Sequential(torch.nn.Linear(1 + H, 2), torch.nn.Tanh(), torch.nn.Linear(2, 1)).to(f64)
        inputs, F = ["log_moneyness", ModuleOutput(mo_net, ["time_to_maturity", "prev_hedge"])], 2
    elif fm == "mo_free_prev":
        # parameter-free user module over (time_to_maturity, prev_hedge): a recurrent path with nothing to train in it
        mo_free = ParamFree()
        inputs, F = ["log_moneyness", ModuleOutput(mo_free, ["time_to_maturity", "prev_hedge"])], 2
    elif fm == "mo_ww":
        # pfhedge's own parameter-free recurrent module as a feature (needs one hedging instrument and costs > 0
        # for a band of positive width)
        from pfhedge.nn import WhalleyWilmott
        ww = WhalleyWilmott(deriv)
        inputs, F = ["log_moneyness", ModuleOutput(ww, ww.inputs())], 2
    elif fm == "ww":
        # the features WhalleyWilmott reads; with model "ww:mo" the log-moneyness comes through a trainable ModuleOutput
        from pfhedge.nn import WhalleyWilmott
        ww = WhalleyWilmott(deriv, a=50.0)      # band half-width about 0.15 at cost 1e-2
        if case["model"] == "ww:mo":
            mo_net = torch.nn.Sequential(torch.nn.Linear(2, 2), torch.nn.Tanh(), torch.nn.Linear(2, 1)).to(f64)

            class Shift(torch.nn.Module):
                def __init__(self, net):
                    super().__init__()
                    self.net = net

                def forward(self, x):
                    return x[..., [0]] + 0.1 * self.net(x)
            inputs = [ModuleOutput(Shift(mo_net), ["log_moneyness", "time_to_maturity"]), "time_to_maturity", "volatility", "prev_hedge"]
        else:
            inputs = ww.inputs()
        F = 4
    elif fm == "bsf":
        # pfhedge's built-in Black-Scholes family as THE model (parameter-free); one of its inputs (slot) comes from a
        # trainable ModuleOutput, so the only gradient path runs through bs delta / gamma / ww_width (broadcast_all,
        # d1, ncdf, npdf).  Always evaluated step by step (never at time_to_maturity = 0).
        from pfhedge.nn import BlackScholes, WhalleyWilmott
        kind, slot = case["model"].split(":")[1], case["slot"]
        mo_net = torch.nn.Sequential(torch.nn.Linear(2, 2), torch.nn.Tanh(), torch.nn.Linear(2, 1)).to(f64)
        lm = _step_feature() if kind == "bs_step" else "log_moneyness"
        feat = ModuleOutput(SlotNet(mo_net, slot), [lm, "time_to_maturity", "volatility"])
        inputs = [lm, "time_to_maturity", "volatility"]
        inputs[("logm", "ttm", "vol").index(slot)] = feat
        if kind != "bs_step":
            inputs.append("prev_hedge")
        bsf = WhalleyWilmott(deriv, a=50.0) if kind == "ww" else BlackScholes(deriv)
        F = len(inputs)
    else:
        raise KeyError(fm)
    if fm == "bsf":
        if H != 1:
            raise HarnessError("C14: the built-in Black-Scholes models trade one instrument")
        if kind == "ww":
            model = CountWW(bsf).to(f64)
            w.ww_stats = model.stats = {"active": 0, "inactive": 0}
        else:
            model = (bsf if kind == "bs_step" else BSPrev(bsf)).to(f64)
    elif case["model"].startswith("ww:"):
        if fm != "ww" or H != 1:
            raise HarnessError("C14: WhalleyWilmott composites read ww.inputs() and trade one instrument")
        model = (PreWW(ww) if case["model"] == "ww:pre" else CountWW(ww)).to(f64)
        w.ww_stats = model.stats = {"active": 0, "inactive": 0}
    elif case["model"].startswith("band:"):
        if fm != "prev":
            raise HarnessError("C14: band models read (log_moneyness, time_to_maturity, prev_hedge)")
        _, impl, mode, slope = case["model"].split(":")
        model = BandModel(H, impl, mode, float(slope), T).to(f64)
        w.band_stats = model.stats = {"inverted": 0, "active": 0, "inactive": 0}
    elif case["model"] in ("mlp", "mlp_frozen_first"):
        model = torch.nn.Sequential(torch.nn.Linear(F, 3), torch.nn.Tanh(), torch.nn.Linear(3, H)).to(f64)
    else:
        model = torch.nn.Linear(F, H).to(f64)
    _init_generic(model, gen)
    if case["model"] == "mlp_frozen_first":
        for p in model[0].parameters():     # the FIRST parameters of the model do not require grad
            p.requires_grad_(False)
    if mo_net is not None:
        _init_generic(mo_net, gen)
    crit = make_criterion(crit_name)
    hedger = Hedger(model, inputs, criterion=crit)
    w.hedger, w.derivative, w.hedge, w.stock, w.N, w.T, w.H = hedger, deriv, hedge, stock, N, T, H
    if hedger.inputs.of(deriv, hedger).is_state_dependent() != stepwise_expected(fm):
        raise HarnessError(f"C14: feature mode {fm} does not select the intended evaluation mode")
    w.mo_net, w.model, w.criterion = mo_net, model, crit
    def fix_endowment():
        """(isoelastic only) endowment such that the terminal wealth is >= 2 on every path at the current parameters"""
        if not crit_name.startswith("isoelastic"):
            return
        endowment["value"] = 0.0
        worst_pl = 0.0
        with torch.no_grad():
            w.sim.calls = 0
            for _ in range(w.n_times):
                deriv.simulate(n_paths=N)
                v = float(hedger.compute_pl(deriv, hedge=hedge).min())
                if math.isfinite(v):
                    worst_pl = min(worst_pl, v)
        w.sim.calls = 0
        endowment["value"] = float(math.ceil(max(0.0, -worst_pl))) + 2.0

    w.fix_endowment = fix_endowment
    fix_endowment()
    params = [("model." + n, p) for n, p in model.named_parameters() if p.requires_grad]
    if mo_net is not None:
        params += [("module_output." + n, p) for n, p in mo_net.named_parameters()]
    params += [("criterion." + n, p) for n, p in crit.named_parameters()]
    w.params = params
    return w


def loss_value(w):
    w.sim.calls = 0
    return float(w.hedger.compute_loss(w.derivative, hedge=w.hedge, n_paths=w.N, n_times=w.n_times, enable_grad=False))


def stepwise_expected(fm):
    return fm in ("step", "prev", "mo_prev", "mo_free_prev", "mo_ww", "ww", "bsf")


def admissible(case):
    if case["fm"] == "mo_ww" and (case["H"] != 1 or not case["cost"] > 0):
        return False
    if case["model"].startswith("band:") and case["fm"] != "prev":
        return False
    if (case["fm"] == "ww") != case["model"].startswith("ww:"):
        return False
    if case["fm"] == "ww" and (case["H"] != 1 or not case["cost"] > 0):
        return False
    if (case["fm"] == "bsf") != case["model"].startswith("bsf:"):
        return False
    if case["fm"] == "bsf" and (case["H"] != 1 or (case["model"] == "bsf:ww" and not case["cost"] > 0)):
        return False
    return True


def path_sensitivities(w):
    """max over paths and batches of |d pl_i / d theta_j| for every scalar coordinate j, by central differences of
    the per-path P&L (QuadraticCVaR only: bounds the slopes of the bisection bracket ends and of the optimal omega)."""
    h = LADDER[1]

    def pls():
        w.sim.calls = 0
        out = []
        for _ in range(w.n_times):
            w.derivative.simulate(n_paths=w.N)
            out.append(w.hedger.compute_pl(w.derivative, hedge=w.hedge))
        w.sim.calls = 0
        return torch.stack(out)

    sens = []
    with torch.no_grad():
        for name, p in w.params:
            flat = p.view(-1)
            for i in range(flat.numel()):
                x0 = flat[i].item()
                flat[i] = x0 + h
                a = pls()
                flat[i] = x0 - h
                b = pls()
                flat[i] = x0
                d = (a - b) / ((x0 + h) - (x0 - h))
                d = d - d.mean(dim=-1, keepdim=True)     # the criterion centres the sample
                sens.append(float(d.abs().max()))
    return sens


def tolerances(case, g_scale, fmax, level, path_sens=0.0):
    """Derived bounds for the step pair (LADDER[level], LADDER[level+1]) (see fd_ref docstring).
    M3: third derivatives of the loss along coordinate axes are bounded by 2e3 * (largest first derivative)
    on the stencils (tanh networks with |weights| < 1, features and prices of order one, at most 6 recurrent
    steps; observed ratio is about 4)."""
    ha, hb = LADDER[level], LADDER[level + 1]
    m3 = 2e3 * max(g_scale, 1e-12)
    ra, rb = fd_ref.rounding_bound(fmax, ha), fd_ref.rounding_bound(fmax, hb)
    extra = 0.0
    if case["criterion"] == "qcvar":
        # the loss is evaluated at omega_hat with |omega_hat - omega*| <= p (bisection precision
        # p = 1e-6 * 10^int(log10(range)) <= 1e-6 here), so the computed function differs from the smooth
        # envelope by at most lam*p^2 (second order in the optimality gap), a piecewise-constant wobble that a
        # central difference divides by 2h.  Back-propagation differentiates L(omega_hat(theta), theta) with
        # omega_hat a fixed convex combination of the bracket ends (min and max of the centred sample), whereas
        # differences across many bisection decisions follow omega*(theta): the two differ by
        # |dL/d omega| * |d omega_hat/d theta - d omega*/d theta| <= (2*lam*p) * 2*S, S = max_i |d x_i/d theta| over
        # the paths (both slopes are convex combinations of path slopes); S is measured per coordinate.
        lam, p = 5.0, 1e-6
        extra = lam * p * p / hb + 2 * lam * p * 2 * path_sens
    agree = (ha * ha - hb * hb) * m3 / 6 + ra + rb + 2 * extra   # |D(ha) - D(hb)| for a coordinate smooth on the ha-stencil
    # Richardson value: O(h^4) truncation (bounded by 1e-3 of the O(h^2) terms) + amplified rounding + wobble
    acc = (16 * rb + ra) / 15 + 2 * extra + 1e-3 * (ha * ha + hb * hb) * m3 / 6
    return agree, acc


HISTORIES = {
    # operations run on the SAME hedger before the gradient is taken (the evaluation-only ones must not change
    # any requires_grad flag; none may change the gradient of the later loss at the then-current parameters)
    "price": ["price"],
    "evals": ["compute_pl", "compute_portfolio", "loss_nograd"],
    "fit": ["fit"],
    "price_fit_price": ["price", "fit", "price"],
}


def _all_params(w):
    out = [("model." + n, p) for n, p in w.model.named_parameters()]
    if w.mo_net is not None:
        out += [("module_output." + n, p) for n, p in w.mo_net.named_parameters()]
    out += [("criterion." + n, p) for n, p in w.criterion.named_parameters()]
    return out


def _grad(loss, tensors):
    """torch.autograd.grad over the tensors that (still) require grad; None for the others."""
    live = [t for t in tensors if t.requires_grad]
    got = iter(torch.autograd.grad(loss, live, allow_unused=True)) if live else iter(())
    return [next(got) if t.requires_grad else None for t in tensors]


def run_history(ctx, w, case, mini):
    """The operation history of the configuration, on the hedger whose gradient is examined afterwards."""
    hedger = w.hedger
    for op in HISTORIES[case["history"]]:
        flags = [(n, bool(p.requires_grad)) for n, p in _all_params(w)]
        w.sim.calls = 0
        if op == "price":
            if not hasattr(w.criterion, "cash"):
                continue
            try:
                hedger.price(w.derivative, hedge=w.hedge, n_paths=w.N)
            except ValueError:
                ctx.add("price_raised_value_error", 1)      # default cash() bisection bracket: C06's business
        elif op == "compute_pl":
            with torch.no_grad():
                w.derivative.simulate(n_paths=w.N)
                hedger.compute_pl(w.derivative, hedge=w.hedge)
        elif op == "compute_portfolio":
            with torch.no_grad():
                w.derivative.simulate(n_paths=w.N)
                hedger.compute_portfolio(w.derivative, hedge=w.hedge)
        elif op == "loss_nograd":
            hedger.compute_loss(w.derivative, hedge=w.hedge, n_paths=w.N, n_times=2, enable_grad=False)
        elif op == "fit":
            trainable = [p for _, p in w.params]
            hedger.fit(w.derivative, hedge=w.hedge, n_epochs=2, n_paths=w.N, n_times=1, verbose=False,
                       optimizer=torch.optim.SGD(trainable, lr=0.03125))
        else:
            raise KeyError(op)
        after = [(n, bool(p.requires_grad)) for n, p in _all_params(w)]
        changed = [n for (n, a), (_, b) in zip(flags, after) if a != b]
        if changed:
            ctx.violation("Hedger." + ("compute_loss" if op == "loss_nograd" else op), f"requires_grad_changed_by:{op}",
                          f"{op} changed requires_grad of {changed} (criterion={case['criterion']}, model={case['model']}, fm={case['fm']})",
                          observed=changed, expected=[], block=mini)
    w.sim.calls = 0


@family
def grad_fd(ctx, block):
    cases = block["cases"]
    for case in cases:
        w = build_world(case)
        hedger = w.hedger
        # back-propagated gradient of the real loss (ensemble mean over n_times scripted batches), with the
        # hedger in the module mode the configuration names: nothing here has dropout / batch-norm, so the
        # gradient must not depend on it
        if case.get("history"):
            run_history(ctx, w, case, {"cases": [case]})
            w.fix_endowment()
        hedger.train() if w.mode == "train" else hedger.eval()
        w.sim.calls = 0
        loss = hedger.compute_loss(w.derivative, hedge=w.hedge, n_paths=w.N, n_times=w.n_times)
        if w.sim.calls != w.n_times:
            ctx.violation("Hedger.compute_loss", "ensemble_simulate_calls", f"compute_loss(n_times={w.n_times}) simulated {w.sim.calls} times",
                          observed=w.sim.calls, expected=w.n_times, block={"cases": [case]})
        site = "Hedger.compute_loss"
        mini = {"cases": [case]}
        if not (loss.requires_grad and loss.grad_fn is not None):
            ctx.violation(site, "default_loss_has_no_graph" + ("" if w.n_times == 1 else ":n_times>1"),
                          f"compute_loss(n_times={w.n_times}) with default enable_grad returned a tensor without graph",
                          observed=[bool(loss.requires_grad), str(loss.grad_fn)], expected="graph", block=mini)
            ctx.tick(1)
            continue
        if getattr(w, "band_stats", None) is not None:
            w.model.stats = None        # counted on this one evaluation only
            ctx.add("band_cells_clamp_active", w.band_stats["active"])
            ctx.add("band_cells_clamp_inactive", w.band_stats["inactive"])
            ctx.add("band_cells_inverted", w.band_stats["inverted"])
        if getattr(w, "ww_stats", None) is not None:
            w.model.stats = None
            ctx.add("ww_cells_clamp_active", w.ww_stats["active"])
            ctx.add("ww_cells_clamp_inactive", w.ww_stats["inactive"])
        tensors = [p for _, p in w.params]
        grads = _grad(loss, tensors)
        g_ad = []
        unused = []
        for (n, p), g in zip(w.params, grads):
            if g is None:
                unused.append(n)
                g_ad += [0.0] * p.numel()
            else:
                g_ad += g.reshape(-1).tolist()
        if case["criterion"].startswith("isoelastic"):
            with torch.no_grad():
                w.sim.calls = 0
                w.derivative.simulate(n_paths=w.N)
                wealth = hedger.compute_pl(w.derivative, hedge=w.hedge)
            if not (wealth.min() > 0.25):
                raise HarnessError(f"C14: isoelastic configuration with non-positive wealth {float(wealth.min())}: {case}")
        f = lambda: loss_value(w)
        f0 = f()
        if not math.isfinite(f0) or abs(f0 - float(loss)) > 1e-12 * max(1.0, abs(f0)):
            ctx.violation(site, "loss_value_depends_on_grad_mode", "compute_loss(enable_grad=False) differs from compute_loss()",
                          observed=f0, expected=float(loss), block=mini)
        d1, fm1 = fd_ref.central_differences(f, w.params, LADDER[0])
        d2, fm2 = fd_ref.central_differences(f, w.params, LADDER[1])
        coords = fd_ref.coordinates(w.params)
        pdict = dict(w.params)
        fmax = max(fm1, fm2, abs(f0))
        g_scale = max(max(abs(x) for x in g_ad), max(abs(x) for x in d2))
        n_smooth = n_kink = n_undecided = 0
        qsens = path_sensitivities(w) if case["criterion"] == "qcvar" else None
        extra_evals = 0
        worst = 0.0
        for i, (name, j) in enumerate(coords):
            a = g_ad[i]
            ds = [d1[i], d2[i]]
            if not all(math.isfinite(x) for x in [a] + ds):
                ctx.violation(site, f"nonfinite:{case['criterion']}", f"non-finite gradient or loss at coordinate {name}[{j}]",
                              observed=[a] + ds, expected="finite", block=mini)
                continue
            verdict = None
            level = 0
            while True:
                agree, acc = tolerances(case, g_scale, fmax, level, qsens[i] if qsens is not None else 0.0)
                ha, hb = LADDER[level], LADDER[level + 1]
                clean = abs(ds[level] - ds[level + 1]) <= agree
                ref = fd_ref.richardson(ds[level], ds[level + 1], ha, hb)
                tol = 1e-6 * abs(ref) + acc
                if clean and abs(a - ref) <= tol:
                    verdict = "smooth" if level == 0 else "resolved"
                    worst = max(worst, abs(a - ref) / max(abs(ref) + g_scale * 1e-3, 1e-300))
                    break
                if level + 2 >= len(LADDER):
                    verdict = "mismatch" if clean else "undecided"
                    break
                # the pair is contaminated by a kink inside the wider stencil, or the gradient is wrong:
                # decide on the next finer pair
                level += 1
                d_next, _ = fd_ref.central_difference_one(f, pdict[name], j, LADDER[level + 1])
                extra_evals += 2
                ds.append(d_next)
            if verdict == "smooth":
                n_smooth += 1
            elif verdict == "resolved":
                n_kink += 1
            elif verdict == "mismatch":
                # All step pairs agree with each other but not with back-propagation.  Either the gradient is wrong,
                # or a kink lies much closer to the point than the finest step (then every central difference is the
                # mean of the two one-sided slopes).  The two are told apart without assumptions: the gap between the
                # one-sided slopes is proportional to h for a smooth coordinate and independent of h at a kink.
                lo_a, hi_a = _one_sided(f, w.params, name, j, LADDER[-1])
                lo_b, hi_b = _one_sided(f, w.params, name, j, LADDER[-2])
                extra_evals += 6
                jump_a, jump_b = hi_a - lo_a, hi_b - lo_b
                noise = 8 * fd_ref.rounding_bound(fmax, LADDER[-1])
                kink = abs(jump_a) > 0.5 * abs(jump_b) and abs(jump_a) > noise and abs(jump_a) >= abs(a - ref)
                slack = acc + 0.1 * abs(jump_a) + 1e-4 * max(abs(lo_a), abs(hi_a))
                if kink and min(lo_a, hi_a) - slack <= a <= max(lo_a, hi_a) + slack:
                    n_kink += 1
                    n_undecided += 1
                else:
                    part = name.split(".")[0]
                    ctx.violation(site, f"gradient_mismatch:{part}:{_kind(case)}",
                                  f"back-propagated d loss/d {name}[{j}] = {a!r} but central differences (h={ha:g},{hb:g}) give {ref!r} "
                                  f"(tolerance {tol:.3g}; one-sided slopes {lo_a!r}, {hi_a!r}; criterion={case['criterion']}, fm={case['fm']}, "
                                  f"cost={case['cost']}, H={case['H']}, model={case['model']}, paths={case['paths']})",
                                  observed=a, expected=ref, block=mini)
            else:
                # kink closer than the finest step: the derivative is not decided by differences; any valid
                # (sub)gradient lies between the one-sided slopes
                n_kink += 1
                n_undecided += 1
                lo, hi = _one_sided(f, w.params, name, j, LADDER[-1])
                extra_evals += 3
                slack = acc + 1e-4 * max(abs(lo), abs(hi)) + LADDER[-1] * 2e3 * g_scale
                if not (min(lo, hi) - slack <= a <= max(lo, hi) + slack):
                    ctx.violation(site, f"gradient_outside_one_sided_slopes:{_kind(case)}",
                                  f"non-smooth coordinate {name}[{j}]: back-propagated value {a!r} is not between the one-sided slopes {lo!r}, {hi!r}",
                                  observed=a, expected=[lo, hi], block=mini)
        # the fit pattern: after many gradient-free evaluations on the SAME hedger the back-propagated gradient of a
        # further evaluation is the same (no state of an earlier evaluation may leak into the graph)
        w.sim.calls = 0
        loss2 = hedger.compute_loss(w.derivative, hedge=w.hedge, n_paths=w.N, n_times=w.n_times)
        if not loss2.requires_grad:
            ctx.violation(site, "default_loss_has_no_graph:after_earlier_evaluations", "compute_loss() after gradient-free evaluations on the same hedger carries no graph",
                          observed=False, expected=True, block=mini)
        else:
            grads2 = _grad(loss2, tensors)
            g2 = []
            for (n_, p_), g_ in zip(w.params, grads2):
                g2 += [0.0] * p_.numel() if g_ is None else g_.reshape(-1).tolist()
            bad = [i for i in range(len(g2)) if not (g2[i] == g_ad[i] or (g2[i] != g2[i] and g_ad[i] != g_ad[i]))]
            if bad:
                i = bad[0]
                ctx.violation(site, f"gradient_depends_on_earlier_evaluations:{_kind(case)}",
                              f"the gradient of the same loss on the same paths changed after gradient-free evaluations on the same hedger "
                              f"({len(bad)} coordinates, first {coords[i][0]}[{coords[i][1]}])", observed=g2[i], expected=g_ad[i], block=mini)
        if unused:
            ctx.add("parameters_without_gradient_path", len(unused))
        n = len(coords)
        ctx.tick(n, nontrivial=sum(1 for x in d2 if abs(x) > 1e-9 * max(g_scale, 1e-300)))
        ctx.add("configurations", 1)
        if case["fm"] == "bsf":
            nz = sum(1 for (nm, _), x in zip(coords, d2) if nm.startswith("module_output.") and abs(x) > 1e-9 * max(g_scale, 1e-300))
            key = "bsf_n_paths_%s" % (w.N if w.N <= 2 else "all")
            ctx.add(key + "_configurations", 1)
            ctx.add(key + "_feature_coordinates_with_nonzero_derivative", nz)
        ctx.add("smooth_coordinates", n_smooth)
        ctx.add("nonsmooth_coordinates", n_kink)
        ctx.add("nonsmooth_undecided_coordinates", n_undecided)
        ctx.add("loss_evaluations", 4 * n + 2 + extra_evals)
        ctx.outcome((case["criterion"], case["fm"], round(f0, 9)))
        # the evaluation mode really is the one the configuration names
        if len(ctx.samples) < 4 and case["H"] == 2 and case["fm"] in ("prev", "mo_prev") and case["cost"] > 0:
            i = max(range(n), key=lambda q: abs(d2[q]))
            ctx.sample({"family": "grad_fd", "case": case, "loss": f0, "n_paths": w.N, "n_steps": w.T,
                        "coordinate": list(coords[i]), "backprop": g_ad[i], "central_h1": d1[i], "central_h2": d2[i],
                        "worst_relative_mismatch_in_config": worst})


def _kind(case):
    k = [case["criterion"], case["fm"]]
    if case["cost"] > 0:
        k.append("cost")
    if case.get("n_times", 1) > 1:
        k.append("ensemble")
    if case.get("mode", "train") == "eval":
        k.append("eval_mode")
    if case.get("history"):
        k.append("after_" + case["history"])
    if case["fm"] == "bsf":
        k.append(case["model"].split(":")[1] + ":" + case["slot"])
    if case.get("rows") is not None:
        k.append("n_paths=%s" % (len(case["rows"]) if len(case["rows"]) <= 2 else "k"))
    return "/".join(k)


def _one_sided(f, params, name, j, h):
    p = dict(params)[name]
    with torch.no_grad():
        flat = p.view(-1)
        x0 = flat[j].item()
        f0 = f()
        flat[j] = x0 + h
        fp = f()
        flat[j] = x0 - h
        fm = f()
        flat[j] = x0
    return (f0 - fm) / (x0 - (x0 - h)), (fp - f0) / ((x0 + h) - x0)


def _lazy_world(case):
    """Scripted market + a hedger whose model is a LAZY pfhedge MultiLayerPerceptron (first layer not materialised
    until the first forward).  Built under the seed of the case; materialisation draws the initial weights from
    torch's generator at the first call, so two worlds built and first-called under the same seed are identical."""
    import pfhedge.instruments as I
    from pfhedge.features import ModuleOutput
    from pfhedge.nn import Hedger, MultiLayerPerceptron
    f64 = torch.float64
    spot = path_set(case["paths"])
    N, T = spot.shape
    stock = market.primary("brownian", dtype=f64, cost=0.01, dt=DT, sigma=0.25)
    deriv = market.derivative("european", stock, T=T, dt=DT, strike=1.0)
    sim = market.ScriptedSimulate(stock, [{"spot": spot}], cycle=True)
    H = case["H"]
    hedge = None
    if H == 2:
        listed = I.EuropeanOption(stock, strike=1.1, maturity=(T - 1) * DT)
        listed.list(lambda d: torch.nn.functional.relu(d.ul().spot - 1.1) + 0.25 * d.ul().spot.square(), cost=0.02)
        hedge = [stock, listed]
    torch.manual_seed(18000 + case["k"])
    layers, units = case["arch"]
    kw = {} if case["arch"] == [4, 32] else {"n_layers": layers, "n_units": units}
    if case["arch"] != [4, 32] or H != 1:
        kw["out_features"] = H
    model = MultiLayerPerceptron(**kw) if kw else MultiLayerPerceptron()      # the library default when possible
    fm = case["fm"]
    mo = None
    if fm == "vec":
        inputs = ["log_moneyness", "time_to_maturity"]
    elif fm == "prev":
        inputs = ["log_moneyness", "time_to_maturity", "prev_hedge"]
    elif fm == "mo_lazy":
        mo = MultiLayerPerceptron(n_layers=1, n_units=3)          # a lazy network inside a ModuleOutput feature as well
        inputs = ["log_moneyness", "time_to_maturity", ModuleOutput(mo, ["log_moneyness", "prev_hedge"])]
    else:
        raise KeyError(fm)
    crit = make_criterion(case["criterion"])
    hedger = Hedger(model, inputs, criterion=crit)
    w = World()
    w.hedger, w.derivative, w.hedge, w.N, w.sim, w.model, w.mo_net, w.criterion = hedger, deriv, hedge, N, sim, model, mo, crit
    return w


@family
def lazy_first_call(ctx, block):
    """The FIRST call on a lazy model is the differentiated one: seed, build, compute_loss().backward().  Reference:
    the same seed and build, materialised by a gradient-free warm-up evaluation first (same draws, hence the same
    initial weights - checked), then the same loss differentiated; and a third world whose already materialised
    networks received those weights by load_state_dict.  All three gradients must be bitwise equal."""
    from pfhedge.nn import MultiLayerPerceptron
    d0 = torch.get_default_dtype()
    torch.set_default_dtype(torch.float64)
    try:
        for case in block["cases"]:
            mini = {"cases": [case]}
            site = "Hedger.compute_loss"

            def grads_of(w):
                w.sim.calls = 0
                loss = w.hedger.compute_loss(w.derivative, hedge=w.hedge, n_paths=w.N)
                if not loss.requires_grad:
                    return loss, None
                for _, p in _all_params(w):
                    if not isinstance(p, torch.nn.parameter.UninitializedParameter):
                        p.grad = None
                loss.backward()
                return loss, {n: (None if isinstance(p, torch.nn.parameter.UninitializedParameter) or p.grad is None else p.grad.clone())
                              for n, p in _all_params(w)}

            # A: first call differentiated
            wa = _lazy_world(case)
            lazy_before = any(isinstance(p, torch.nn.parameter.UninitializedParameter) for _, p in _all_params(wa))
            if not lazy_before:
                raise HarnessError("C14: the lazy model is not lazy")
            try:
                loss_a, ga = grads_of(wa)
            except RuntimeError as e:
                ctx.violation(site, f"lazy_first_call_raises:{case['fm']}", f"differentiating the first loss of a lazy model raised: {str(e)[:160]}",
                              observed=str(e)[:200], expected="a gradient", block=mini)
                ctx.tick(1)
                continue
            still_lazy = [n for n, p in _all_params(wa) if isinstance(p, torch.nn.parameter.UninitializedParameter)]
            if still_lazy:
                ctx.violation(site, f"lazy_first_call_not_materialised:{case['fm']}",
                              f"after the first differentiated loss the user's modules still hold un-materialised parameters {still_lazy}: "
                              f"the loss was not computed with them", observed=still_lazy, expected=[], block=mini)
                ctx.tick(1)
                continue
            # B: warm-up without gradients first
            wb = _lazy_world(case)
            wb.sim.calls = 0
            wb.hedger.compute_loss(wb.derivative, hedge=wb.hedge, n_paths=wb.N, enable_grad=False)
            if any(isinstance(p, torch.nn.parameter.UninitializedParameter) for _, p in _all_params(wb)):
                ctx.violation(site, f"lazy_first_call_not_materialised:{case['fm']}", "a gradient-free evaluation left the user's lazy modules un-materialised",
                              observed=True, expected=False, block=mini)
                ctx.tick(1)
                continue
            pa = {n: p.detach().clone() for n, p in _all_params(wa)}
            pb = {n: p.detach().clone() for n, p in _all_params(wb)}
            if set(pa) != set(pb) or any(not torch.equal(pa[n], pb[n]) for n in pa):
                raise HarnessError("C14: the two materialisation orders drew different initial weights")
            loss_b, gb = grads_of(wb)
            # C: materialised networks that received the weights
            wc = _lazy_world(dict(case))
            F_in = wb.model[0].in_features
            layers, units = case["arch"]
            mat = MultiLayerPerceptron(F_in, case["H"], n_layers=layers, n_units=units)
            mat.load_state_dict(wb.model.state_dict())
            wc.hedger.model = mat
            wc.model = mat
            if wc.mo_net is not None:
                m2 = MultiLayerPerceptron(wb.mo_net[0].in_features, 1, n_layers=1, n_units=3)
                m2.load_state_dict(wb.mo_net.state_dict())
                wc.hedger.inputs.features[-1].module = m2
                wc.mo_net = m2
            loss_c, gc = grads_of(wc)
            n = 0
            if ga is None:
                ctx.violation(site, f"lazy_first_call_no_graph:{case['fm']}", "the first loss of a lazy model carries no graph",
                              observed=False, expected=True, block=mini)
                ctx.tick(1)
                continue
            for ref_name, lref, gref in (("after a gradient-free warm-up", loss_b, gb), ("materialised copy", loss_c, gc)):
                if float(loss_a) != float(lref):
                    ctx.violation(site, "lazy_first_call_value", f"the first loss of a lazy model differs from the loss {ref_name}",
                                  observed=float(loss_a), expected=float(lref), block=mini)
                for name in ga:
                    n += 1
                    a, b = ga[name], gref[name]
                    same = (a is None and b is None) or (a is not None and b is not None and torch.equal(a, b))
                    if not same:
                        err = None if a is None or b is None else float((a - b).abs().max())
                        ctx.violation(site, f"lazy_first_call_gradient:{case['fm']}",
                                      f"gradient of the FIRST loss of a lazy model w.r.t. {name} differs from the gradient {ref_name} "
                                      f"(max abs difference {err}; criterion={case['criterion']}, H={case['H']}, arch={case['arch']})",
                                      observed=None if a is None else a.flatten()[:8], expected=None if b is None else b.flatten()[:8],
                                      block=mini)
                        break
            ctx.tick(n, nontrivial=n)
            ctx.add("lazy_first_call_worlds", 1)
            ctx.outcome(("lazy", case["fm"], case["criterion"], round(float(loss_a), 9)))
    finally:
        torch.set_default_dtype(d0)


@family
def no_graph(ctx, block):
    for case in block["cases"]:
        w = build_world(case)
        hedger = w.hedger
        mini = {"cases": [case]}
        n = 0
        for mode in ("train", "eval"):
            getattr(hedger, mode)()
            for outer in (True, False):
                with torch.set_grad_enabled(outer):
                    out = hedger.compute_loss(w.derivative, hedge=w.hedge, n_paths=w.N, enable_grad=False)
                    n += 1
                    if out.requires_grad or out.grad_fn is not None:
                        ctx.violation("Hedger.compute_loss", "enable_grad_false_carries_graph",
                                      f"compute_loss(enable_grad=False) returned requires_grad={out.requires_grad}, grad_fn={out.grad_fn}",
                                      observed=[bool(out.requires_grad), str(out.grad_fn)], expected=[False, "None"], block=mini)
                    out = hedger.compute_loss(w.derivative, hedge=w.hedge, n_paths=w.N, n_times=2, enable_grad=False)
                    n += 1
                    if out.requires_grad or out.grad_fn is not None:
                        ctx.violation("Hedger.compute_loss", "enable_grad_false_carries_graph",
                                      "compute_loss(n_times=2, enable_grad=False) carries a graph",
                                      observed=[bool(out.requires_grad), str(out.grad_fn)], expected=[False, "None"], block=mini)
                    if hasattr(w.criterion, "cash"):
                        for kw in ({}, {"n_times": 2}):
                            try:
                                pr = hedger.price(w.derivative, hedge=w.hedge, n_paths=w.N, **kw)
                            except ValueError as e:
                                # default HedgeLoss.cash() bisection: finding 8 of DESIGN section 7 (C06's business)
                                ctx.add("price_raised_value_error", 1)
                                continue
                            n += 1
                            if pr.requires_grad or pr.grad_fn is not None:
                                ctx.violation("Hedger.price", "default_price_carries_graph",
                                              f"price() returned requires_grad={pr.requires_grad}, grad_fn={pr.grad_fn}",
                                              observed=[bool(pr.requires_grad), str(pr.grad_fn)], expected=[False, "None"], block=mini)
                            ctx.outcome(("price", case["criterion"], round(float(pr), 9)))
            # the default loss does carry a graph, also as an ensemble mean, in either module mode
            for nt in (1, 2, 3):
                out = hedger.compute_loss(w.derivative, hedge=w.hedge, n_paths=w.N, n_times=nt)
                n += 1
                if not (out.requires_grad and out.grad_fn is not None):
                    ctx.violation("Hedger.compute_loss", "default_loss_has_no_graph" + ("" if nt == 1 else ":n_times>1"),
                                  f"compute_loss(n_times={nt}) returned a tensor without graph ({mode} mode)",
                                  observed=[bool(out.requires_grad), str(out.grad_fn)], expected="graph", block=mini)
        ctx.tick(n, nontrivial=n)


# --------------------------------------------------------------------------------------

def _cases(product, wseed, extra=None):
    keys = list(product)
    out = []
    for combo in itertools.product(*[product[k] for k in keys]):
        c = dict(zip(keys, combo))
        c["wseed"] = wseed
        if extra is not None:
            c["extra"] = extra
        if admissible(c):
            out.append(c)
    return out


BSF_MODELS = ("bsf:ww", "bsf:bs_step", "bsf:bs_prev")
BSF_SLOTS = ("vol", "ttm", "logm")


def _bsf_cases(ps, wseed, criteria, models, slots, calls, rows_list, costs=(0.01,)):
    """Built-in Black-Scholes-family model fed by a trainable feature: product criterion x model x slot x call/put x
    cost x explicit row subset of the complete path set ``ps`` (None = all rows)."""
    out = []
    for c in _cases({"criterion": list(criteria), "fm": ["bsf"], "cost": list(costs), "H": [1], "model": list(models),
                     "paths": [ps]}, wseed):
        for slot in slots:
            for call in calls:
                for rows in rows_list:
                    d = dict(c, slot=slot, call=call)
                    if rows is not None:
                        d["rows"] = list(rows)
                    out.append(d)
    return out


def _n_rows(ps):
    A, T, first = PATH_SETS[ps]
    return len(A) ** (T - (0 if first is None else 1))


def _workers():
    return int(os.environ.get("VERIF_WORKERS", 8))


def _chunks(xs, n):
    return [xs[i:i + n] for i in range(0, len(xs), n)]


def run(ctx):
    ctx.rule("grad_fd: full product criterion x feature-set/evaluation-mode x cost x H x model x path set; for each "
             "configuration EVERY scalar parameter is one evaluation (back-propagated value vs central differences at "
             "two step sizes); non-trivial = coordinates whose finite-difference derivative is non-zero.  no_graph: "
             "criterion x feature set x {train, eval} x outer grad mode x n_times for compute_loss(enable_grad=False) and price()")
    ctx.assume("float64; complete path sets over the listed alphabets, de-tied by a deterministic perturbation of relative size 1/64")
    ctx.assume("third derivatives of the loss along parameter axes are below 2e3*max(|grad|,|loss|) on the stencils (tanh networks, |weights|<1)")
    ctx.assume("at a kink (ES order change, |.| of L1/cost at 0) the gradient is not defined: such coordinates are counted, bounded by 1 % and "
               "only required to lie between the one-sided slopes")
    wseed = ctx.seed
    ctx.alphabet("criterion", list(CRITERIA) + (["isoelastic_log"] if ctx.thorough else []))
    ctx.alphabet("feature_mode", list(FMODES) + ["ww", "bsf"])
    ctx.alphabet("cost", [0.0, 0.01])
    ctx.alphabet("H", [1, 2])
    ctx.alphabet("n_times", [1, 2, 3])
    ctx.alphabet("module_mode", ["train", "eval"])
    ctx.alphabet("history_before_gradient", {"none": []} | HISTORIES)
    ctx.alphabet("model", list(MODELS) + list(BANDS) + ["ww:pre", "ww:mo", "mlp_frozen_first"] + list(BSF_MODELS))
    ctx.alphabet("bsf_trainable_feature_slot", list(BSF_SLOTS))
    ctx.alphabet("bsf_call", [True, False])
    ctx.alphabet("bsf_n_paths", [1, 2, "all"])
    extra = ctx.extra_symbol("spot", [0.7, 1.1, 1.25, 1.4])
    if ctx.quick:
        ctx.alphabet("path_sets", {k: PATH_SETS[k] for k in ("A3T4", "A2T5")})
        # Q1: the tanh network on the first path set: every criterion x feature mode x H with costs; cost-free for
        # the three basic feature modes
        q1 = _cases({"criterion": list(CRITERIA), "fm": list(FMODES), "cost": [0.01], "H": [1, 2], "model": ["mlp"],
                     "paths": ["A3T4"]}, wseed)
        q1 += _cases({"criterion": list(CRITERIA), "fm": ["vec", "prev", "mo_prev"], "cost": [0.0], "H": [1, 2], "model": ["mlp"],
                      "paths": ["A3T4"]}, wseed)
        # Q2: the linear model on the second path set (costs on)
        q2 = _cases({"criterion": list(CRITERIA), "fm": list(FMODES), "cost": [0.01], "H": [1, 2], "model": ["linear"],
                     "paths": ["A2T5"]}, wseed)
        # Q3: trainable no-transaction bands through Clamp / LeakyClamp modules and the functional forms
        q3 = _cases({"criterion": ["erm", "es", "mse"], "fm": ["prev"], "cost": [0.01], "H": [1, 2], "model": list(BANDS),
                     "paths": ["A2T5"]}, wseed)
        # Q4: ensemble means (a different scripted batch per simulate call) and the module-mode axis
        q4 = []
        for nt, mode, fms in ((2, "train", ["vec", "prev"]), (3, "train", ["prev"]), (1, "eval", ["vec", "prev"]), (2, "eval", ["prev"])):
            for c in _cases({"criterion": list(CRITERIA), "fm": fms, "cost": [0.01], "H": [1], "model": ["mlp"],
                             "paths": ["A2T5"]}, wseed):
                q4.append(dict(c, n_times=nt, mode=mode))
        # Q5: trainable layers in front of WhalleyWilmott (delta and gamma-dependent band width depend on parameters),
        # and a network whose FIRST parameters are frozen
        q5 = _cases({"criterion": list(CRITERIA), "fm": ["ww"], "cost": [0.01], "H": [1], "model": ["ww:pre", "ww:mo"],
                     "paths": ["A2T5"]}, wseed)
        q5 += _cases({"criterion": list(CRITERIA), "fm": ["vec", "prev"], "cost": [0.01], "H": [1], "model": ["mlp_frozen_first"],
                      "paths": ["A2T5"]}, wseed)
        q5 += [dict(c, mode="eval") for c in _cases({"criterion": ["oce"], "fm": ["ww", "prev"], "cost": [0.01], "H": [1],
                                                     "model": ["ww:mo", "mlp_frozen_first"], "paths": ["A2T5"]}, wseed)]
        # Q6: operation histories on the same hedger before the gradient is taken
        q6 = []
        for hist in HISTORIES:
            for c in _cases({"criterion": ["oce", "es"], "fm": ["vec", "mo_prev"], "cost": [0.01], "H": [1],
                             "model": ["mlp", "mlp_frozen_first"], "paths": ["A2T5"]}, wseed):
                q6.append(dict(c, history=hist))
        # Q7: one long series (T = 70 > 64 recurrent steps)
        q7 = _cases({"criterion": ["erm", "es"], "fm": ["prev", "mo_prev"], "cost": [0.01], "H": [1], "model": ["mlp"],
                     "paths": ["L70"]}, wseed)
        # Q8: the built-in BlackScholes / WhalleyWilmott models fed by a trainable ModuleOutput feature (the only
        # gradient path runs through the Black-Scholes formulas), batches of 1, 2 and all paths, call and put:
        # every single path and every pair of consecutive paths of the complete set with one criterion; every
        # criterion x slot on one single path, one pair and the complete set
        n8 = _n_rows("A2T5")
        singles = [[i] for i in range(n8)]
        few1, few2 = [[0], [11], [21], [n8 - 1]], [[0, 1], [10, 11], [20, 21], [n8 - 2, n8 - 1]]
        q8 = _bsf_cases("A2T5", wseed, ["erm"], ["bsf:ww"], ["vol"], [True, False], singles)
        q8 += _bsf_cases("A2T5", wseed, ["erm"], ["bsf:bs_step", "bsf:bs_prev"], ["vol"], [True, False], few1)
        q8 += _bsf_cases("A2T5", wseed, ["erm"], BSF_MODELS, ["vol"], [True, False], few2)
        q8 += _bsf_cases("A2T5", wseed, [c for c in CRITERIA if c != "erm"], ["bsf:ww"], ["vol"], [True, False], [[11], None])
        q8 += _bsf_cases("A2T5", wseed, ["erm", "es"], ["bsf:ww"], ["ttm", "logm"], [True, False], [[11]])
        q8 += _bsf_cases("A2T5", wseed, ["es"], ["bsf:bs_step", "bsf:bs_prev"], BSF_SLOTS, [True, False], [[11], None])
        # the trainable layers around WhalleyWilmott of Q5 on a single path as well
        q8 += [dict(c, rows=[11]) for c in _cases({"criterion": ["erm", "es"], "fm": ["ww"], "cost": [0.01], "H": [1],
                                                   "model": ["ww:pre", "ww:mo"], "paths": ["A2T5"]}, wseed)]
        q3 = q3 + q4 + q5 + q6 + q7 + q8
        for chunk in _chunks(q1 + q2 + q3, 16):
            ctx.run("grad_fd", {"cases": chunk})
        ng = _cases({"criterion": list(CRITERIA), "fm": ["vec", "prev", "mo_vec"], "cost": [0.01], "H": [1, 2],
                     "model": ["mlp"], "paths": ["A2T5"]}, wseed)
        ctx.run("no_graph", {"cases": ng})
        lz = [{"criterion": c, "fm": fm, "H": H, "k": wseed % 1000, "arch": arch, "paths": "A2T5"}
              for c in ("erm", "es", "oce", "mse") for fm in ("vec", "prev", "mo_lazy") for H in (1, 2)
              for arch in ([4, 32], [2, 4])]
        ctx.run("lazy_first_call", {"cases": lz})
    else:
        ctx.alphabet("path_sets", PATH_SETS)
        ctx.alphabet("extra_spot_symbol(A4T3)", extra)
        crits = list(CRITERIA) + ["isoelastic_log"]
        blocks = []
        for ps in PATH_SETS:
            for ws in (wseed, wseed + 1000):     # two generic parameter points per configuration
                cs = _cases({"criterion": crits, "fm": list(FMODES), "cost": [0.0, 0.01], "H": [1, 2],
                             "model": list(MODELS), "paths": [ps]}, ws, extra=extra if ps == "A4T3" else None)
                cs += _cases({"criterion": crits, "fm": ["prev"], "cost": [0.0, 0.01], "H": [1, 2],
                              "model": list(BANDS), "paths": [ps]}, ws, extra=extra if ps == "A4T3" else None)
                blocks += [{"cases": c} for c in _chunks(cs, 30)]
        for ps in PATH_SETS:
            cs = _cases({"criterion": crits, "fm": ["ww"], "cost": [0.01], "H": [1], "model": ["ww:pre", "ww:mo"], "paths": [ps]}, wseed)
            cs += _cases({"criterion": crits, "fm": list(FMODES), "cost": [0.0, 0.01], "H": [1, 2], "model": ["mlp_frozen_first"],
                          "paths": [ps]}, wseed)
            cs += [dict(c, mode="eval") for c in cs if c["criterion"] == "oce"]
            blocks += [{"cases": c} for c in _chunks(cs, 30)]
        cs = _cases({"criterion": crits, "fm": ["step", "prev", "mo_prev", "mo_free_prev"], "cost": [0.0, 0.01], "H": [1, 2],
                     "model": ["mlp", "linear"], "paths": ["L70"]}, wseed)
        blocks += [{"cases": c} for c in _chunks(cs, 8)]
        for ps in ("A3T4", "A2T6", "A5T3"):
            cs = []
            for hist in HISTORIES:
                for c in _cases({"criterion": crits, "fm": ["vec", "prev", "mo_vec", "mo_prev"], "cost": [0.01], "H": [1, 2],
                                 "model": ["mlp", "mlp_frozen_first", "linear"], "paths": [ps]}, wseed):
                    cs.append(dict(c, history=hist))
            blocks += [{"cases": c} for c in _chunks(cs, 30)]
        # ensemble means and module mode: full product with the feature modes on two path sets
        for ps in ("A3T4", "A2T6"):
            cs = []
            for nt, mode in ((2, "train"), (3, "train"), (1, "eval"), (2, "eval"), (3, "eval")):
                for c in _cases({"criterion": crits, "fm": list(FMODES), "cost": [0.01], "H": [1, 2], "model": ["mlp"],
                                 "paths": [ps]}, wseed):
                    cs.append(dict(c, n_times=nt, mode=mode))
            blocks += [{"cases": c} for c in _chunks(cs, 30)]
        # built-in BlackScholes / WhalleyWilmott models fed by a trainable feature; batches of 1, 2 and all paths
        n8 = _n_rows("A2T5")
        singles = [[i] for i in range(n8)]
        pairs = [[i, i + 1] for i in range(n8 - 1)]
        cs = _bsf_cases("A2T5", wseed, crits, ["bsf:ww"], ["vol"], [True, False], singles)
        cs += _bsf_cases("A2T5", wseed, ["erm"], BSF_MODELS, BSF_SLOTS, [True, False], singles)
        cs += _bsf_cases("A2T5", wseed, ["erm", "es"], BSF_MODELS, ["vol"], [True, False], pairs)
        cs += [dict(c, rows=r) for c in _cases({"criterion": ["erm", "es"], "fm": ["ww"], "cost": [0.01], "H": [1],
                                                "model": ["ww:pre", "ww:mo"], "paths": ["A2T5"]}, wseed) for r in singles]
        blocks += [{"cases": c} for c in _chunks(cs, 120)]
        for ps in ("A2T5", "A3T4", "A4T3"):
            cs = _bsf_cases(ps, wseed, crits, BSF_MODELS, BSF_SLOTS, [True, False], [None], costs=(0.0, 0.01))
            blocks += [{"cases": c} for c in _chunks(cs, 30)]
        ctx.run_parallel("grad_fd", blocks, workers=min(_workers(), len(blocks)))
        ng = _cases({"criterion": crits, "fm": list(FMODES), "cost": [0.0, 0.01], "H": [1, 2],
                     "model": list(MODELS), "paths": ["A3T4", "A2T6"]}, wseed)
        lz = [{"criterion": c, "fm": fm, "H": H, "k": (wseed + dk) % 100000, "arch": arch, "paths": ps}
              for c in CRITERIA if not c.startswith("isoelastic") for fm in ("vec", "prev", "mo_lazy") for H in (1, 2)
              for arch in ([4, 32], [2, 4], [1, 3]) for ps in ("A3T4", "A2T6") for dk in (0, 1, 2)]
        lzb = [{"cases": c} for c in _chunks(lz, 120)]
        ctx.run_parallel("lazy_first_call", lzb, workers=min(_workers(), len(lzb)))
        ngb = [{"cases": c} for c in _chunks(ng, 90)]
        ctx.run_parallel("no_graph", ngb, workers=min(_workers(), len(ngb)))
    for key in ("band_cells_clamp_active", "band_cells_clamp_inactive", "band_cells_inverted"):
        if not ctx.counters.get(key, 0):
            ctx.violation("C14.harness", "band_models_vacuous", f"no (path, step, instrument) cell with {key}: the band models do not exercise the clamp",
                          observed=0, expected="> 0", block={"cases": []}, family="grad_fd")
    n_s = ctx.counters.get("smooth_coordinates", 0)
    n_k = ctx.counters.get("nonsmooth_coordinates", 0)
    n_u = ctx.counters.get("nonsmooth_undecided_coordinates", 0)
    ctx.counters.setdefault("nonsmooth_coordinates", 0)
    ctx.counters.setdefault("nonsmooth_undecided_coordinates", 0)
    # coordinates with a kink inside the coarse stencil are decided on a finer pair (counted above); the ones a
    # kink closer than the finest step leaves undecided must stay below 1 %
    if n_u * 100 >= max(1, n_s + n_k):
        ctx.violation("C14.harness", "too_many_nonsmooth_coordinates",
                      f"{n_u} undecided / {n_k} non-smooth of {n_s + n_k} coordinates: the finite-difference oracle is not decisive",
                      observed=[n_u, n_k], expected="< 1 % undecided", block={"cases": []}, family="grad_fd")

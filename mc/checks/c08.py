"""C08 - Greeks are the derivatives of the price.  Engine: grid (functions) + grid over programs.

Families
  bs_greeks      every closed-form / autogreek-backed Greek of the 4 Black-Scholes products
                 (functional forms and modules) on the full product grid
                 (log-moneyness x maturity x volatility x running max x strike x call/put) in three
                 tensor layouts (flat, broadcast, 0-dim) and two dtypes; oracle = mpmath.diff of the
                 textbook closed-form price (models/bs_closed.py); the implementation's own price is
                 bound to that closed form at every grid point.
                 The same grid runs through user modules built directly on BSModuleMixin that define only ``price``
                 (the mixin's default Greeks differentiate self.price).  Optional diagnostic outside the claim
                 (VERIF_USER_SUBCLASS=1): subclasses of the 4 concrete modules overriding ``price`` / ``price`` + ``delta``.
  bs_bound       BlackScholes(derivative) modules reading (log-moneyness, max, maturity, volatility)
                 from a scripted derivative (all |A|^T paths), Greeks called without arguments.
  programs       pfhedge.autogreek.{delta,gamma,vega,theta} on ALL pricer programs of an expression
                 grammar up to a depth, each compiled with exactly the parameter names it uses, under
                 every caller parameterisation x strike representation; oracle = sympy derivatives of
                 the same tree + the re-parameterisation chain rule (models/expr_ref.py), and the
                 table of accepted caller/pricer name pairs.
  pricer_sequence consecutive autogreek calls (A, B, A) with different pricers that share module and qualified name
                 (all ``def pricer`` / all lambdas) but not their signature, incl. a defaulted ``strike=2.0``.
  model_check    the closed forms of models/bs_closed.py against the defining expectations
                 (quadrature): a failure is a harness error, not a violation.
"""
from __future__ import annotations

import itertools
import math
import os

import mpmath as mp
import torch

from mc.core.runner import HarnessError
from mc.models import bs_closed as B
from mc.models import expr_ref as E

FAMILIES = {}


def family(fn):
    FAMILIES[fn.__name__] = fn
    return fn


DT = {"float64": torch.float64, "float32": torch.float32}
GREEKS = ("delta", "gamma", "vega", "theta")
NEEDS_MAX = ("american_binary", "lookback")
CLASSES = {"european": "BSEuropeanOption", "european_binary": "BSEuropeanBinaryOption",
           "american_binary": "BSAmericanBinaryOption", "lookback": "BSLookbackOption"}

# alphabets of part (i) -------------------------------------------------------------------------
S_ALPHA = [-1.0, -0.5, -0.2, -0.05, 0.0, 0.05, 0.2, 0.5, 1.0]
S_QUICK = [-1.0, -0.2, -0.05, 0.0, 0.05, 0.2, 1.0]
T_ALPHA = [0.004, 0.08, 1.0, 5.0]
V_ALPHA = [0.01, 0.2, 0.7, 2.0]
# running maximum: offsets above the current log-moneyness and the two strike-crossing neighbours
M_ALPHA = [["off", 0.0], ["off", 0.05], ["off", 0.5], ["abs", -1e-3], ["abs", 1e-3]]
# strikes: representable in float32 (1.0, 2.5, 10.0) and not (0.1, 1.3) - see finding 13
K_QUICK = [2.5, 1.3]
V_QUICK = [0.01, 0.2, 2.0]
M_QUICK = [["off", 0.0], ["off", 0.05], ["abs", -1e-3], ["abs", 1e-3]]
K_THOROUGH = [0.1, 1.0, 1.3, 2.5, 10.0]
# 0-dim layout runs on this sub-product (every call is one point)
SCALAR_SUB = {"s": [-0.2, 0.0, 0.5, 1.0], "t": [0.08, 5.0], "v": [0.2, 2.0]}

# Which autogreek entry point a Greek is routed through (None: closed form).  Used ONLY to name the
# site / class of a violation that matches one of the two autogreek defect models below, never by
# the oracle.
ROUTE = {
    ("functional", "lookback", "delta"): "delta", ("functional", "lookback", "gamma"): "gamma",
    ("functional", "lookback", "vega"): "gamma", ("functional", "lookback", "theta"): "gamma",
    ("module", "lookback", "delta"): "delta", ("module", "lookback", "gamma"): "gamma",
    ("module", "lookback", "vega"): "vega", ("module", "lookback", "theta"): "theta",
    ("module", "american_binary", "gamma"): "gamma", ("module", "american_binary", "vega"): "vega",
    ("module", "american_binary", "theta"): "theta",
}


def f32_representable(x):
    return float(torch.tensor(float(x), dtype=torch.float32).item()) == float(x)


def f32_round(x):
    return float(torch.tensor(float(x), dtype=torch.float32).item())


# ------------------------------------------------------------------------------------------------
# model side
# ------------------------------------------------------------------------------------------------

_NORM = {}
# degree of homogeneity in (S, M, K) of price, delta, gamma, vega, theta: (vanilla & lookback, binaries)
_DEGREE = {"price": (1, 0), "delta": (0, -1), "gamma": (-1, -2), "vega": (1, 0), "theta": (1, 0)}
ALL = ("price",) + GREEKS


def model_unit(product, call, s, m, t, v, shift=None, only=ALL):
    """Closed-form price / mpmath.diff Greeks at unit strike: S = e^s (times K32/K when ``shift`` =
    (K32, K), the defect model of finding 13), M = e^m, K = 1.  Cached; shared by all strikes."""
    key = (product, call, s, m, t, v, shift)
    r = _NORM.get(key)
    if r is None:
        r = _NORM[key] = {}
    missing = [w for w in only if w not in r]
    if missing:
        S = mp.exp(mp.mpf(s))
        if shift is not None:
            S = S * mp.mpf(shift[0]) / mp.mpf(shift[1])
        M = mp.exp(mp.mpf(m))
        for w in missing:
            r[w] = B.price(product, S, M, 1, t, v, call) if w == "price" else B.greek(w, product, S, M, 1, t, v, call)
    return r


def model_point(product, call, s, m, t, v, K, shift=None, only=ALL):
    """The model at strike K: by dimensional analysis the prices are homogeneous of degree 1 (vanilla,
    lookback) or 0 (binaries) in (S, M, K), so G(S, M, K) = K^deg G(S/K, M/K, 1).  The homogeneity of
    models/bs_closed.py is itself verified in model_check."""
    r = model_unit(product, call, s, m, t, v, shift, only)
    col = 0 if product in ("european", "lookback") else 1
    Km = mp.mpf(K)
    return {w: r[w] * Km ** _DEGREE[w][col] for w in only}


def dmax(product, s, m, t, v):
    w = v * math.sqrt(t)
    d = abs(s) / w + w / 2
    if product in NEEDS_MAX:
        d = max(d, abs(s - m) / w + w / 2)
    return min(d, 40.0)


def tolerance(product, greek, s, m, t, v, K, expected, eps):
    """Derived, not tuned.  Every Greek is a combination c(d, 1/w, 1/S) n(d) + c'(..) N(d) of the
    normal density / distribution at d = (s or s-m)/w +- w/2, w = v sqrt(t).  The implementation
    receives floats; a relative rounding eps of s, m, t, v, K or of S = K e^s moves d by at most
    eps (1+|s|+|m|)/w, and the log-derivative of such a combination w.r.t. d is at most ~(1+|d|)
    (d/dd n(d) = -d n(d)); beyond |d| = 40 the density is below 1e-300 and the value is absolutely
    negligible.  So relative error <= c eps kappa with
        kappa = 1 + (1 + min(|d|, 40)) (1 + |s| + |m|) / w,             c = 32
    (measured on the unchanged tree: worst observed error / (eps kappa (|G| + unit)) ~ 0.3).
    The absolute floor is the same factor times the natural unit of the Greek
    (U/S, U/S^2, U, U with U = K for the vanilla/lookback prices, 1 for the binaries).
    float32 runs are compared with the model at the float64 grid point: rounding the inputs to float32
    is one more relative perturbation eps32 of (s, m, t, v), which kappa already accounts for."""
    w = v * math.sqrt(t)
    S = K * math.exp(s)
    U = K if product in ("european", "lookback") else 1.0
    unit = {"delta": U / S, "gamma": U / S ** 2, "vega": U, "theta": U}[greek]
    kappa = 1 + (1 + dmax(product, s, m, t, v)) * (1 + abs(s) + abs(m)) / w
    return 32 * eps * kappa * (abs(expected) + unit)


def price_tolerance(product, s, m, t, v, K, expected, eps):
    """Price: sums of terms of size <= S (1 + w + w|d|) + K + M with N()/n() accurate to a few ulp;
    inputs perturb d as above."""
    w = v * math.sqrt(t)
    U = K if product in ("european", "lookback") else 1.0
    size = U * (math.exp(s) + math.exp(m) + 1) * (1 + w * (1 + dmax(product, s, m, t, v)))
    kappa = 1 + (1 + abs(s) + abs(m)) / w
    return 32 * eps * kappa * (abs(expected) + size)


# ------------------------------------------------------------------------------------------------
# implementation side
# ------------------------------------------------------------------------------------------------

def call_entry(entry, product, what, call, strike, lm, mm, t, v, module=None):
    """``what`` in GREEKS + ('price',).  Returns the tensor the public entry point returns."""
    import pfhedge.nn.functional as F
    if entry == "functional":
        f = getattr(F, f"bs_{product}_{what}")
        if product == "european":
            if what == "price":
                return f(lm, t, v, strike=strike, call=call)
            if what == "delta":
                return f(lm, t, v, call=call)
            return f(lm, t, v, strike=strike)
        if product == "european_binary":
            if what == "price":
                return f(lm, t, v, call=call)
            return f(lm, t, v, call=call, strike=strike)
        if what == "price" and product == "american_binary":
            return f(lm, mm, t, v)
        return f(lm, mm, t, v, strike=strike)
    if entry in ("gfd_module", "gfd_functional"):
        # gamma from the DELTA formula: pfhedge.autogreek.gamma_from_delta differentiates the delta function
        import pfhedge.autogreek as autogreek
        if entry == "gfd_module":
            dfn = module.delta
        else:
            f = getattr(F, f"bs_{product}_delta")
            if product == "european":
                def dfn(log_moneyness, time_to_maturity, volatility):
                    return f(log_moneyness, time_to_maturity, volatility, call=call)
            elif product == "european_binary":
                def dfn(log_moneyness, time_to_maturity, volatility, strike):
                    return f(log_moneyness, time_to_maturity, volatility, call=call, strike=strike)
            else:
                def dfn(log_moneyness, max_log_moneyness, time_to_maturity, volatility, strike):
                    return f(log_moneyness, max_log_moneyness, time_to_maturity, volatility, strike=strike)
        kw = {"log_moneyness": lm, "time_to_maturity": t, "volatility": v, "strike": strike}
        if product in NEEDS_MAX:
            kw["max_log_moneyness"] = mm
        return autogreek.gamma_from_delta(dfn, **kw)
    fn = getattr(module, what)
    if product in NEEDS_MAX:
        return fn(log_moneyness=lm, max_log_moneyness=mm, time_to_maturity=t, volatility=v)
    return fn(log_moneyness=lm, time_to_maturity=t, volatility=v)


def make_module(product, call, K):
    import pfhedge.nn as nn
    cls = getattr(nn, CLASSES[product])
    if product in NEEDS_MAX:
        return cls(strike=K)
    return cls(call=call, strike=K)


def site_name(entry, product, what):
    if entry == "functional":
        return f"bs_{product}_{what}"
    if entry == "module":
        return f"{CLASSES[product]}.{what}"
    if entry == "gfd_module":
        return f"autogreek.gamma_from_delta({CLASSES[product]}.delta)"
    if entry == "gfd_functional":
        return f"autogreek.gamma_from_delta(bs_{product}_delta)"
    return f"{CLASSES[product]}[{entry}].{what}"


# Greeks that a Black-Scholes module of /repo builds from the module's OWN price (super().<greek>() =
# BSModuleMixin default = autogreek of self.price): a user subclass that overrides ``price`` inherits them and
# they must be the derivatives of the subclass's price.  The other Greeks of /repo are analytic forms that do
# not go through self.price (all four of BSEuropeanOption / BSEuropeanBinaryOption, the delta of
# BSAmericanBinaryOption and BSLookbackOption): a subclass overriding only ``price`` is not required to get
# consistent values for those, and they are skipped for subclasses.
# Subclasses of the CONCRETE library modules (overriding ``price`` / ``price`` and ``delta``) are an optional
# diagnostic OUTSIDE the claim: the property speaks of the library's own Black-Scholes modules, and a maintainer may
# legitimately switch e.g. BSAmericanBinaryOption.gamma to its analytic form, which only such a subclass could
# observe.  Off by default; VERIF_USER_SUBCLASS=1 turns the two kinds on.  (The module built directly on
# BSModuleMixin that defines only ``price`` stays in: the mixin documents that its default Greeks differentiate
# self.price.)
USER_SUBCLASS_WORLDS = os.environ.get("VERIF_USER_SUBCLASS") == "1"
FROM_SELF_PRICE = {"european": (), "european_binary": (), "american_binary": ("gamma", "vega", "theta"),
                   "lookback": ("gamma", "vega", "theta")}
PAYOUT = 250.0


def make_user_module(entry, product, call, K):
    """'subclass': overrides price (payout multiplier); 'subclass_delta': overrides price and delta;
    'mixin': a user module built directly on BSModuleMixin that only defines price (all four Greeks are the
    mixin defaults)."""
    import pfhedge.nn as nn
    import pfhedge.nn.functional as F
    from pfhedge.nn.modules.bs._base import BSModuleMixin
    base = getattr(nn, CLASSES[product])
    if entry == "mixin":
        if product in NEEDS_MAX:
            class UserModule(BSModuleMixin):
                def price(self, log_moneyness, max_log_moneyness, time_to_maturity, volatility):
                    f = getattr(F, f"bs_{product}_price")
                    if product == "american_binary":
                        return PAYOUT * f(log_moneyness, max_log_moneyness, time_to_maturity, volatility)
                    return PAYOUT * f(log_moneyness, max_log_moneyness, time_to_maturity, volatility, strike=K)
        else:
            class UserModule(BSModuleMixin):
                def price(self, log_moneyness, time_to_maturity, volatility):
                    if product == "european":
                        return PAYOUT * F.bs_european_price(log_moneyness, time_to_maturity, volatility, strike=K, call=call)
                    return PAYOUT * F.bs_european_binary_price(log_moneyness, time_to_maturity, volatility, call=call)
        return _WithStrike(UserModule(), K, product)

    # explicit signatures, as a user writes them (autogreek selects the arguments by the pricer's signature)
    if product in NEEDS_MAX:
        class Scaled(base):
            def price(self, log_moneyness=None, max_log_moneyness=None, time_to_maturity=None, volatility=None):
                return PAYOUT * super().price(log_moneyness, max_log_moneyness, time_to_maturity, volatility)

        class ScaledDelta(Scaled):
            def delta(self, log_moneyness=None, max_log_moneyness=None, time_to_maturity=None, volatility=None):
                return PAYOUT * super().delta(log_moneyness, max_log_moneyness, time_to_maturity, volatility)
    else:
        class Scaled(base):
            def price(self, log_moneyness=None, time_to_maturity=None, volatility=None):
                return PAYOUT * super().price(log_moneyness, time_to_maturity, volatility)

        class ScaledDelta(Scaled):
            def delta(self, log_moneyness=None, time_to_maturity=None, volatility=None):
                return PAYOUT * super().delta(log_moneyness, time_to_maturity, volatility)
    cls = ScaledDelta if entry == "subclass_delta" else Scaled
    return cls(strike=K) if product in NEEDS_MAX else cls(call=call, strike=K)


class _WithStrike:
    """The mixin defaults take the strike as a keyword of the Greek (it is a parameter of autogreek, not of
    the module): forward it so that call_entry can treat the user module like the built-in ones."""

    def __init__(self, module, K, product):
        self.module, self.K = module, K
        self.spot_greeks = ("delta", "gamma")

    def __getattr__(self, what):
        fn = getattr(self.module, what)
        if what in self.spot_greeks:
            return lambda **kw: fn(strike=self.K, **kw)
        return fn


def subgrids(block):
    """Yield (mspec, s_list, t_list, v_list): product sub-grids of the block."""
    if "points" in block:
        for p in block["points"]:
            s, m, t, v = p
            yield ["abs", m], [s], [t], [v]
        return
    g = block["grid"]
    mspecs = g["m"] if block["product"] in NEEDS_MAX else [["off", 0.0]]
    for kind, val in mspecs:
        s_list = [s for s in g["s"] if kind == "off" or s <= val]
        if s_list:
            yield [kind, val], s_list, g["t"], g["v"]


def _tensors(layout, mspec, s_list, t_list, v_list, dtype):
    ns, nt, nv = len(s_list), len(t_list), len(v_list)
    s = torch.tensor(s_list, dtype=torch.float64)
    t = torch.tensor(t_list, dtype=dtype)
    v = torch.tensor(v_list, dtype=dtype)
    kind, val = mspec
    m = s + val if kind == "off" else torch.full_like(s, val)   # float64 sum = the model's grid point
    s, m = s.to(dtype), m.to(dtype)
    if layout == "flat":
        shape = (ns, nt, nv)
        return (s[:, None, None].expand(shape).reshape(-1).clone(), m[:, None, None].expand(shape).reshape(-1).clone(),
                t[None, :, None].expand(shape).reshape(-1).clone(), v[None, None, :].expand(shape).reshape(-1).clone())
    if layout == "broadcast":
        mm = m[:, None, None].clone() if kind == "off" else torch.tensor(val, dtype=dtype)
        return s[:, None, None].clone(), mm, t[None, :, None].clone(), v[None, None, :].clone()
    raise KeyError(layout)


@family
def bs_greeks(ctx, block):
    product, call = block["product"], block["call"]
    entries = block.get("entries", ["functional", "module", "gfd_module", "gfd_functional"])
    layouts = block.get("layouts", ["flat", "broadcast", "scalar"])
    strike_kinds = block.get("strike_kinds", ["float", "tensor"])
    dtypes = block.get("dtypes", ["float64", "float32"])
    greeks = block.get("greeks", list(GREEKS))
    # ambient autograd mode (module Greeks must not depend on it) and argument aliasing (two parameters with
    # equal values passed as the same tensor object / as equal but distinct tensors)
    grad_modes = block.get("grad_modes", ["enable", "no_grad"])
    aliases = block.get("aliases", [None])
    if block.get("flat_points"):
        # the explicit points form ONE flat tensor (needed for aliasing: equal coordinates element by element)
        grids = [(None, [], [], [])]
        layouts = ["flat"]
    else:
        grids = subgrids(block)
    for mspec, s_list, t_list, v_list in grids:
        ns, nt, nv = len(s_list), len(t_list), len(v_list)
        if mspec is None:
            fpts = [tuple(p) for p in block["points"]]
            pts = [(i, 0, 0) for i in range(len(fpts))]
        else:
            pts = [(a, b, c) for a in range(ns) for b in range(nt) for c in range(nv)]
            fpts = [(s_list[a], (s_list[a] + mspec[1]) if mspec[0] == "off" else mspec[1], t_list[b], v_list[c])
                    for a, b, c in pts]
        for K in block["Ks"]:
            builtin = ("functional", "module", "gfd_module", "gfd_functional")
            modules = {e: (make_module(product, call, K) if e in builtin else make_user_module(e, product, call, K))
                       for e in entries}
            module = modules[entries[0]]
            model = [model_point(product, call, *fp, K) for fp in fpts]
            G = {"K": K, "k_rep": f32_representable(K), "module": module, "mspec": mspec, "s": s_list, "t": t_list,
                 "v": v_list, "pts": pts, "fpts": fpts, "model": model, "product": product, "call": call,
                 "E": {w: torch.tensor([float(r[w]) for r in model], dtype=torch.float64) for w in ALL},
                 "interesting": sum(1 for r in model if abs(r["gamma"]) > 1e-12)}
            for dname in dtypes:
                eps = torch.finfo(DT[dname]).eps
                G["TOL"] = {w: torch.tensor([(price_tolerance(product, *fp, K, float(r[w]), eps) if w == "price" else
                                              tolerance(product, w, *fp, K, float(r[w]), eps))
                                             for fp, r in zip(fpts, model)], dtype=torch.float64) for w in ALL}
                for entry in entries:
                    G["module"] = modules[entry]
                    G["scale"] = 1.0 if entry in builtin else PAYOUT
                    for sk in strike_kinds:
                        if sk == "tensor" and entry != "functional":
                            continue  # module strikes are python numbers (constructor argument)
                        for layout in layouts:
                            if dname == "float32" and layout != "flat":
                                continue
                            if layout == "scalar" and sk == "tensor":
                                continue
                            if layout == "scalar":
                                idx = [i for i, (a, b, c) in enumerate(pts)
                                       if "points" in block or (s_list[a] in SCALAR_SUB["s"] and t_list[b] in SCALAR_SUB["t"]
                                                                and v_list[c] in SCALAR_SUB["v"])]
                            else:
                                idx = list(range(len(pts)))
                            if not idx:
                                continue
                            for what in ["price"] + greeks:
                                if entry == "functional" and product == "european" and not call and what in ("gamma", "vega", "theta"):
                                    continue  # these functions have no call flag: same function as the call side
                                if what == "price" and (layout != "flat" or (sk == "tensor" and product != "european")):
                                    continue
                                if entry.startswith("gfd_") and (what != "gamma" or dname != "float64" or sk != "float"
                                                                 or layout == "broadcast"):
                                    continue
                                if entry in ("subclass", "subclass_delta") and what != "price" and \
                                        what not in FROM_SELF_PRICE[product] + (("delta",) if entry == "subclass_delta" else ()):
                                    ctx.info.setdefault("subclass_greeks_skipped_analytic_in_repo", [])
                                    tag = f"{CLASSES[product]}.{what}"
                                    if tag not in ctx.info["subclass_greeks_skipped_analytic_in_repo"]:
                                        ctx.info["subclass_greeks_skipped_analytic_in_repo"].append(tag)
                                    continue
                                for gmode, alias in itertools.product(grad_modes, aliases):
                                    if gmode == "no_grad" and not (entry not in ("functional", "mixin", "gfd_module", "gfd_functional")
                                                                   and layout == "flat"
                                                                   and dname == "float64" and what != "price"):
                                        continue  # the module contract; bare functions are not required to enable grad
                                    if alias is not None and (what == "price" or layout != "flat"
                                                              or (alias[0][1] == "max_log_moneyness" and product not in NEEDS_MAX)):
                                        continue
                                    _one(ctx, G, entry, sk, layout, dname, what, idx, gmode, alias)


ARGS = ("log_moneyness", "max_log_moneyness", "time_to_maturity", "volatility")


def _one(ctx, G, entry, sk, layout, dname, what, idx, gmode="enable", alias=None):
    dtype = DT[dname]
    product, call, K, mspec = G["product"], G["call"], G["K"], G["mspec"]
    s_list, t_list, v_list, pts, fpts = G["s"], G["t"], G["v"], G["pts"], G["fpts"]
    ns, nt, nv = len(s_list), len(t_list), len(v_list)
    site = site_name(entry, product, what)
    route = ROUTE.get((entry, product, what))
    strike = K if sk == "float" else torch.tensor(K, dtype=torch.float64).to(dtype)
    E, TOL = G["E"][what] * G.get("scale", 1.0), G["TOL"][what] * G.get("scale", 1.0)
    common = {"product": product, "call": call, "Ks": [K], "entries": [entry], "strike_kinds": [sk], "dtypes": [dname],
              "greeks": [what] if what != "price" else [], "grad_modes": [gmode], "aliases": [alias]}
    how = ("" if gmode == "enable" else ", inside torch.no_grad()") + \
          ("" if alias is None else f", {alias[0][1]} {'IS' if alias[1] == 'same' else 'equal to (distinct tensor)'} {alias[0][0]}")
    ctxmgr = torch.no_grad if gmode == "no_grad" else torch.enable_grad

    def mini(i):
        return dict(common, points=[list(fpts[i])], layouts=["flat" if layout == "flat" else "scalar"],
                    **({"flat_points": True} if alias is not None else {}))

    def mini_grid():
        if mspec is None:
            return dict(common, points=[list(fp) for fp in fpts], flat_points=True)
        return dict(common, grid={"s": s_list, "t": t_list, "v": v_list, "m": [mspec]}, layouts=[layout])

    n = len(pts)
    obs = torch.full((n,), float("nan"), dtype=torch.float64)
    o = None
    if layout == "scalar":
        for i in idx:
            s, m, t, v = fpts[i]
            with ctxmgr():
                o1 = call_entry(entry, product, what, call, strike, torch.tensor(s, dtype=dtype), torch.tensor(m, dtype=dtype),
                                torch.tensor(t, dtype=dtype), torch.tensor(v, dtype=dtype), G["module"])
            if tuple(o1.shape) != () or o1.dtype != dtype:
                ctx.violation(site, "shape_or_dtype", f"0-dim inputs gave shape {tuple(o1.shape)} dtype {o1.dtype}",
                              observed=[list(o1.shape), str(o1.dtype)], expected=[[], str(dtype)], block=mini(i))
                return
            obs[i] = float(o1)
    else:
        if mspec is None:
            args = [torch.tensor([fp[k] for fp in fpts], dtype=dtype) for k in range(4)]
        else:
            args = list(_tensors(layout, mspec, s_list, t_list, v_list, dtype))
        if alias is not None:
            ia, ib = ARGS.index(alias[0][0]), ARGS.index(alias[0][1])
            if not torch.equal(args[ia], args[ib]):
                raise HarnessError(f"alias block with unequal {alias[0]} coordinates")
            args[ib] = args[ia] if alias[1] == "same" else args[ia].clone()
        lm, mm, t, v = args
        with ctxmgr():
            o = call_entry(entry, product, what, call, strike, lm, mm, t, v, G["module"]).detach()
        want_shape = (n,) if layout == "flat" else (ns, nt, nv)
        if o.dtype != dtype:
            ctx.violation(site, "dtype", f"{dname} inputs gave {o.dtype}", observed=str(o.dtype), expected=str(dtype),
                          block=mini_grid())
            return
        if tuple(o.shape) != want_shape:
            cls = "shape"
            if layout == "broadcast" and route is not None and what != "price":
                cls = _broadcast_class(G, what, route, entry, o, sk)
            ctx.tick(len(idx))
            ctx.violation(f"autogreek.{route}" if cls == "broadcast_inputs_summed" else site, cls,
                          f"{site}: inputs of shapes ({ns},1,1),(1,{nt},1),(1,1,{nv}) (the price has shape "
                          f"{list(want_shape)}) gave shape {list(o.shape)}",
                          observed=list(o.shape), expected=list(want_shape), block=mini_grid())
            return
        obs = o.reshape(-1).to(torch.float64)
    sel = torch.tensor(idx, dtype=torch.long)
    ok = (obs[sel] - E[sel]).abs() <= TOL[sel]
    bad = sel[~ok].tolist()
    if bad:
        bclass = None
        if layout == "broadcast" and route is not None and what != "price":
            bclass = _broadcast_class(G, what, route, entry, o, sk)
        for i in bad:
            got, e, tol = float(obs[i]), float(E[i]), float(TOL[i])
            cls, st = "value", site
            if got != got:
                cls = "nan"
            elif what == "price":
                cls = "price_not_closed_form"
            elif bclass == "broadcast_inputs_summed":
                cls, st = bclass, f"autogreek.{route}"
            elif sk == "float" and not G["k_rep"] and dname == "float64" and route in ("delta", "gamma") \
                    and _matches_strike_rounding(product, call, entry, what, fpts[i], K, got, tol):
                cls, st = "strike_float32_rounding", f"autogreek.{route}"
            elif gmode == "no_grad" and got == 0.0:
                cls = "zero_inside_no_grad"
            elif alias is not None and alias[1] == "same":
                cls = "aliased_arguments"
            s, m, t, v = fpts[i]
            ctx.violation(st, cls,
                          f"{site}(s={s}, m={m}, t={t}, v={v}, K={K!r} as {sk}, call={call}, {dname}, {layout}{how}) = "
                          f"{got!r}, derivative of the price = {e!r} (|diff| {abs(got - e):.3e} > tol {tol:.3e})",
                          observed=got, expected=e,
                          block=mini_grid() if cls == "broadcast_inputs_summed" else mini(i))
    ctx.tick(len(idx), nontrivial=0 if what == "price" else min(G["interesting"], len(idx)))
    if what != "price":
        j = idx[len(idx) // 2]
        x = float(obs[j])
        ctx.outcome((product, what, K, round(x, 9) if x == x else "nan"))
    if what == "gamma" and layout == "flat" and dname == "float64" and len(ctx.samples) < 4 and len(idx) > 3 \
            and entry == "module" and not any(s_.get("entry") == site for s_ in ctx.samples):
        j = idx[(len(idx) * 2) // 5]
        ctx.sample({"family": "bs_greeks", "entry": site, "strike": [K, sk], "call": call,
                    "point(s,m,t,v)": list(fpts[j]), "observed": float(obs[j]), "d2price/dS2 (mpmath)": float(E[j])})


def _matches_strike_rounding(product, call, entry, what, fp, K, got, tol):
    """Defect model of finding 13: parse_spot multiplies by float32(K), so the price is differentiated
    at S' = S * K32/K (the strike itself is still K).  Functional vega/theta of the lookback are then
    obtained from that gamma by the gamma relations at the true S."""
    s, m, t, v = fp
    shift = (f32_round(K), K)
    if entry == "functional" and product == "lookback" and what in ("vega", "theta"):
        g = model_point(product, call, s, m, t, v, K, shift, only=("gamma",))["gamma"]
        S = mp.mpf(K) * mp.exp(mp.mpf(s))
        pred = g * mp.mpf(v) * S * S * mp.mpf(t) if what == "vega" else -g * mp.mpf(v) ** 2 * S * S / 2
    else:
        pred = model_point(product, call, s, m, t, v, K, shift, only=(what,))[what]
    return abs(got - float(pred)) <= tol


def _broadcast_class(G, what, route, entry, o, sk):
    """Defect model: torch.autograd.grad(price, x, ones_like(price)) returns d(sum of all prices)/dx in
    the shape of x, i.e. the Greek summed over the axes along which x was broadcast.  (With a python-float
    strike that float32 cannot represent, finding 13 may ride on top: the summands are then the Greeks at
    the shifted spot - both variants are tried, so the classification does not depend on whether finding 13
    is still present in the tree.)"""
    ns, nt, nv = len(G["s"]), len(G["t"]), len(G["v"])
    variants = [G["E"][route].reshape(ns, nt, nv)]
    if sk == "float" and not G["k_rep"] and route in ("delta", "gamma"):
        shift = (f32_round(G["K"]), G["K"])
        variants.append(torch.tensor([float(model_point(G["product"], G["call"], *fp, G["K"], shift, only=(route,))[route])
                                      for fp in G["fpts"]], dtype=torch.float64).reshape(ns, nt, nv))
    T3 = G["TOL"][route].reshape(ns, nt, nv)
    axes = {"delta": (1, 2), "gamma": (1, 2), "vega": (0, 1), "theta": (0, 2)}[route]
    o = o.to(torch.float64)
    verdict = "value"
    for E3 in variants:
        pred = E3.sum(axes, keepdim=True)
        slack = T3.sum(axes, keepdim=True) * 4 + 1e-300
        if entry == "functional" and G["product"] == "lookback" and what in ("vega", "theta"):
            S = (torch.tensor(G["s"], dtype=torch.float64).exp() * G["K"])[:, None, None]
            t = torch.tensor(G["t"], dtype=torch.float64)[None, :, None]
            v = torch.tensor(G["v"], dtype=torch.float64)[None, None, :]
            fac = v * S * S * t if what == "vega" else -v * v * S * S / 2
            pred = pred * fac
            slack = slack * fac.abs() + 1e-300
        if tuple(o.shape) != tuple(pred.shape):
            return "shape"
        if bool(((o - pred).abs() <= slack).all()):
            verdict = "broadcast_inputs_summed"
    return verdict


# ------------------------------------------------------------------------------------------------
# modules bound to a derivative (from_derivative / BlackScholes(derivative)); arguments read from buffers
# ------------------------------------------------------------------------------------------------

@family
def bs_bound(ctx, block):
    from mc.core import market
    from mc.core.explore import all_paths
    from pfhedge.nn import BlackScholes
    product, call, K = block["product"], block["call"], block["K"]
    T, A, dt, sigma = block["T"], block["A"], block["dt"], block["sigma"]
    spot = all_paths(A, T, dtype=torch.float64)
    if block.get("rows") is not None:
        spot = spot[block["rows"]]
    stock = market.primary("brownian", dtype=torch.float64, dt=dt, sigma=sigma)
    market.set_buffers(stock, spot=spot)
    kw = {"strike": K}
    if product in ("european", "european_binary"):
        kw["call"] = call
    deriv = market.derivative(product, stock, T=T, **kw)
    module = BlackScholes(deriv)
    k_rep = f32_representable(K)
    N = spot.size(0)
    lm = deriv.log_moneyness()
    t = deriv.time_to_maturity()
    mm = deriv.max_log_moneyness() if product in NEEDS_MAX else lm
    # which arguments the caller gives explicitly (the rest is read from the derivative's buffers):
    #   none            everything from the buffers
    #   lm+t            log_moneyness and time_to_maturity as full-shape tensors
    #   scalars,max     0-dim log_moneyness / time_to_maturity / volatility, the running maximum (N, T) from the buffer
    givens = block.get("given", ["none", "lm+t"] + (["scalars,max"] if product in NEEDS_MAX else []))
    s0, t0 = float(lm.min()) - 0.05, 0.5
    for what, gmode, given in itertools.product(block.get("greeks", list(GREEKS)), block.get("grad_modes", ["enable", "no_grad"]), givens):
        if given != "none" and gmode == "no_grad":
            continue
        site = f"BlackScholes({CLASSES[product][2:]}).{what}"
        if given == "none":
            kwargs = {}
        elif given == "lm+t":
            kwargs = {"log_moneyness": lm.clone(), "time_to_maturity": t.clone()}
        else:
            kwargs = {"log_moneyness": torch.tensor(s0, dtype=torch.float64), "time_to_maturity": torch.tensor(t0, dtype=torch.float64),
                      "volatility": torch.tensor(float(sigma), dtype=torch.float64)}
        with (torch.no_grad if gmode == "no_grad" else torch.enable_grad)():
            o = getattr(module, what)(**kwargs).detach()
        if tuple(o.shape) != (N, T):
            b = dict(block, greeks=[what], grad_modes=[gmode], given=[given])
            ctx.violation(site, "shape", f"{site}(arguments given: {given}): shape {list(o.shape)} != {[N, T]} (the shape of the "
                          f"derivative's buffers the other arguments are read from)", observed=list(o.shape), expected=[N, T], block=b)
            continue
        route = ROUTE.get(("module", product, what))
        nontriv = 0
        for i in range(N):
            for j in range(T if given == "scalars,max" else T - 1):  # buffer time_to_maturity = 0 in the last column: outside the open domain
                if given == "scalars,max":
                    fp = (s0, float(mm[i, j]), t0, float(sigma))
                else:
                    fp = (float(lm[i, j]), float(mm[i, j]), float(t[i, j]), float(sigma))
                r = model_point(product, call, *fp, K)
                e = float(r[what])
                tol = tolerance(product, what, *fp, K, e, torch.finfo(torch.float64).eps)
                got = float(o[i, j])
                nontriv += abs(e) > 1e-12
                if got != got or abs(got - e) > tol:
                    cls, st = ("nan" if got != got else "value"), site
                    if cls == "value" and gmode == "no_grad" and got == 0.0:
                        cls = "zero_inside_no_grad"
                    if cls == "value" and not k_rep and route in ("delta", "gamma") and \
                            _matches_strike_rounding(product, call, "module", what, fp, K, got, tol):
                        cls, st = "strike_float32_rounding", f"autogreek.{route}"
                    b = dict(block)
                    b["rows"] = [block["rows"][i] if block.get("rows") is not None else i]
                    b["greeks"] = [what]
                    b["grad_modes"] = [gmode]
                    b["given"] = [given]
                    ctx.violation(st, cls, f"{site}(given: {given}){' inside torch.no_grad()' if gmode == 'no_grad' else ''} at path {spot[i].tolist()} step {j} (s={fp[0]}, m={fp[1]}, t={fp[2]}, "
                                  f"v={sigma}, K={K}) = {got!r}, derivative of the price = {e!r}",
                                  observed=got, expected=e, block=b)
        ctx.tick(N * (T - 1), nontrivial=nontriv)
        ctx.outcome((product, what, "bound", round(float(o[N // 2, 0]), 9)))


# ------------------------------------------------------------------------------------------------
# model-level validation (closed form == expectation); harness precondition
# ------------------------------------------------------------------------------------------------

@family
def model_check(ctx, block):
    n = 0
    for (s, m, t, v, K) in block["points"]:
        S, M = K * math.exp(s), K * math.exp(m)
        pairs = [B.validate_european(S, K, t, v, True), B.validate_european(S, K, t, v, False),
                 B.validate_european_binary(S, K, t, v, True), B.validate_european_binary(S, K, t, v, False),
                 B.validate_lookback(S, M, K, t, v)]
        # one-touch: hit probability formula vs the lookback identity d/dK E[(max-K)^+] = -P(max >= K)
        if M < K:
            dk = mp.diff(lambda k: B.lookback(mp.mpf(S), mp.mpf(M), k, mp.mpf(t), mp.mpf(v)), mp.mpf(K))
            pairs.append((-dk, B.american_binary(mp.mpf(S), mp.mpf(M), mp.mpf(K), mp.mpf(t), mp.mpf(v))))
        # homogeneity used by model_point: G(S, M, K) = K^deg G(S/K, M/K, 1)
        for product in B.PRODUCTS:
            col = 0 if product in ("european", "lookback") else 1
            full = B.price_and_greeks(product, S, M, K, t, v, True)
            unit = B.price_and_greeks(product, mp.mpf(S) / mp.mpf(K), mp.mpf(M) / mp.mpf(K), 1, t, v, True)
            for w in ALL:
                pairs.append((full[w], unit[w] * mp.mpf(K) ** _DEGREE[w][col]))
        for a, b in pairs:
            n += 1
            if abs(a - b) > mp.mpf(10) ** -18 * (1 + abs(b)):
                raise HarnessError(f"bs_closed disagrees with the defining expectation at {(s, m, t, v, K)}: {a} vs {b}")
    ctx.add("model_points_validated_by_quadrature", n)


# ------------------------------------------------------------------------------------------------
# part (ii): autogreek over pricer programs
# ------------------------------------------------------------------------------------------------

P_ALPHA = {
    "spot": [0.7, 1.1, 1.9], "moneyness": [0.7, 1.1, 1.9], "log_moneyness": [-0.3, 0.1, 0.6],
    "volatility": [0.15, 0.4, 1.2], "variance": [0.02, 0.16, 1.5], "time_to_maturity": [0.1, 1.0, 2.5],
}
# strike representations: python floats representable / not representable in float32, a float64
# tensor of the non-representable value, a python int
STRIKES = [["float", 2.5], ["float", 1.3], ["tensor", 1.3], ["int", 2]]
_MODELS = {}


def _model(tree):
    key = repr(tree)
    if key not in _MODELS:
        _MODELS[key] = E.Model(tree)
    return _MODELS[key]


def _tuplify(t):
    return tuple(_tuplify(a) if isinstance(a, (list, tuple)) else a for a in t)


def _strike_obj(kind, val):
    if kind == "float":
        return float(val)
    if kind == "int":
        return int(val)
    return torch.tensor(float(val), dtype=torch.float64)


def program_list(block):
    if "trees" in block:
        return [_tuplify(t) for t in block["trees"]]
    ps = all_programs(block["depth"], tuple(block["leaves"]))
    lo, hi = block.get("slice", [0, len(ps)])
    return ps[lo:hi]


def all_programs(depth, leaves):
    """Programs that are pricers: they use at least one tensor argument (spot-like, volatility-like or
    time); a function of the strike and constants alone returns a python number, not a price tensor."""
    return [p for p in E.programs(depth, tuple(leaves)) if E.leaves_used(p) & {"X", "V", "T"}]


_MARGS = {}
_TENSORS = {}


def _mpf(x):
    return mp.mpf(x)


def _margs(greek, xname, vname, xcaller, vol_form, K, p, s_shift):
    """(xarg, yarg, T) of models/expr_ref.Model.greek for one case (cached)."""
    xv, vv, T = p
    spotlike = greek in ("delta", "gamma")
    key = (spotlike, xname if spotlike else None, vname, xcaller if spotlike else None, vol_form, K if spotlike else None,
           xv, vv, T, s_shift)
    r = _MARGS.get(key)
    if r is None:
        sig = mp.mpf(vv) if vol_form == "volatility" else mp.sqrt(mp.mpf(vv))
        yarg = E.reparam_vol(vname, sig)
        if spotlike:
            if xcaller == "spot":
                S = mp.mpf(xv)
            elif xcaller == "moneyness":
                S = mp.mpf(xv) * mp.mpf(K)
            else:
                S = mp.exp(mp.mpf(xv)) * mp.mpf(K)
            if s_shift is not None:
                S = S * mp.mpf(s_shift[0]) / mp.mpf(s_shift[1])
            xarg = E.reparam_spot(xname, S, K)
        else:
            # vega / theta pass the spot-like argument through by name
            xarg = (mp.mpf(xv), mp.mpf(0), mp.mpf(0))
        r = _MARGS[key] = (xarg, yarg, mp.mpf(T))
    return r


@family
def programs(ctx, block):
    import pfhedge.autogreek as autogreek
    trees = program_list(block)
    alpha = dict(P_ALPHA)
    alpha.update(block.get("alpha", {}))
    strikes = block.get("strikes", STRIKES)
    greeks = block.get("greeks", list(GREEKS))
    layouts = block.get("layouts", ["flat"])
    eps = torch.finfo(torch.float64).eps
    for tree in trees:
        used = E.leaves_used(tree)
        model = _model(tree)
        xnames = block.get("xnames", list(E.XNAMES)) if "X" in used else [None]
        vnames = block.get("vnames", list(E.VNAMES)) if "V" in used else [None]
        for xname, vname in itertools.product(xnames, vnames):
            pricer = E.compile_pricer(tree, xname or "spot", vname or "volatility")
            src = E.source(tree, xname or "spot", vname or "volatility")
            for greek in greeks:
                fn = getattr(autogreek, greek)
                for spot_form in block.get("spot_forms", list(E.SPOT_FORMS) + list(E.INSUFFICIENT_FORMS)):
                    names = E.caller_names(spot_form)
                    sks = strikes if "strike" in names else [[None, None]]
                    for (skind, sval), vol_form in itertools.product(sks, block.get("vol_forms", list(E.VNAMES))):
                        for layout in layouts:
                            for alias in _alias_options(block, greek, used, names, skind, vol_form):
                                _program_case(ctx, block, fn, greek, tree, model, pricer, src, xname, vname, spot_form,
                                              names, skind, sval, vol_form, layout, alpha, eps, alias)


#: pricers with pairwise different signatures, written the way a user would (all called ``pricer`` / all lambdas)
SEQ_PRICERS = [
    {"tree": ["X"], "xname": "spot", "vname": None},
    {"tree": ["mul", ["X"], ["V"]], "xname": "spot", "vname": "volatility"},
    {"tree": ["exp", ["X"]], "xname": "moneyness", "vname": None},
    {"tree": ["div", ["X"], ["T"]], "xname": "log_moneyness", "vname": None},
    {"tree": ["div", ["X"], ["K"]], "xname": "spot", "vname": None},
    {"tree": ["div", ["X"], ["K"]], "xname": "spot", "vname": None, "defaults": {"strike": 2.0}},
    {"tree": ["mul", ["V"], ["T"]], "xname": None, "vname": "volatility"},
    {"tree": ["sqrt", ["V"]], "xname": None, "vname": "variance"},
    {"tree": ["add", ["X"], ["V"]], "xname": "moneyness", "vname": "variance"},
]


@family
def pricer_sequence(ctx, block):
    """Consecutive autogreek calls in one process with DIFFERENT pricers that share __module__ and
    __qualname__ (functions all named ``pricer`` as in a user's script, or lambdas) but have different
    signatures (incl. one with a defaulted ``strike=2.0``): every call must see its own pricer's
    parameters.  The reference model is per call; nothing carries over."""
    import pfhedge.autogreek as autogreek
    steps = block["steps"]
    eps = torch.finfo(torch.float64).eps
    alpha = dict(P_ALPHA)
    spot_form = block["spot_form"]
    names = E.caller_names(spot_form)
    skind, sval = block["strike"]
    for k, st in enumerate(steps):
        tree = _tuplify(st["tree"])
        model = _model(tree)
        xname, vname = st["xname"], st["vname"]
        pricer = E.compile_pricer(tree, xname or "spot", vname or "volatility", st.get("style", "def"), st.get("defaults"))
        src = E.pricer_source(tree, xname or "spot", vname or "volatility", st.get("style", "def"), st.get("defaults")).strip()
        for greek in block["greeks"]:
            _program_case(ctx, {}, getattr(autogreek, greek), greek, tree, model, pricer,
                          f"[call {k + 1} of {len(steps)} with same-named pricers] {src!r}", xname, vname, spot_form, names,
                          skind, sval, vname or "volatility", "flat", alpha, eps, None,
                          replay=dict(block, steps=steps[:k + 1], greeks=[greek]))
    ctx.add("pricer_sequences", 1)


ALIAS_COMMON = [0.4, 1.1, 1.9]   # values every tensor argument (spot-like, volatility-like, time, strike) may take


def _alias_options(block, greek, used, names, skind, vol_form):
    """[None] for an ordinary block.  For an aliasing block: every (differentiated argument, other tensor
    argument the pricer also uses, mode) - the two are given equal values and passed as the same tensor
    object ('same') or as equal but distinct tensors ('equal'); the Greek is the partial derivative in both."""
    if "alias_cases" in block:
        return block["alias_cases"]
    if not block.get("aliasing"):
        return [None]
    leaf = {names[0]: "X", vol_form: "V", "time_to_maturity": "T"}
    d = {"delta": names[0], "gamma": names[0], "vega": vol_form, "theta": "time_to_maturity"}[greek]
    if skind == "eq_spot" and d == names[0] == "spot":
        leaf["strike"] = "K"    # spot=x, strike=x (at the money): only the spot can alias the strike tensor
    out = []
    for o in leaf:
        if o != d and leaf[d] in used and leaf[o] in used:
            out += [[d, o, "same"], [d, o, "equal"]]
    return out


def _program_case(ctx, block, fn, greek, tree, model, pricer, src, xname, vname, spot_form, names, skind, sval,
                  vol_form, layout, alpha, eps, alias=None, replay=None):
    site = f"autogreek.{greek}"
    xcaller = names[0]
    coord = {xcaller: 0, vol_form: 1, "time_to_maturity": 2}
    pts = block.get("points")
    if pts is None:
        axes = [alpha[xcaller], alpha[vol_form], alpha["time_to_maturity"]]
        if alias is not None and alias[1] != "strike":
            # the two aliased arguments take equal values from the common alphabet
            i, j = coord[alias[0]], coord[alias[1]]
            k = 3 - i - j
            pts = []
            for c, w in itertools.product(ALIAS_COMMON, axes[k]):
                q = [None, None, None]
                q[i] = q[j] = c
                q[k] = w
                pts.append(tuple(q))
        else:
            pts = list(itertools.product(*axes))
    pts = [tuple(p) for p in pts]
    verdict = E.accepted(greek, tree, xname, vname, spot_form, vol_form)
    if alias is not None and verdict != "ok":
        return

    def Kof(p):     # the strike of a case: a number, or (strike tensor equal to the spot tensor) the spot itself
        return None if skind is None else (float(p[0]) if skind == "eq_spot" else float(sval))

    def Kmof(p):
        k = Kof(p)
        return None if k is None else mp.mpf(k)

    fam = None if replay is None else "pricer_sequence"

    def mini(p=None):
        if replay is not None:      # the violation may depend on the calls made before: replay the whole sequence
            return replay
        b = {"trees": [tree], "xnames": [xname], "vnames": [vname], "greeks": [greek], "spot_forms": [spot_form],
             "vol_forms": [vol_form], "strikes": [[skind, sval]], "layouts": [layout if p is None else "scalar"],
             "points": [list(p)] if p is not None else [list(q) for q in pts], "alias_cases": [alias]}
        if "alpha" in block:
            b["alpha"] = block["alpha"]
        return b

    def kwargs_for(sel):
        key = tuple(sel)
        base = _TENSORS.get(key)
        if base is None:
            base = _TENSORS[key] = tuple(torch.tensor([p[i] for p in sel], dtype=torch.float64) for i in range(3))
        xs, vs, ts = (b.clone() for b in base)
        if layout == "scalar":
            xs, vs, ts = xs[0], vs[0], ts[0]
        kw = {xcaller: xs, vol_form: vs, "time_to_maturity": ts}
        if "strike" in names:
            kw["strike"] = xs.clone() if skind == "eq_spot" else _strike_obj(skind, sval)
        if alias is not None:
            a, b_, mode = alias
            if not torch.equal(kw[a], kw[b_]):
                raise HarnessError(f"alias case with unequal {a}, {b_}")
            kw[b_] = kw[a] if mode == "same" else kw[a].clone()
        return kw

    desc = f"autogreek.{greek}(pricer({', '.join(E.param_names(tree, xname or 'spot', vname or 'volatility'))}) = {src}; " \
           f"caller gives {spot_form}" + (f" [strike={sval!r} as {skind}]" if skind else "") + f", {vol_form}, time_to_maturity" + \
           ("" if alias is None else f"; {alias[1]} {'IS the tensor object' if alias[2] == 'same' else 'is an equal copy of'} {alias[0]}") + ")"

    # the model's arguments at a case: the caller's floats are the truth
    def margs(p, s_shift=None):
        return _margs(greek, xname, vname, xcaller, vol_form, Kof(p), p, s_shift)

    if verdict != "ok":
        want = TypeError if verdict == "TypeError" else ValueError
        try:
            out = fn(pricer, **kwargs_for(pts))
        except want:
            ctx.tick(1)
            ctx.add("not_accepted_pairs_rejected", 1)
            return
        except RuntimeError as e:
            # e.g. a pricer that does not use the differentiated argument at all: still not a value
            ctx.tick(1)
            ctx.add("not_accepted_pairs_rejected", 1)
            return
        ctx.tick(1)
        ctx.violation(site, "unsupported_names_return_value", desc + f": expected {verdict}, got a value",
                      observed=out, expected=verdict, block=mini(), family=fam)
        return

    # model values on the distinct points of the arguments the tree actually uses
    used = model.used
    exp, memo = {}, {}
    for p in pts:
        mk = (p[0] if "X" in used else None, p[1] if "V" in used else None, p[2] if "T" in used else None)
        if mk not in memo:
            r = model.greek(greek, *margs(p), Kmof(p))
            # rounding: c * eps * (magnitude of the derivative with all sums taken in absolute value);
            # c = 2^12 covers the conditioning of depth-2 compositions w.r.t. the few-ulp errors of the
            # re-derived arguments (spot = m K, log(spot/K), sqrt(variance)) on this alphabet
            # (measured worst ratio on the unchanged tree ~ 2^5).
            memo[mk] = None if r is None else (float(r[0]), 4096 * eps * float(r[1]) + 1e-300)
        if memo[mk] is not None:
            exp[p] = memo[mk]
    if not exp:
        ctx.add("programs_cases_with_empty_smooth_domain", 1)
        return
    sel = [p for p in pts if p in exp]
    if layout == "scalar":
        # 0-dim calls on the sub-product of the first and last symbol of each axis
        ax = [sorted({p[i] for p in pts}) for i in range(3)]
        sel = [p for p in sel if all(p[i] in (ax[i][0], ax[i][-1]) for i in range(3))]
        if not sel:
            return
    groups = [[p] for p in sel] if layout == "scalar" else [sel]
    zero = model.identically_zero(greek, xname)
    for grp in groups:
        try:
            out = fn(pricer, **kwargs_for(grp))
        except TypeError as e:
            ctx.tick(len(grp))
            ctx.violation(site, "accepted_call_raises_TypeError",
                          desc + f": a call inside the documented table raised TypeError: {str(e)[:160]}",
                          observed=f"TypeError: {str(e)[:200]}", expected="the Greek", block=mini(grp[0]), family=fam)
            continue
        except RuntimeError as e:
            ctx.tick(len(grp))
            # identically zero: proved by sympy, or (when simplify() cannot prove it) zero to 30 digits at
            # every point of the grid
            if (zero or all(exp[p][0] == 0.0 for p in sel)) and \
                    ("not have been used in the graph" in str(e) or "does not require grad" in str(e)):
                ctx.violation(site, "identically_zero_greek_raises",
                              desc + f": the {greek} is identically 0 but RuntimeError is raised: {str(e)[:90]}",
                              observed=f"RuntimeError: {str(e)[:200]}", expected=0.0, block=mini(grp[0]), family=fam)
                continue
            raise
        want_shape = () if layout == "scalar" else (len(grp),)
        if tuple(out.shape) != want_shape or out.dtype != torch.float64:
            ctx.tick(len(grp))
            ctx.violation(site, "shape_or_dtype", desc + f": shape {tuple(out.shape)} dtype {out.dtype}",
                          observed=[list(out.shape), str(out.dtype)], expected=[list(want_shape), "torch.float64"],
                          block=mini(grp[0]), family=fam)
            continue
        got = out.detach().reshape(-1)
        Et = torch.tensor([exp[p][0] for p in grp], dtype=torch.float64)
        Tt = torch.tensor([exp[p][1] for p in grp], dtype=torch.float64)
        for i in (~((got - Et).abs() <= Tt)).nonzero().flatten().tolist():
            p, g = grp[i], float(got[i])
            e, tol = exp[p]
            cls = "nan" if g != g else "value"
            if cls == "value" and skind == "float" and not f32_representable(sval) and greek in ("delta", "gamma") \
                    and xcaller in ("moneyness", "log_moneyness"):
                r2 = model.greek(greek, *margs(p, (f32_round(sval), sval)), Kmof(p))
                if r2 is not None and abs(g - float(r2[0])) <= tol:
                    cls = "strike_float32_rounding"
            if cls == "value" and alias is not None and alias[2] == "same":
                cls = "aliased_arguments"
            ctx.violation(site, cls, desc + f" at ({xcaller}, {vol_form}, T) = {list(p)}: got {g!r}, "
                          f"derivative = {e!r} (|diff| {abs(g - e):.3e} > tol {tol:.3e})",
                          observed=g, expected=e, block=mini(p), family=fam)
        ctx.tick(len(grp), nontrivial=0 if zero else len(grp))
    ctx.add("accepted_parameterisations_evaluated", 1)
    if greek == "gamma" and xname == "log_moneyness" and len(ctx.samples) < 6 and E.depth(tree) >= 1 and not zero \
            and ctx.counters.get("accepted_parameterisations_evaluated", 0) % 7 == 3:
        p = sel[0]
        ctx.sample({"family": "programs", "pricer": E.pricer_source(tree, xname or "spot", vname or "volatility"),
                    "call": desc, "point": list(p), "model": exp[p][0]})
    ctx.outcome((src, greek, xname, spot_form))


# ------------------------------------------------------------------------------------------------

def run(ctx):
    ctx.rule("bs_greeks: full product of the alphabets log-moneyness x maturity x volatility x running-max spec "
             "(offsets above the spot and the two strike-crossing neighbours, constrained max >= spot) x strike x "
             "call/put x {functional, module} x {strike as python float, as tensor} x layout {flat, broadcast "
             "(n,1,1)x(1,n,1)x(1,1,n), 0-dim on a stated sub-product} x {float64, float32} x {price, delta, gamma, "
             "vega, theta}; non-trivial = points where the model's gamma exceeds 1e-12.  programs: every expression "
             "tree up to the depth x every naming of its arguments x every caller form (spot | moneyness+strike | "
             "log_moneyness+strike | spot+strike | moneyness | log_moneyness) x strike representation x "
             "{volatility, variance} x 4 Greeks x 3x3x3 points; non-trivial = accepted pairs whose Greek is not "
             "identically zero")
    ctx.assume("the closed-form prices of models/bs_closed.py are the expected payoffs (re-validated by quadrature "
               "in this run on the model_check points; the implementation's price is compared with them at every "
               "grid point)")
    ctx.assume("mpmath.diff at 30 digits is exact to far below the float64 tolerance")
    ctx.assume("running maximum and strike are held fixed while differentiating; at max = spot the derivative is "
               "that of the analytic formula (one-sided derivative of the price)")
    quick = ctx.quick
    # ---- model validation
    mc_pts = [(-0.2, -0.1, 0.5, 0.3, 1.3), (0.1, 0.3, 2.0, 0.7, 2.5), (0.0, 0.0, 0.08, 0.2, 1.0)]
    if not quick:
        mc_pts += [(-0.5, -0.001, 1.0, 0.2, 0.1), (0.5, 0.5, 5.0, 0.7, 10.0), (-0.05, 0.001, 0.08, 2.0, 1.3),
                   (1.0, 1.5, 1.0, 0.2, 2.5), (-1.0, -1.0, 5.0, 2.0, 1.0)]
    ctx.run("model_check", {"points": mc_pts})
    # ---- part (i)
    s_alpha = S_QUICK if quick else S_ALPHA
    ks = list(K_QUICK if quick else K_THOROUGH)
    extra_k = ctx.extra_symbol("strike", [0.7, 1.7, 3.0, 0.5, 4.0])
    extra_t = ctx.extra_symbol("maturity", [0.02, 0.3, 2.0])
    t_alpha = list(T_ALPHA)
    if not quick:
        ks.append(extra_k)
        t_alpha.append(extra_t)
    ctx.alphabet("log_moneyness", s_alpha)
    ctx.alphabet("time_to_maturity", t_alpha)
    v_alpha = V_QUICK if quick else V_ALPHA
    m_alpha = M_QUICK if quick else M_ALPHA
    ctx.alphabet("volatility", v_alpha)
    ctx.alphabet("strike", ks)
    ctx.alphabet("running max spec", m_alpha)
    blocks = []
    for product in B.PRODUCTS:
        for call in ([True, False] if product in ("european", "european_binary") else [True]):
            if product in NEEDS_MAX and not quick:
                for mspec in M_ALPHA:   # one worker per running-max spec
                    blocks.append({"product": product, "call": call, "Ks": ks,
                                   "grid": {"s": s_alpha, "t": t_alpha, "v": v_alpha, "m": [mspec]}})
            else:
                blocks.append({"product": product, "call": call, "Ks": ks,
                               "grid": {"s": s_alpha, "t": t_alpha, "v": v_alpha, "m": m_alpha}})
    # seed-dependent extra symbol in the quick tier: one more strike on the cheapest product
    if quick:
        blocks.append({"product": "european_binary", "call": True, "Ks": [extra_k],
                       "grid": {"s": s_alpha, "t": t_alpha + [extra_t], "v": V_ALPHA, "m": m_alpha}})
    if quick:
        for b in blocks:
            ctx.run("bs_greeks", b)
    else:
        ctx.run_parallel("bs_greeks", blocks)
    # ---- argument aliasing on the Black-Scholes Greeks: equal coordinates passed as one tensor object / as copies
    s_al, w_al = [-0.5, -0.2, -0.05, 0.05], [0.08, 0.2, 1.0]
    ctx.alphabet("aliasing: log_moneyness", s_al)
    ctx.alphabet("aliasing: time_to_maturity = volatility", w_al)
    alias_blocks = []
    for product in B.PRODUCTS:
        moffs = [0.0, 0.05] if product in NEEDS_MAX else [0.0]
        tv = [[s_, s_ + off, w, w] for s_ in s_al for off in moffs for w in w_al]
        pair = ["time_to_maturity", "volatility"]
        alias_blocks.append({"product": product, "call": True, "Ks": [2.5] if quick else [1.0, 1.3, 2.5], "points": tv,
                             "flat_points": True, "dtypes": ["float64"], "strike_kinds": ["float"],
                             "aliases": [[pair, "same"], [pair, "equal"], [pair[::-1], "same"]]})
        if product in NEEDS_MAX:
            sm = [[s_, s_, t_, v_] for s_ in s_al for t_ in (0.08, 1.0) for v_ in (0.2, 0.7)]
            pair = ["log_moneyness", "max_log_moneyness"]
            alias_blocks.append({"product": product, "call": True, "Ks": [2.5] if quick else [1.0, 1.3, 2.5], "points": sm,
                                 "flat_points": True, "dtypes": ["float64"], "strike_kinds": ["float"],
                                 "aliases": [[pair, "same"], [pair, "equal"], [pair[::-1], "same"]]})
    for b in alias_blocks:
        ctx.run("bs_greeks", b)
    # ---- user modules: subclasses overriding price (payout multiplier), price + delta, and modules built on the mixin
    if USER_SUBCLASS_WORLDS:
        ctx.assume("VERIF_USER_SUBCLASS=1 (diagnostic outside the claim): Greeks of a user subclass of a concrete module are "
                   "checked only where the module of /repo derives them from self.price (BSAmericanBinaryOption / "
                   "BSLookbackOption gamma, vega, theta); the analytic Greeks of /repo that do not go through self.price are "
                   "skipped for subclasses (listed in the coverage as subclass_greeks_skipped_analytic_in_repo)")
    user_blocks = []
    sub_s = [-0.5, -0.2, -0.05, 0.05, 0.5]
    for product in B.PRODUCTS:
        ents = ["mixin"]
        if USER_SUBCLASS_WORLDS:
            ents += ["subclass", "subclass_delta"] if FROM_SELF_PRICE[product] else ["subclass"]
        for call in ([True, False] if product in ("european", "european_binary") else [True]):
            user_blocks.append({"product": product, "call": call, "Ks": [2.5] if quick else [1.0, 1.3, 2.5],
                                "grid": {"s": sub_s, "t": t_alpha, "v": v_alpha, "m": m_alpha}, "entries": ents,
                                "layouts": ["flat", "scalar"], "dtypes": ["float64"], "strike_kinds": ["float"]})
    if quick:
        for b in user_blocks:
            ctx.run("bs_greeks", b)
    else:
        ctx.run_parallel("bs_greeks", user_blocks)
    # ---- bound modules
    bound = []
    for product in B.PRODUCTS:
        for call in ([True, False] if product in ("european", "european_binary") else [True]):
            for K in ([1.3] if quick else [1.0, 1.3, 2.5]):
                bound.append({"product": product, "call": call, "K": K, "T": 3 if quick else 4,
                              "A": [1.0, 1.25, 1.5] if quick else [0.875, 1.25, 1.5, 2.75], "dt": 0.25, "sigma": 0.25})
    if quick:
        for b in bound:
            ctx.run("bs_bound", b)
    else:
        ctx.run_parallel("bs_bound", bound)
    # ---- part (ii)
    extra_T = ctx.extra_symbol("program T", [0.3, 0.6, 1.7, 3.0])
    extra_K = ctx.extra_symbol("program strike", [["float", 0.7], ["float", 0.5], ["float", 1.7], ["float", 4.0]])
    alpha = {"time_to_maturity": P_ALPHA["time_to_maturity"] + [extra_T]}
    ctx.alphabet("program points", {**P_ALPHA, **alpha})
    ctx.alphabet("program strikes", STRIKES + [extra_K])
    ctx.alphabet("program grammar", {"leaves": ["X", "V", "T", "K(depth<=1)", "C=2"], "unary": list(E.UNARY),
                                     "binary": list(E.BINARY)})
    n1 = len(all_programs(1, ("X", "V", "T", "K", "C")))
    ctx.add("programs_enumerated", n1)
    b1 = {"depth": 1, "leaves": ["X", "V", "T", "K", "C"], "alpha": alpha, "strikes": STRIKES + [extra_K]}
    # sequences A, B, A of same-named pricers with different signatures
    seqs = []
    for style in ("def", "lambda"):
        for a_, b_ in itertools.permutations(range(len(SEQ_PRICERS)), 2):
            A, Bp = dict(SEQ_PRICERS[a_], style=style), dict(SEQ_PRICERS[b_], style=style)
            for spot_form in ("spot+strike", "log_moneyness+strike"):
                seqs.append({"steps": [A, Bp, A], "greeks": list(GREEKS), "spot_form": spot_form, "strike": ["float", 2.5]})
    for b in seqs:
        ctx.run("pricer_sequence", b)
    # argument aliasing on the programs: (differentiated argument, another tensor argument the pricer uses)
    ba = dict(b1, aliasing=True, spot_forms=["spot", "moneyness+strike", "log_moneyness+strike", "spot+strike"],
              strikes=[["float", 2.5], ["eq_spot", None]])
    ctx.alphabet("aliasing: common values", ALIAS_COMMON)
    if quick:
        ctx.run("programs", ba)
    if quick:
        ctx.run("programs", dict(b1, strikes=[["float", 2.5], ["float", 1.3]]))
        # the remaining strike representations and the 0-dim layout on the depth-0 programs
        ctx.run("programs", {"depth": 0, "leaves": ["X", "V", "T", "K", "C"], "alpha": alpha,
                             "strikes": [["tensor", 1.3], ["int", 2], extra_K], "layouts": ["flat", "scalar"]})
    else:
        step = 4
        ctx.run_parallel("programs", [dict(b1, slice=[i, min(i + step, n1)], layouts=["flat", "scalar"])
                                      for i in range(0, n1, step)])
        ctx.run_parallel("programs", [dict(ba, slice=[i, min(i + step, n1)]) for i in range(0, n1, step)])
        n2 = len(all_programs(2, ("X", "V", "T", "C")))
        ctx.add("programs_enumerated", n2 - len(all_programs(1, ("X", "V", "T", "C"))))
        step = 60
        ctx.run_parallel("programs", [{"depth": 2, "leaves": ["X", "V", "T", "C"], "slice": [i, min(i + step, n2)],
                                       "strikes": [["float", 2.5], ["float", 1.3]]}
                                      for i in range(len(all_programs(1, ("X", "V", "T", "C"))), n2, step)])

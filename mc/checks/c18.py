"""C18 - Black-Scholes functions are total at maturity and at zero volatility.  Engine: grid.

Families
  limits        every price / delta entry point (functional + BS modules, incl. forward()) and the two
                guarded European Greeks (gamma, theta) on the full product
                (t, v) x log-moneyness x running-max offset, per (dtype, strike): at least one of t, v is
                zero or tiny.  Oracle mc.models.bs_limits: certain payoff / limiting delta when the kink
                is >= 40 standard deviations away (decided in exact rational arithmetic), model-free
                bounds (Jensen / Doob) otherwise; NaN nowhere.
  negative_args every bs_* function, d1, d2 and every Greek method of the four BS modules with a negative
                time to maturity or volatility (scalar-like and mixed tensors): ValueError, never a value.
  negative_scalars the same entry points with the negative time / volatility given as a python float, int or 0-dim
                tensor, under both states of torch.distributions' argument validation: ValueError.
  negative_args_child  the negative-argument alphabet (tensor and python-float styles) in a child interpreter started
                with -O (__debug__ False): ValueError there as well.
  hedger_finite scripted markets (ALL paths over alphabets that end below / at / above the strike; Heston
                underliers: all joint (spot, variance) paths incl. variance 0; zero-sigma Brownian stock:
                the constant paths) through Hedger(BlackScholes(d)) and Hedger(WhalleyWilmott(d)):
                compute_hedge and compute_pl finite on every path and column.
  maturity_step the BS module of each option type fed with Hedger.get_input(d, T-1) and get_input(d, -1) (the per-step
                entry points time_to_maturity(i), log_moneyness(i), ...) on ALL scripted paths: price == certain
                payoff, delta / forward == limiting delta.
"""
from __future__ import annotations

import itertools
import math

import torch

from mc.core import market
from mc.core.explore import all_paths
from mc.models import bs_limits as L

FAMILIES = {}


def family(fn):
    FAMILIES[fn.__name__] = fn
    return fn


DT = {"float32": torch.float32, "float64": torch.float64}

# ----------------------------------------------------------------------------
# entry points
# ----------------------------------------------------------------------------
# name -> (site, kind, quantity, call, fn(s, m, t, v, K) -> tensor of shape s.shape)


def _evaluators():
    import pfhedge.nn.functional as F
    from pfhedge.nn import (BSAmericanBinaryOption, BSEuropeanBinaryOption, BSEuropeanOption,
                            BSLookbackOption)
    E = {}

    def add(name, kind, quantity, call, fn):
        E[name] = (name.split("[")[0], kind, quantity, call, fn)

    for call in (True, False):
        tag = "call" if call else "put"
        add(f"bs_european_price[{tag}]", "european", "price", call,
            lambda s, m, t, v, K, c=call: F.bs_european_price(s, t, v, strike=K, call=c))
        add(f"bs_european_delta[{tag}]", "european", "delta", call,
            lambda s, m, t, v, K, c=call: F.bs_european_delta(s, t, v, call=c))
        add(f"bs_european_binary_price[{tag}]", "european_binary", "price", call,
            lambda s, m, t, v, K, c=call: F.bs_european_binary_price(s, t, v, call=c))
        add(f"bs_european_binary_delta[{tag}]", "european_binary", "delta", call,
            lambda s, m, t, v, K, c=call: F.bs_european_binary_delta(s, t, v, call=c, strike=K))
        add(f"BSEuropeanOption.price[{tag}]", "european", "price", call,
            lambda s, m, t, v, K, c=call: BSEuropeanOption(call=c, strike=K).price(s, t, v))
        add(f"BSEuropeanOption.delta[{tag}]", "european", "delta", call,
            lambda s, m, t, v, K, c=call: BSEuropeanOption(call=c, strike=K).delta(s, t, v))
        add(f"BSEuropeanOption.forward[{tag}]", "european", "delta", call,
            lambda s, m, t, v, K, c=call: BSEuropeanOption(call=c, strike=K)(
                torch.stack([s, t, v], dim=-1)).squeeze(-1))
        add(f"BSEuropeanBinaryOption.price[{tag}]", "european_binary", "price", call,
            lambda s, m, t, v, K, c=call: BSEuropeanBinaryOption(call=c, strike=K).price(s, t, v))
        add(f"BSEuropeanBinaryOption.delta[{tag}]", "european_binary", "delta", call,
            lambda s, m, t, v, K, c=call: BSEuropeanBinaryOption(call=c, strike=K).delta(s, t, v))
        add(f"BSEuropeanBinaryOption.forward[{tag}]", "european_binary", "delta", call,
            lambda s, m, t, v, K, c=call: BSEuropeanBinaryOption(call=c, strike=K)(
                torch.stack([s, t, v], dim=-1)).squeeze(-1))
    add("bs_european_gamma", "european", "gamma", True,
        lambda s, m, t, v, K: F.bs_european_gamma(s, t, v, strike=K))
    add("bs_european_theta", "european", "theta", True,
        lambda s, m, t, v, K: F.bs_european_theta(s, t, v, strike=K))
    add("bs_american_binary_price", "american_binary", "price", True,
        lambda s, m, t, v, K: F.bs_american_binary_price(s, m, t, v))
    add("bs_american_binary_delta", "american_binary", "delta", True,
        lambda s, m, t, v, K: F.bs_american_binary_delta(s, m, t, v, strike=K))
    add("bs_lookback_price", "lookback", "price", True,
        lambda s, m, t, v, K: F.bs_lookback_price(s, m, t, v, strike=K))
    add("bs_lookback_delta", "lookback", "delta", True,
        lambda s, m, t, v, K: F.bs_lookback_delta(s, m, t, v, strike=K))
    add("BSAmericanBinaryOption.price", "american_binary", "price", True,
        lambda s, m, t, v, K: BSAmericanBinaryOption(strike=K).price(s, m, t, v))
    add("BSAmericanBinaryOption.delta", "american_binary", "delta", True,
        lambda s, m, t, v, K: BSAmericanBinaryOption(strike=K).delta(s, m, t, v))
    add("BSAmericanBinaryOption.forward", "american_binary", "delta", True,
        lambda s, m, t, v, K: BSAmericanBinaryOption(strike=K)(torch.stack([s, m, t, v], dim=-1)).squeeze(-1))
    add("BSLookbackOption.price", "lookback", "price", True,
        lambda s, m, t, v, K: BSLookbackOption(strike=K).price(s, m, t, v))
    add("BSLookbackOption.delta", "lookback", "delta", True,
        lambda s, m, t, v, K: BSLookbackOption(strike=K).delta(s, m, t, v))
    add("BSLookbackOption.forward", "lookback", "delta", True,
        lambda s, m, t, v, K: BSLookbackOption(strike=K)(torch.stack([s, m, t, v], dim=-1)).squeeze(-1))
    # documented keyword variants: every module delta() whose signature has create_graph
    import inspect
    for cls, kind, two in ((BSEuropeanOption, "european", False), (BSEuropeanBinaryOption, "european_binary", False),
                           (BSAmericanBinaryOption, "american_binary", True), (BSLookbackOption, "lookback", True)):
        if "create_graph" not in inspect.signature(cls.delta).parameters:
            continue
        for cg in (True, False):
            def call(s, m, t, v, K, cls=cls, two=two, cg=cg):
                mod = cls(strike=K)
                return mod.delta(s, m, t, v, create_graph=cg) if two else mod.delta(s, t, v, create_graph=cg)
            add(f"{cls.__name__}.delta[create_graph={cg}]", kind, "delta", True, call)
    return E


def _grid_cases(block):
    """Full product (t, v) x s x m-offset; m-offsets are relative to s (running max >= spot)."""
    cases = []
    for (t, v) in block["tv"]:
        for s in block["s"]:
            ms = []
            for off in block["m_off"]:
                if off == "same":
                    m = s
                elif off == "to_zero":      # running maximum exactly at the strike
                    if s >= 0:
                        continue
                    m = 0.0
                elif off == "cross":        # running maximum above the strike although spot below
                    if s >= 0:
                        continue
                    m = 0.25
                else:
                    m = s + off
                if m not in ms:
                    ms.append(m)
            for m in ms:
                cases.append([s, m, t, v])
    return cases


AUTOGRAD_SITES = ("bs_lookback_delta", "BSLookbackOption.delta", "BSLookbackOption.forward")


def _strike_shift(K, dtype):
    """log(K32/K) when the strike is not a float32 number and the computation is wider than float32."""
    if dtype == torch.float32:
        return 0.0
    k32 = torch.tensor(K, dtype=torch.float32).item()
    return math.log(k32 / K) if k32 != K else 0.0


def _w_class(kind, s, m, t, v, K, dtype):
    """'w0' iff the implementation's d1/d2 arguments or the ratios phi(d)/(S*w) degenerate in the dtype:
    w = sigma*sqrt(t) evaluates to exactly 0 (t = 0, sigma = 0, underflow), or 1/w or x/w overflow to inf
    (x = the log-distance the selected pricing branch divides: s, or s - m for a lookback whose running
    maximum is at or above the strike), or w*min(S, K, 1) underflows to 0.  Otherwise 'wtiny'."""
    T = lambda z: torch.tensor(z, dtype=dtype)
    w = T(v) * T(t).sqrt()
    if w.item() == 0:
        return "w0"
    x = (s - m) if (kind == "lookback" and m >= 0) else s
    if bool(torch.isinf(T(x) / w)) or bool(torch.isinf(1 / w)):
        return "w0"
    scale = torch.minimum(torch.minimum(T(s).exp() * K, T(K)), T(1.0))
    return "w0" if (w * scale).item() == 0 else "wtiny"


def _state_class(kind, s, m):
    if kind in ("european", "european_binary"):
        return "at_strike" if s == 0 else ("itm" if s > 0 else "otm")
    if kind == "american_binary":
        return "hit" if m >= 0 else "unhit"
    # lookback: which branch is selected and whether its d is infinite at w = 0
    if m >= 0:
        return "s_eq_max" if s == m else "s_below_max"
    return "max_below_strike"


@family
def limits(ctx, block):
    dtype = DT[block["dtype"]]
    K = block["strike"]
    eps = torch.finfo(dtype).eps
    cases = block["cases"] if "cases" in block else _grid_cases(block)
    E = _evaluators()
    names = block.get("evals") or list(E)
    raw = torch.tensor(cases, dtype=torch.float64).reshape(-1, 4).to(dtype)
    # the oracle works on the values the implementation actually receives (after the cast); symbols that
    # coincide after the cast (1e-300 is 0 in float32) are evaluated and counted once
    vals, keep, seen = [], [], set()
    for i, row in enumerate(raw.to(torch.float64).tolist()):
        key = tuple(repr(x) for x in row)   # repr keeps -0.0 and 0.0 apart
        if key not in seen:
            seen.add(key)
            keep.append(i)
            vals.append(row)
    raw = raw[keep]
    cases = vals
    s_t, m_t, t_t, v_t = (raw[:, i].contiguous() for i in range(4))
    N = len(vals)
    n_w0 = int(((v_t * t_t.sqrt()) == 0).sum())
    bounds_cache = {}
    for name in names:
        site, kind, quantity, call, fn = E[name]
        try:
            out = fn(s_t.clone(), m_t.clone(), t_t.clone(), v_t.clone(), K).detach()
        except Exception as e:  # valid (non-negative) arguments must never raise
            first = cases
            for i in range(N):  # find one case that raises on its own (minimal replay)
                try:
                    fn(s_t[i:i + 1].clone(), m_t[i:i + 1].clone(), t_t[i:i + 1].clone(), v_t[i:i + 1].clone(), K)
                except Exception:
                    first = [vals[i]]
                    break
            ctx.violation(site, f"raises:{type(e).__name__}", f"{name} raised {type(e).__name__}: {str(e)[:200]} "
                          f"on non-negative arguments {first[0]}", observed=repr(e)[:300], expected="a value",
                          block={"dtype": block["dtype"], "strike": K, "evals": [name], "cases": first})
            ctx.tick(N)
            continue
        ctx.tick(N, nontrivial=n_w0)
        if tuple(out.shape) != (N,) or out.dtype != dtype:
            ctx.violation(site, "shape_or_dtype", f"{name}: output shape {tuple(out.shape)} dtype {out.dtype}",
                          observed=[list(out.shape), str(out.dtype)], expected=[[N], str(dtype)], block=block)
            continue
        key = (kind, quantity, call)
        if key not in bounds_cache:
            bounds_cache[key] = [_bounds(kind, quantity, call, c, K, eps) for c in vals]
        bnd = bounds_cache[key]
        got = out.to(torch.float64).tolist()
        for i in range(N):
            lo, hi, zn = bnd[i]
            g = got[i]
            ok = (g == g) and lo <= g <= hi
            if i % 97 == 0:
                ctx.outcome((name, zn, "nan" if g != g else round(max(min(g, 1e30), -1e30), 9)))
            if ok:
                continue
            s, m, t, v = vals[i]
            what = "nan" if g != g else ("inf" if math.isinf(g) else "value")
            wc = _w_class(kind, s, m, t, v, K, dtype)
            cls = f"{what}_{wc}_{_state_class(kind, s, m)}"
            if what != "nan":
                cls += "_" + zn
            shift = _strike_shift(K, dtype)
            if what == "value" and shift and name.split("[")[0] in AUTOGRAD_SITES:
                # finding #13 (C08): autogreek.parse_spot rounds a python-float strike to float32, so the
                # pricer is evaluated at log-moneyness s + log(K32/K); if that crosses the kink the
                # autograd delta is the one of the other side (or of a state with spot > running max).
                d = (m - s) if m >= 0 else -s
                if abs(d) <= 2 * abs(shift):
                    cls = f"strike_f32_shift_{_state_class(kind, s, m)}"
            nz = [n_ for n_, z in (("t", t), ("v", v)) if z == 0 and math.copysign(1.0, z) < 0]
            if nz:
                # IEEE negative zero passes the t >= 0 / v >= 0 validation, but sqrt(-0.0) = -0.0 and s / -0.0 has the
                # opposite sign: d1, d2 = -+inf are swapped
                cls = f"negative_zero_{'_'.join(nz)}_{what}"
            mini = {"dtype": block["dtype"], "strike": K, "evals": [name], "cases": [cases_row(raw64=vals[i])]}
            ctx.violation(site, cls,
                          f"{name}(s={s!r}, m={m!r}, t={t!r}, v={v!r}, K={K}, {block['dtype']}) = {g!r}; "
                          f"{quantity} must lie in [{lo!r}, {hi!r}] (zone {zn})",
                          observed=g, expected=[lo, hi], block=mini)
    if len(ctx.samples) < 3:
        i = N // 2
        name = names[0]
        ctx.sample({"family": "limits", "dtype": block["dtype"], "strike": K, "case[s,m,t,v]": vals[i],
                    "n_cases": N, "n_entry_points": len(names)})


def cases_row(raw64):
    return [float(x) for x in raw64]


def _bounds(kind, quantity, call, c, K, eps):
    s, m, t, v = c
    if kind in ("european", "european_binary"):
        m_ = None
    else:
        m_ = m
    if quantity == "price":
        return L.price_bounds(kind, s, m_, t, v, K, call, eps)
    if quantity == "delta":
        return L.delta_bounds(kind, s, m_, t, v, K, call, eps)
    inf = math.inf
    zn = L.zone("european", s, None, t, v, eps)
    if quantity == "gamma":
        if zn == "certain":
            return 0.0, 0.0, zn
        if zn == "certain_at_kink":
            return inf, inf, zn
        return 0.0, inf, zn
    if quantity == "theta":
        if zn == "certain":
            return 0.0, 0.0, zn
        if zn == "certain_at_kink":
            # at the strike: -phi(0)*K*v/(2*sqrt(t)) -> -inf at maturity with v > 0; 0 when v = 0
            return (-inf, -inf, zn) if (t == 0 and v > 0) else (0.0, 0.0, zn)
        return -inf, 0.0, zn
    raise KeyError(quantity)


# ----------------------------------------------------------------------------
# negative arguments
# ----------------------------------------------------------------------------

def _negative_entry_points():
    """name -> fn(s, m, t, v, K); every bs_* function of pfhedge.nn.functional (discovered by
    name, so a new one is picked up), d1/d2, and every Greek method of the four modules."""
    import inspect

    import pfhedge.nn.functional as F
    from pfhedge.nn import (BSAmericanBinaryOption, BSEuropeanBinaryOption, BSEuropeanOption,
                            BSLookbackOption)
    P = {}
    for name in sorted(dir(F)):
        if not name.startswith("bs_"):
            continue
        f = getattr(F, name)
        params = list(inspect.signature(f).parameters)

        def call(s, m, t, v, K, f=f, params=params):
            kw = {"log_moneyness": s, "time_to_maturity": t, "volatility": v}
            if "max_log_moneyness" in params:
                kw["max_log_moneyness"] = m
            if "strike" in params:
                kw["strike"] = K
            return f(**kw)
        P[name] = call
    P["d1"] = lambda s, m, t, v, K: F.d1(s, t, v)
    P["d2"] = lambda s, m, t, v, K: F.d2(s, t, v)
    for cls, two in ((BSEuropeanOption, False), (BSEuropeanBinaryOption, False),
                     (BSAmericanBinaryOption, True), (BSLookbackOption, True)):
        for meth in ("price", "delta", "gamma", "vega", "theta"):
            def call(s, m, t, v, K, cls=cls, meth=meth, two=two):
                mod = cls(strike=K)
                if two:
                    return getattr(mod, meth)(s, m, t, v)
                return getattr(mod, meth)(s, t, v)
            P[f"{cls.__name__}.{meth}"] = call
    return P


@family
def negative_args(ctx, block):
    dtype = DT[block["dtype"]]
    P = _negative_entry_points()
    names = block.get("evals") or list(P)
    for name in names:
        fn = P[name]
        for case in block["cases"]:
            s, m, t, v = (torch.tensor(x, dtype=dtype) for x in (case["s"], case["m"], case["t"], case["v"]))
            neg_t = bool((t < 0).any())
            neg_v = bool((v < 0).any())
            which = "t" if neg_t and not neg_v else ("v" if neg_v and not neg_t else "tv")
            mixed = "mixed" if (t.numel() > 1 and (bool((t >= 0).any()) and neg_t or bool((v >= 0).any()) and neg_v)) else "all"
            ctx.tick(1, nontrivial=1)
            try:
                out = fn(s, m, t, v, block["strike"])
            except ValueError:
                ctx.outcome((name, "ValueError"))
                continue
            except Exception as e:
                ctx.outcome((name, type(e).__name__))
                ctx.violation(name, f"negative_{which}_raises_{type(e).__name__}",
                              f"{name} with negative {which}: {type(e).__name__}: {str(e)[:200]} instead of ValueError",
                              observed=repr(e)[:300], expected="ValueError",
                              block={"dtype": block["dtype"], "strike": block["strike"], "evals": [name],
                                     "cases": [case]})
                continue
            o = torch.as_tensor(out)
            kind = "silent_nan" if bool(o.isnan().any()) else "accepted"
            ctx.outcome((name, kind))
            ctx.violation(name, f"negative_{which}_{kind}_{mixed}",
                          f"{name}(s={case['s']}, t={case['t']}, v={case['v']}) returned {o.flatten()[:4].tolist()} "
                          f"instead of raising ValueError", observed=o.flatten()[:8].tolist(), expected="ValueError",
                          block={"dtype": block["dtype"], "strike": block["strike"], "evals": [name],
                                 "cases": [case]})


_SCALAR = {"float": float, "int": int, "tensor0": None}


def _scalar(spec, dtype):
    kind, value = spec
    if kind == "tensor0":
        return torch.tensor(value, dtype=dtype)
    return _SCALAR[kind](value)


@family
def negative_scalars(ctx, block):
    """Negative time to maturity / volatility given as a PYTHON number or a 0-dim tensor (the calling style of the
    library's docstrings: bs_european_delta(tensor, 1.0, 0.2)), under a given state of torch.distributions'
    argument validation: ValueError, never a value."""
    from torch.distributions import Distribution
    dtype = DT[block["dtype"]]
    P = _negative_entry_points()
    names = block.get("evals") or list(P)
    K = block["strike"]
    s = torch.tensor(block["s"], dtype=dtype)
    m = torch.tensor([max(x, 0.0) + 0.1 for x in block["s"]], dtype=dtype)
    prev = Distribution._validate_args
    Distribution.set_default_validate_args(block["validate_args"])
    try:
        for name in names:
            fn = P[name]
            for case in block["cases"]:
                # does the entry point take this scalar style at all (with admissible values)?
                pos = {"t": [case["t"][0], 0.25 if case["t"][0] != "int" else 1], "v": [case["v"][0], 0.2 if case["v"][0] != "int" else 1]}
                try:
                    fn(s, m, _scalar(pos["t"], dtype), _scalar(pos["v"], dtype), K)
                except Exception:
                    ctx.add("scalar_style_not_accepted", 1)
                    continue
                t, v = _scalar(case["t"], dtype), _scalar(case["v"], dtype)
                which = "t" if case["t"][1] < 0 and not case["v"][1] < 0 else ("v" if case["v"][1] < 0 and not case["t"][1] < 0 else "tv")
                style = case["t"][0] if case["t"][1] < 0 else case["v"][0]
                mini = {"dtype": block["dtype"], "strike": K, "s": block["s"], "validate_args": block["validate_args"],
                        "evals": [name], "cases": [case]}
                ctx.tick(1, nontrivial=1)
                try:
                    out = fn(s, m, t, v, K)
                except ValueError:
                    ctx.outcome((name, "ValueError"))
                    continue
                except Exception as e:
                    ctx.violation(name, f"negative_{which}_{style}_raises_{type(e).__name__}",
                                  f"{name}(t={case['t']}, v={case['v']}) [validate_args={block['validate_args']}]: "
                                  f"{type(e).__name__}: {str(e)[:160]} instead of ValueError", observed=repr(e)[:200],
                                  expected="ValueError", block=mini)
                    continue
                o = torch.as_tensor(out)
                res = "silent_nan" if bool(o.isnan().any()) else "accepted"
                ctx.outcome((name, res))
                ctx.violation(name, f"negative_{which}_{style}_{res}",
                              f"{name}(s={block['s']}, t={case['t']}, v={case['v']}) with torch.distributions validate_args="
                              f"{block['validate_args']} returned {o.flatten()[:4].tolist()} instead of raising ValueError",
                              observed=o.flatten()[:8].tolist(), expected="ValueError", block=mini)
    finally:
        Distribution.set_default_validate_args(prev)


CHILD_SCRIPT = r"""
import json, sys, os
repo, verif, dtype_name, strike = sys.argv[1], sys.argv[2], sys.argv[3], float(sys.argv[4])
sys.path.insert(0, repo); sys.path.insert(1, verif)
import warnings; warnings.filterwarnings("ignore")
import torch
torch.set_num_threads(1)
import pfhedge
assert os.path.realpath(pfhedge.__file__).startswith(os.path.realpath(repo) + os.sep), pfhedge.__file__
from mc.checks import c18
cases = json.loads(sys.stdin.read())
dtype = c18.DT[dtype_name]
P = c18._negative_entry_points()
out = {"debug": __debug__, "optimize": sys.flags.optimize, "results": []}
for name in P:
    for ci, case in enumerate(cases):
        if "style" in case:
            s = torch.tensor([-0.5, 0.0, 0.5], dtype=dtype); m = torch.tensor([0.1, 0.1, 0.6], dtype=dtype)
            pos = [c18._scalar([case["t"][0], 0.25 if case["t"][0] != "int" else 1], dtype),
                   c18._scalar([case["v"][0], 0.2 if case["v"][0] != "int" else 1], dtype)]
            try:
                P[name](s, m, pos[0], pos[1], strike)
            except Exception:
                out["results"].append([name, ci, "style_not_accepted", None]); continue
            t, v = c18._scalar(case["t"], dtype), c18._scalar(case["v"], dtype)
        else:
            s, m, t, v = (torch.tensor(case[k], dtype=dtype) for k in ("s", "m", "t", "v"))
        try:
            o = torch.as_tensor(P[name](s, m, t, v, strike))
            res = ["silent_nan" if bool(o.isnan().any()) else "accepted", [repr(x) for x in o.flatten()[:4].tolist()]]
        except ValueError:
            res = ["ValueError", None]
        except Exception as e:
            res = ["raises_" + type(e).__name__, str(e)[:120]]
        out["results"].append([name, ci] + res)
print("RESULT" + json.dumps(out))
"""


@family
def negative_args_child(ctx, block):
    """The negative-argument alphabet in a CHILD interpreter started with the given flags (-O: __debug__ is False,
    assert statements and torch.distributions' default argument validation are off): ValueError there as well."""
    import json
    import os
    import subprocess
    import sys
    from mc.core import runner
    flags = block["flags"]
    env = dict(os.environ, PYTHONHASHSEED="0", OMP_NUM_THREADS="1", MKL_NUM_THREADS="1", PYTHONWARNINGS="ignore")
    env.pop("PYTHONOPTIMIZE", None)
    cmd = [sys.executable] + flags + ["-c", CHILD_SCRIPT, runner.REPO, runner.VERIF, block["dtype"], str(block["strike"])]
    r = subprocess.run(cmd, input=json.dumps(block["cases"]), capture_output=True, text=True, timeout=600, env=env, cwd=runner.VERIF)
    line = [ln for ln in r.stdout.splitlines() if ln.startswith("RESULT")]
    if r.returncode != 0 or not line:
        raise runner.HarnessError(f"child interpreter {flags} failed (exit {r.returncode}): {r.stderr[-600:]}")
    out = json.loads(line[-1][len("RESULT"):])
    want_opt = 2 if "-OO" in flags else (1 if "-O" in flags else 0)
    if out["optimize"] != want_opt or out["debug"] != (want_opt == 0):
        raise runner.HarnessError(f"child interpreter flags {flags}: optimize={out['optimize']} __debug__={out['debug']}")
    wanted = set(block.get("evals") or [])
    mode = "optimized" if want_opt else "plain"
    for name, ci, res, detail in out["results"]:
        if wanted and name not in wanted:
            continue
        if res == "style_not_accepted":
            ctx.add("scalar_style_not_accepted", 1)
            continue
        ctx.tick(1, nontrivial=1)
        ctx.outcome((name, mode, res))
        if res == "ValueError":
            continue
        case = block["cases"][ci]
        neg_t = (case["t"][1] < 0) if "style" in case else any(x < 0 for x in case["t"])
        neg_v = (case["v"][1] < 0) if "style" in case else any(x < 0 for x in case["v"])
        which = "t" if neg_t and not neg_v else ("v" if neg_v and not neg_t else "tv")
        ctx.violation(name, f"python_{mode}_negative_{which}_{res}" + ("_scalar" if "style" in case else ""),
                      f"{name}(t={case['t']}, v={case['v']}) in a child interpreter `python {' '.join(flags)}` (__debug__="
                      f"{out['debug']}): {res} {detail if detail else ''} instead of ValueError",
                      observed=[res, detail], expected="ValueError",
                      block=dict(block, evals=[name], cases=[case]))


# ----------------------------------------------------------------------------
# hedger level
# ----------------------------------------------------------------------------

def _build_hedger_world(block):
    from pfhedge.nn import BlackScholes, Hedger, WhalleyWilmott
    dtype = DT[block["dtype"]]
    T = block["T"]
    A = block["A"]
    ul = block["underlier"]
    if ul == "brownian":
        spot = all_paths(A, T, dtype=dtype)
        var = None
        if block.get("paths") == "constant":
            keep = (spot == spot[:, :1]).all(dim=1)
            spot = spot[keep]
        p = market.primary("brownian", dtype=dtype, cost=block["cost"], dt=market.DT, sigma=block["sigma"])
    else:
        spot, var, _ = market.joint_paths(A, T, block["V"], dtype=dtype)
        p = market.primary("heston", dtype=dtype, cost=block["cost"], dt=market.DT)
    if block.get("rows") is not None:
        spot = spot[block["rows"]]
        var = None if var is None else var[block["rows"]]
    market.script_primary(p, ul, spot, var)
    kw = {"strike": block["strike"]}
    if not block.get("call", True):
        kw["call"] = False
    d = market.derivative(block["derivative"], p, T=T, **kw)
    model = BlackScholes(d) if block["model"] == "bs" else WhalleyWilmott(d, a=block.get("a", 1.0))
    hedger = Hedger(model, model.inputs())
    return hedger, d, p


def _cls(where, kind, mv):
    base, _, tag = where.partition("_cost")
    return f"{base}_{kind}_{mv}" + (("_cost" + tag) if _ else "")


@family
def hedger_finite(ctx, block):
    hedger, d, p = _build_hedger_world(block)
    kind, mv = block["derivative"], block["model"]
    spot = p.spot
    N, T = spot.shape
    vol = p.volatility
    K = block["strike"]
    at_strike = spot == K
    zero_vol = vol == 0
    # European binary at the strike with zero volatility (before maturity): the delta is a Dirac
    # mass (+inf is its limiting value); the property speaks of binaries "away from the strike".
    excluded = torch.zeros(N, dtype=torch.bool)
    if kind == "european_binary":
        excluded = (at_strike & zero_vol)[:, :-1].any(dim=1)
        ctx.add("excluded_binary_at_strike_zero_vol", int(excluded.sum()))
    with torch.no_grad():
        hedge = hedger.compute_hedge(d)
        pl = hedger.compute_pl(d)
    interesting = (at_strike.any(dim=1) | zero_vol.any(dim=1)) & ~excluded
    ctx.tick(2 * int((~excluded).sum()), nontrivial=2 * int(interesting.sum()))
    if tuple(hedge.shape) != (N, 1, T) or tuple(pl.shape) != (N,):
        ctx.violation("Hedger.compute_hedge", "shape", f"hedge {tuple(hedge.shape)} pl {tuple(pl.shape)}",
                      observed=[list(hedge.shape), list(pl.shape)], expected=[[N, 1, T], [N]], block=block)
        return
    h = hedge[:, 0, :]
    bad_h = ~torch.isfinite(h)
    bad_h[excluded] = False
    bad_pl = ~torch.isfinite(pl)
    bad_pl[excluded] = False
    ctx.outcome((kind, mv, block["underlier"], round(float(torch.nan_to_num(h, nan=7.0, posinf=9.0, neginf=-9.0).sum()), 6)))

    # the Whalley-Wilmott band depends on the cost rate: part of the failing input's class
    tag = ("_cost0" if block["cost"] == 0 else "_cost") if mv == "ww" else ""

    def classify(i):
        cols = bad_h[i].nonzero().flatten().tolist()
        j = cols[0] if cols else None
        if j is None:
            return "pl_only" + tag, None
        if bool(zero_vol[i, j]) and j < T - 1:
            where = "zero_vol_at_strike" if bool(at_strike[i, j]) else "zero_vol_step"
        elif j == T - 1:
            where = "maturity_column"
        else:
            where = "interior"
        return where + tag, j

    base = block.get("rows")
    rows_h = bad_h.any(dim=1).nonzero().flatten().tolist()
    for i in rows_h:
        where, j = classify(i)
        mini = dict(block)
        mini["rows"] = [base[i] if base is not None else i]
        ctx.violation("Hedger.compute_hedge", _cls(where, kind, mv),
                      f"hedge not finite at step {j} of {T} (spot path {spot[i].tolist()}, volatility "
                      f"{vol[i].tolist()}, strike {K}, {kind}, model {mv}, underlier {block['underlier']})",
                      observed=h[i].tolist(), expected="finite", block=mini)
    for i in bad_pl.nonzero().flatten().tolist():
        where, j = classify(i)
        mini = dict(block)
        mini["rows"] = [base[i] if base is not None else i]
        ctx.violation("Hedger.compute_pl", _cls(where, kind, mv),
                      f"P&L not finite (spot path {spot[i].tolist()}, volatility {vol[i].tolist()}, strike {K}, "
                      f"{kind}, model {mv}, underlier {block['underlier']}); hedge {h[i].tolist()}",
                      observed=float(pl[i]), expected="finite", block=mini)
    if len(ctx.samples) < 6 and kind == "lookback" and block["underlier"] == "brownian" and block["sigma"] > 0:
        i = N // 2
        ctx.sample({"family": "hedger_finite", "block": {k: v for k, v in block.items() if k != "rows"},
                    "path": i, "spot": spot[i].tolist(), "hedge": h[i].tolist(), "pl": float(pl[i])})


# ----------------------------------------------------------------------------
# the per-step entry points at the maturity step
# ----------------------------------------------------------------------------

@family
def maturity_step(ctx, block):
    """Black-Scholes module fed from the derivative's own features at the LAST step through the per-step entry
    points (Hedger.get_input(d, T-1) / get_input(d, -1), i.e. time_to_maturity(i), log_moneyness(i), ...):
    price == the payoff that is now certain, delta == its limit, nothing NaN - on every scripted path."""
    from pfhedge.nn import BlackScholes, Hedger
    dtype = DT[block["dtype"]]
    eps = torch.finfo(dtype).eps
    T, A, K, kind, call = block["T"], block["A"], block["strike"], block["derivative"], block.get("call", True)
    spot = all_paths(A, T, dtype=dtype)
    if block.get("rows") is not None:
        spot = spot[block["rows"]]
    p = market.primary("brownian", dtype=dtype, dt=market.DT, sigma=block["sigma"])
    market.set_buffers(p, spot=spot)
    kw = {"strike": K}
    if not call:
        kw["call"] = False
    d = market.derivative(kind, p, T=T, **kw)
    m = BlackScholes(d)
    hedger = Hedger(m, m.inputs())
    N = spot.size(0)
    base = block.get("rows")
    sT = (spot[:, -1] / K).log().tolist()
    mT = (spot.max(dim=1).values / K).log().tolist()
    tag = "call" if call else "put"
    for i in block["indices"]:
        step = i if i >= 0 else T + i
        if step != T - 1:
            raise AssertionError("maturity_step is about the last grid column")
        with torch.no_grad():
            x = hedger.get_input(d, i)                                   # (N, 1, F)
            cols = [x[..., [j]] for j in range(x.size(-1))]
            price = m.price(*cols)[:, 0, 0].tolist()
        delta = m.delta(*cols).detach()[:, 0, 0].tolist()
        fwd = m(x).detach()[:, 0, 0].tolist()
        ctx.tick(3 * N, nontrivial=3 * N)
        for r in range(N):
            s_, m_ = sT[r], (mT[r] if kind in ("american_binary", "lookback") else None)
            lo, hi, zn = L.price_bounds(kind, s_, m_, 0.0, block["sigma"], K, call, eps)
            dlo, dhi, _ = L.delta_bounds(kind, s_, m_, 0.0, block["sigma"], K, call, eps)
            for what, got, a, b in (("price", price[r], lo, hi), ("delta", delta[r], dlo, dhi), ("forward", fwd[r], dlo, dhi)):
                if got == got and a <= got <= b:
                    continue
                st = _state_class(kind, s_, m_ if m_ is not None else s_)
                mini = dict(block, rows=[base[r] if base is not None else r], indices=[i])
                ctx.violation(f"{type(m).__name__}.{what}",
                              f"maturity_step_{'nan' if got != got else 'value'}_{st}" + ("_negative_index" if i < 0 else ""),
                              f"{type(m).__name__}[{tag}, K={K}] fed with Hedger.get_input(derivative, {i}) (last of T={T} steps; spot "
                              f"path {spot[r].tolist()}, time_to_maturity({i}) = {float(d.time_to_maturity(i)[0, 0])!r}): {what} = "
                              f"{got!r}, must lie in [{a!r}, {b!r}] (the payoff is certain: zone {zn})",
                              observed=got, expected=[a, b], block=mini)
        ctx.outcome((kind, tag, i, round(sum(x_ for x_ in price if x_ == x_), 9)))


# ----------------------------------------------------------------------------

def _both_signs(xs):
    out = []
    for x in xs:
        for y in (-x, x):
            if y not in out:
                out.append(y)
    return out


def run(ctx):
    ctx.rule("limits: full product (t,v) x log-moneyness x running-max offset x strike x dtype, every price/delta "
             "entry point (functional, module method, module forward) on every case; non-trivial = cases whose "
             "sigma*sqrt(t) is exactly 0 in the dtype (the 0/0 and inf*0 branches).  negative_args: every bs_* "
             "function, d1, d2, every module Greek x negative (t,v) patterns.  hedger_finite: all |A|^T price "
             "paths (Heston: all joint (spot,variance) paths) x 4 option types (+puts) x {BlackScholes, "
             "WhalleyWilmott} x cost; non-trivial = paths touching the strike or a zero-volatility step.  maturity_step: all |A|^T "
             "paths x 6 option variants x 2 strikes x step index in {T-1, -1} x dtype")
    ctx.assume("Phi(-40) and phi(40) are below the smallest positive float, so a kink >= 40 standard deviations away "
               "is 'certain' (zone decided exactly in rationals on the float arguments)")
    ctx.assume("binaries exactly at the strike are outside the statement ('away from the strike'): only NaN-freeness "
               "and the sign are required there; European gamma/theta are included only because the property's "
               "mechanism names their 0/0 guards")
    tiny = [0.0, 1e-300, 1e-12]
    ts = tiny + [0.25, 1.0]
    vs = [0.2] + tiny + [1.0]
    tv = [[t, v] for t in ts for v in vs if (t in tiny or v in tiny)]
    tv_neg_zero = [[-0.0, 0.2], [0.25, -0.0], [-0.0, -0.0]]     # negative zero IS zero time / volatility
    extra_s = ctx.extra_symbol("abs_log_moneyness", [0.001, 0.1, 0.25, 1.0, 2.0])
    # really large |log-moneyness| too (deep in / out of the money; exp(80)*K stays finite in float32 for the strikes used)
    s_abs = [0.5, 0.0, 0.01, 1e-9, 5.0] + [extra_s] + [20.0, 40.0, 80.0]
    s_alpha = _both_signs(s_abs)
    m_off = ["same", 1e-9, 0.05, 1.0, "to_zero", "cross"]
    extra_k = ctx.extra_symbol("strike", [0.8, 0.9, 2.0, 100.0, 0.125])
    strikes = [1.0, 0.5, 1.3, 1.1, 3.0, 10.0, extra_k]
    if ctx.thorough:
        ts2 = tiny + [1e-30, 1e-6, 0.004, 0.25, 1.0, 30.0]
        vs2 = [0.2] + tiny + [1e-30, 1e-6, 0.01, 1.0, 5.0]
        tv = [[t, v] for t in ts2 for v in vs2 if (t in tiny + [1e-30] or v in tiny + [1e-30])]
        s_abs = [0.5, 0.0, 1e-12, 1e-9, 1e-4, 0.01, 0.1, 1.0, 5.0, 20.0] + [extra_s] + [30.0, 40.0, 60.0, 80.0]
        s_alpha = _both_signs(s_abs)
        m_off = ["same", 1e-12, 1e-9, 0.001, 0.05, 1.0, "to_zero", "cross"]
        strikes = [1.0, 0.5, 1.3, 1.1, 0.7, 3.0, 10.0, 0.01, 250.0, extra_k]
    tv = tv + tv_neg_zero
    ctx.alphabet("(t,v) pairs", [[repr(a), repr(b)] for a, b in tv])
    ctx.alphabet("log_moneyness", s_alpha)
    ctx.alphabet("running-max offsets", m_off)
    ctx.alphabet("strike", strikes)
    for dtype, K in itertools.product(["float64", "float32"], strikes):
        ctx.run("limits", {"dtype": dtype, "strike": K, "tv": tv, "s": s_alpha, "m_off": m_off})

    # negative arguments
    neg = [-1e-12, -1.0]
    ncases = []
    for s in ([-0.5], [0.0], [0.5], [-0.5, 0.0, 0.5]):
        n = len(s)
        m = [max(x, 0.0) + 0.1 for x in s]
        for t, v in [(x, 0.2) for x in neg] + [(0.1, x) for x in neg] + [(-1.0, -1.0), (-1e-12, 0.0), (0.0, -1e-12)]:
            ncases.append({"s": s, "m": m, "t": [t] * n, "v": [v] * n})
        if n == 3:
            ncases.append({"s": s, "m": m, "t": [0.1, -1.0, 0.1], "v": [0.2] * 3})
            ncases.append({"s": s, "m": m, "t": [0.1] * 3, "v": [0.2, 0.2, -1e-12]})
            ncases.append({"s": s, "m": m, "t": [0.0, 0.1, -1e-12], "v": [0.2, 0.0, 0.2]})
    ctx.alphabet("negative (t,v)", [[c["t"], c["v"]] for c in ncases[:7]])
    for dtype in ["float64", "float32"]:
        for K in ([1.0] if ctx.quick else [1.0, 1.3]):
            ctx.run("negative_args", {"dtype": dtype, "strike": K, "cases": ncases})

    # negative python numbers / 0-dim tensors, both states of torch.distributions argument validation
    scases = []
    for style in ("float", "int", "tensor0"):
        negs = [-1, ] if style == "int" else [-0.2, -1e-12]
        for x in negs:
            scases.append({"t": [style, x], "v": ["float", 0.2]})
            scases.append({"t": ["float", 0.25], "v": [style, x]})
    scases.append({"t": ["float", -1.0], "v": ["float", -0.2]})
    ctx.alphabet("negative scalar styles", ["float", "int", "tensor0"])
    for validate in (True, False):
        for dtype in (["float64"] if ctx.quick else ["float64", "float32"]):
            ctx.run("negative_scalars", {"dtype": dtype, "strike": 1.0, "s": [-0.5, 0.0, 0.5], "validate_args": validate,
                                         "cases": scases})

    # the interpreter's optimisation flag is one more ambient mode: same alphabet in a child `python -O`
    ccases = [c for c in ncases if len(c["s"]) == 1 and c["s"] == [0.5]] + [c for c in ncases if len(c["s"]) == 3][-3:] + \
        [dict(c, style=True) for c in scases if c["t"][0] == "float" and c["v"][0] == "float"]
    for flags in (["-O"], ["-OO"]) if ctx.thorough else (["-O"],):
        ctx.run("negative_args_child", {"flags": flags, "dtype": "float64", "strike": 1.0, "cases": ccases})

    # hedger level
    A = [0.75, 1.0, 1.25]
    ctx.alphabet("hedger spot", A)
    ctx.alphabet("hedger variance (Heston)", [0.04, 0.0])
    Ts = [2, 3, 4] if ctx.quick else [2, 3, 4, 5, 6]
    kinds = [("european", True), ("european", False), ("european_binary", True), ("european_binary", False),
             ("american_binary", True), ("lookback", True)]
    blocks = []
    for T, (kind, call), mv, cost, K in itertools.product(Ts, kinds, ["bs", "ww"], [0.0, 1e-3], [1.0, 1.25]):
        if ctx.quick and K != 1.0 and T != 3:
            continue
        common = {"T": T, "A": A, "derivative": kind, "call": call, "model": mv, "cost": cost, "strike": K,
                  "dtype": "float64"}
        blocks.append(dict(common, underlier="brownian", sigma=0.2))
        blocks.append(dict(common, underlier="brownian", sigma=0.0, paths="constant"))
        if T <= (4 if ctx.quick else 5):
            blocks.append(dict(common, underlier="heston", V=[0.04, 0.0]))
        if ctx.thorough or (T == 3 and K == 1.0):
            blocks.append(dict(common, underlier="brownian", sigma=0.2, dtype="float32"))
    for b in blocks:
        ctx.run("hedger_finite", b)

    # the maturity step through the per-step entry points (get_input(d, T-1), get_input(d, -1))
    for T, (kind, call), K, dtype in itertools.product([2, 3] if ctx.quick else [2, 3, 4, 5], kinds, [1.0, 1.25],
                                                       ["float64", "float32"]):
        if ctx.quick and dtype == "float32" and T != 3:
            continue
        ctx.run("maturity_step", {"T": T, "A": A, "strike": K, "derivative": kind, "call": call, "sigma": 0.2,
                                  "dtype": dtype,
                                  # max_log_moneyness(-1) raises IndexError on the unchanged tree (prefix [: i + 1] is empty):
                                  # -1 is not an accepted index for the running-maximum inputs
                                  "indices": [T - 1] if kind in ("american_binary", "lookback") else [T - 1, -1]})

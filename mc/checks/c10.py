"""C10 - simulated paths follow the law of the model they are named after.  Engine: tree.

Per generator three things are decided (DESIGN 2.2 / 4-C10):
  requests     which distribution, with which parameters / shape / dtype, is asked for at every
               draw site (every draw is answered from a script: mc.core.rngscript.OwnedRNG);
  conformance  the whole depth-k answer tree is packed on the path axis (one real call explores
               it); at every node the implementation's state equals the state of the published
               scheme (mc.models.schemes_ref, mpmath) for the same answers;
  law          on the model's tree, weighted by the quadrature weights of the answers, the
               conditional mean / variance / correlation at every node equals the closed form the
               property names.

Families: bm_tree (Brownian, geometric Brownian), vasicek_tree, cir_tree, heston_tree, merton_tree,
kou_tree, rbergomi_impulse, localvol_tree, antithetic_perms, sobol_boxmuller, derivations (mp.quad /
mp.nsum re-derivations of the closed forms the law statements use).  Every tree family accepts
"via": "instrument" (the primary instrument's simulate() instead of the generator) and "leaves": [i]
(one explicit leaf = one answer path: the minimal replay block of a conformance violation).

Signatures: site = generator (or <Instrument>.simulate); class = request_* (draw sites),
conformance_* (which part of the scheme the first deviating node belongs to), law:* (model-level
statement), raises:*, and the classifier classes kernel_normalisation_n_steps (DESIGN 7 finding 4),
float_params_rounded_through_default_dtype / sqrt_dt_rounded_through_default_dtype (the deviation
is reproduced exactly by the scheme with the python-float parameters rounded to float32).
"""
from __future__ import annotations

import itertools
import math

import torch
from mpmath import mp, mpf

from mc.core.rngscript import OwnedRNG, gauss_hermite, gauss_laguerre
from mc.core.runner import HarnessError, blame
from mc.models import schemes_ref as R

FAMILIES = {}
DT = {"float32": torch.float32, "float64": torch.float64}
LAW_RTOL = mpf("1e-10")   # DESIGN 2.2: quadrature reproduces the moments involved to <= 1e-10
JUNK = 3.5                # value put where the scheme must ignore the answer


def family(fn):
    FAMILIES[fn.__name__] = fn
    return fn


def _mp():
    mp.dps = 40


def _tdtype(name):
    return None if name is None else DT[name]


def _eff(name):
    return torch.get_default_dtype() if name is None else DT[name]


def _eps(name):
    return float(torch.finfo(_eff(name)).eps)


def _rnd(x, name):
    """python float -> the value the answer tensor of dtype ``name`` will hold."""
    return float(torch.tensor(float(x), dtype=torch.float64).to(_eff(name)).to(torch.float64))


def _through_default(x):
    """Classifier hypothesis only: a python float that passed through a default-dtype tensor."""
    return float(torch.tensor(float(x), dtype=torch.get_default_dtype()).to(torch.float64))


def _gh(n, name):
    x, w = gauss_hermite(n)
    return [_rnd(v, name) for v in x], [mpf(v) for v in w]


def _gl(n):
    x, w = gauss_laguerre(n)
    return [float(v) for v in x], [mpf(v) for v in w]


def _gh_trunc(c, n):
    """Relative truncation error of n-point Gauss-Hermite on E[exp(c Z)] = exp(c^2/2):
    remainder n!/(2n)! f^(2n)(xi), f^(2n) = c^(2n) e^(c xi); bounded with e^(c xi) <= e^(4|c|+c^2/2)."""
    c = abs(mpf(c))
    return mp.factorial(n) / mp.factorial(2 * n) * c ** (2 * n) * mp.exp(4 * c)


# ----------------------------------------------------------------------------
# request script
# ----------------------------------------------------------------------------

class Script:
    """Expected sequence of draws with their answers.  Every site of OwnedRNG is served by a
    callable, so that a draw the scheme does not make (or makes with another shape) becomes a
    *requests* violation of the generator instead of a harness error."""

    FALLBACK = {"uniform": 0.5, "exponential": 1.0, "rand": 0.5, "rand_like": 0.5}

    def __init__(self, expected):
        self.expected = expected
        self.seen = []
        self.problems = []     # (class, message, observed, expected)

    def answers(self):
        return {s: (lambda shape, dtype, req, s=s: self._serve(s, shape, dtype, req)) for s in OwnedRNG.SITES}

    def _fallback(self, site, shape):
        if site == "randperm":
            return torch.arange(shape[0])
        return torch.full(tuple(shape), self.FALLBACK.get(site, 0.0), dtype=torch.float64)

    def _serve(self, site, shape, dtype, req):
        k = len(self.seen)
        self.seen.append(req)
        if k >= len(self.expected):
            self.problems.append((f"request_unexpected:{site}", f"draw #{k} {site}{tuple(shape)} is not part of the scheme",
                                  [site, list(shape)], None))
            return self._fallback(site, shape)
        e = self.expected[k]
        if e["site"] != site:
            self.problems.append((f"request_order:{site}", f"draw #{k} is {site}{tuple(shape)}, the scheme draws {e['site']}{tuple(e['shape'])}",
                                  [site, list(shape)], [e["site"], list(e["shape"])]))
            return self._fallback(site, shape)
        if tuple(e["shape"]) != tuple(shape):
            self.problems.append((f"request_shape:{site}", f"draw #{k} {site} has shape {tuple(shape)}, expected {tuple(e['shape'])}",
                                  list(shape), list(e["shape"])))
            return self._fallback(site, shape)
        if e.get("dtype") is not None and dtype != e["dtype"]:
            self.problems.append((f"request_dtype:{site}", f"draw #{k} {site} has dtype {dtype}, expected {e['dtype']}",
                                  str(dtype), str(e["dtype"])))
        for name, want in (e.get("params") or {}).items():
            got = req["params"].get(name)
            if got is None:
                self.problems.append((f"request_param:{site}.{name}", f"{site} has no parameter {name}", None, want))
                continue
            g = got.detach().to(torch.float64)
            w = torch.as_tensor(want, dtype=torch.float64)
            # the parameter tensor is built by torch.distributions in its own dtype:
            # tolerance = 8 eps of that dtype, relative (absolute for a zero parameter)
            tol = 8 * torch.finfo(got.dtype).eps if got.dtype.is_floating_point else 0.0
            if g.shape != w.shape or not bool(((g - w).abs() <= tol * w.abs().clamp(min=1e-300) + (w == 0) * tol).all()):
                self.problems.append((f"request_param:{site}.{name}", f"{site} requested with {name}={g.tolist()}, the scheme needs {w.tolist()}",
                                      g.tolist(), w.tolist()))
        return e["answer"]

    def finish(self):
        if len(self.seen) < len(self.expected):
            e = self.expected[len(self.seen)]
            self.problems.append((f"request_missing:{e['site']}", f"the scheme's draw #{len(self.seen)} {e['site']}{tuple(e['shape'])} was never made",
                                  len(self.seen), len(self.expected)))
        return self.problems


def call_owned(ctx, site, script, fn, block, mini=None):
    """Run fn() with every draw owned.  Returns the output or None (a violation was reported).
    ``mini``: smaller block that still makes the same requests (one leaf of the tree)."""
    if mini is not None:
        block = mini
    try:
        with OwnedRNG(script.answers()):
            out = fn()
    except HarnessError as e:
        ctx.violation(site, "request_unowned_draw", f"a source of randomness outside the scheme's draw sites was used: {e}",
                      block=block)
        return None
    except Exception as e:  # raised inside pfhedge where the scheme defines a value
        if blame(e) is None:
            raise
        ctx.violation(site, f"raises:{type(e).__name__}", f"{type(e).__name__}: {str(e)[:200]}",
                      observed=type(e).__name__, expected="a simulated path", block=block)
        return None
    for cls, msg, obs, exp in script.finish():
        ctx.violation(site, cls, msg, observed=obs, expected=exp, block=block)
    return out


# ----------------------------------------------------------------------------
# answer tree
# ----------------------------------------------------------------------------

class Tree:
    """Explicit answer tree.  Level t holds the nodes reached after t steps; children of a
    node are contiguous.  ans = dict of answers on the edge into the node, w = edge weight,
    tag = label of the edge (branch / jump count) used to condition law statements."""

    def __init__(self, root):
        self.state = [[root]]
        self.parent = [[-1]]
        self.ans = [[None]]
        self.w = [[mpf(1)]]
        self.tag = [[None]]
        self.kids = []          # kids[t][j] = (first, count) into level t+1

    def grow(self, children):
        t = len(self.state) - 1
        S, P, A, W, G, K = [], [], [], [], [], []
        for j, st in enumerate(self.state[t]):
            first = len(S)
            for a, w, s, g in children(st, t):
                S.append(s); P.append(j); A.append(a); W.append(w); G.append(g)
            K.append((first, len(S) - first))
        self.state.append(S); self.parent.append(P); self.ans.append(A); self.w.append(W); self.tag.append(G)
        self.kids.append(K)

    @property
    def depth(self):
        return len(self.state) - 1

    def n_nodes(self):
        return sum(len(s) for s in self.state)

    def ancestors(self, leaves=None):
        """anc[t] = LongTensor over the selected leaves: index of the ancestor at level t."""
        k = self.depth
        cur = torch.arange(len(self.state[k])) if leaves is None else torch.tensor(list(leaves), dtype=torch.long)
        anc = [None] * (k + 1)
        anc[k] = cur
        for t in range(k, 0, -1):
            cur = torch.tensor(self.parent[t], dtype=torch.long)[cur]
            anc[t - 1] = cur
        return anc

    def answer_tensor(self, key, anc, width=None):
        """(L, k) float64 (or (L, k, width)) tensor of the answers ``key`` along each leaf's path."""
        cols = []
        for t in range(1, self.depth + 1):
            vals = torch.tensor([a[key] for a in self.ans[t]], dtype=torch.float64)
            cols.append(vals[anc[t]])
        if not cols:
            L = len(anc[0])
            return torch.zeros((L, 0) if width is None else (L, 0, width), dtype=torch.float64)
        return torch.stack(cols, dim=1)

    def path_prob(self):
        P = [[mpf(1)]]
        for t in range(1, self.depth + 1):
            P.append([P[t - 1][p] * w for p, w in zip(self.parent[t], self.w[t])])
        return P

    def column(self, t, fn=float):
        return torch.tensor([fn(s) for s in self.state[t]], dtype=torch.float64)


def select_leaves(tree, block):
    if block.get("leaves") is not None:
        return list(block["leaves"])
    return None


def compare_levels(out, tree, anc, value_of, tol_of):
    """out: (L, k+1) tensor.  Returns ((level, leaf_row, observed, expected, tol) of the first deviating node or None, max err/tol).
    value_of(state) -> mpf; tol_of(t, j, state) -> float absolute tolerance."""
    worst = 0.0
    first = None
    o = out.detach().to(torch.float64)
    for t in range(tree.depth + 1):
        exp = torch.tensor([float(value_of(s)) for s in tree.state[t]], dtype=torch.float64)[anc[t]]
        tol = torch.tensor([float(tol_of(t, j, s)) for j, s in enumerate(tree.state[t])], dtype=torch.float64)[anc[t]]
        err = (o[:, t] - exp).abs()
        err = torch.where(torch.isfinite(o[:, t]), err, torch.full_like(err, float("inf")))
        ratio = err / tol.clamp(min=1e-300)
        ratio = torch.where((err == 0) & (tol == 0), torch.zeros_like(ratio), ratio)
        worst = max(worst, float(ratio.max())) if ratio.numel() else worst
        bad = (err > tol).nonzero().flatten()
        if len(bad) and first is None:
            i = int(bad[0])
            first = (t, i, float(o[i, t]), float(exp[i]), float(tol[i]))
    return first, worst


def note_margin(ctx, site, worst):
    """Histogram of max(|error| / tolerance) per conforming block (counters add up across workers)."""
    for b in (0.01, 0.1, 0.5, 1.0):
        if worst <= b:
            ctx.add(f"blocks with err/tol <= {b}: {site}", 1)
            return


def _one_leaf(block):
    """A block of the same configuration restricted to the first leaf / first rows (for replays of
    request-level violations, which do not depend on the answers)."""
    if "n_steps" in block:            # rough Bergomi impulse rows
        return block if block.get("rows") is not None else dict(block, rows=[1])
    return block if block.get("leaves") is not None else dict(block, leaves=[0])


def leaf_block(block, anc, row):
    b = {k: v for k, v in block.items() if k != "leaves"}
    b["leaves"] = [int(anc[-1][row])]
    return b


def check_shape(ctx, site, out, shape, dtype_name, block, what="output"):
    want = _eff(dtype_name)
    if tuple(out.shape) != tuple(shape) or out.dtype != want:
        ctx.violation(site, f"shape_or_dtype_{what}", f"{what} has shape {tuple(out.shape)} dtype {out.dtype}, expected {tuple(shape)} {want}",
                      observed=[list(out.shape), str(out.dtype)], expected=[list(shape), str(want)], block=block)
        return False
    return True


def law_check(ctx, site, cls, got, want, rtol, block, msg, atol=0):
    ctx.add("law_statements", 1)
    if not (abs(got - want) <= atol + rtol * abs(want)):
        ctx.violation(site, "law:" + cls, f"{msg}: model tree gives {mp.nstr(got, 17)}, closed form {mp.nstr(want, 17)}",
                      observed=float(got), expected=float(want), block={k: v for k, v in block.items() if k != "leaves"})
        return False
    return True


def node_moments(tree, t, j, f):
    """Weighted moments of f(child state) over the children of node j at level t:
    returns (sum w, mean, central second moment).  The variance is accumulated around the mean:
    the float quadrature weights are accurate to ~1e-16 *relative*, so a raw second moment of a
    state far from 0 would carry 1e-16 x^2 - not small against a variance of 1e-5."""
    first, n = tree.kids[t][j]
    ws = tree.w[t + 1][first:first + n]
    xs = [f(s) for s in tree.state[t + 1][first:first + n]]
    return weighted_moments(ws, xs)


def weighted_moments(ws, xs):
    s0 = sum(ws)
    mean = sum(w * x for w, x in zip(ws, xs)) / s0
    var = sum(w * (x - mean) ** 2 for w, x in zip(ws, xs)) / s0
    return s0, mean, var


def make_init(kind, values, dtype_name):
    """The documented ways of passing an initial state."""
    if kind == "tuple":
        return tuple(values)
    if kind == "float":
        return values[0]
    if kind == "tensor":
        return tuple(torch.tensor(v, dtype=_eff(dtype_name)) for v in values)
    if kind == "tensor1":
        return torch.tensor(values[0], dtype=_eff(dtype_name))
    # integer-valued / integer-typed states (cast_state accepts int; with dtype=None an int stays int64)
    if kind == "int":
        return int(values[0])
    if kind == "int_tuple":
        return tuple(int(v) for v in values)
    if kind == "int64":
        return torch.tensor(int(values[0]))
    if kind == "int64_tuple":
        return tuple(torch.tensor(int(v)) for v in values)
    raise KeyError(kind)


# ----------------------------------------------------------------------------
# Brownian / geometric Brownian
# ----------------------------------------------------------------------------

@family
def bm_tree(ctx, block):
    """block: gen ('brownian'|'geometric'), s0, mu, sigma, dt, depth, n, dtype, init, engine, via"""
    _mp()
    import pfhedge.stochastic as ps
    gen, dn = block["gen"], block["dtype"]
    site = "generate_brownian" if gen == "brownian" else "generate_geometric_brownian"
    s0, mu, sigma, dt, k, n = block["s0"], block["mu"], block["sigma"], block["dt"], block["depth"], block["n"]
    zs, ws = _gh(n, dn)
    step = R.brownian_step if gen == "brownian" else R.gbm_step
    # the initial state the implementation is given is the dtype-rounded one
    root = mpf(_rnd(s0, dn))
    tree = Tree(root)
    for _ in range(k):
        tree.grow(lambda st, t: [({"z": z}, w, step(st, mu, sigma, dt, z), None) for z, w in zip(zs, ws)])
    leaves = select_leaves(tree, block)
    anc = tree.ancestors(leaves)
    L = len(anc[0])
    Z = torch.cat([torch.full((L, 1), JUNK, dtype=torch.float64), tree.answer_tensor("z", anc)], dim=1)
    via = block.get("via", "function")
    explicit = block.get("engine") == "explicit"
    eng_log = []

    def engine(*size, dtype=None, device=None):
        eng_log.append((tuple(size), dtype))
        if tuple(size) != (L, k + 1):
            return torch.zeros(*size, dtype=dtype)
        return Z.to(dtype if dtype is not None else torch.get_default_dtype()).clone()

    expected = [] if explicit else [{"site": "randn", "shape": (L, k + 1), "dtype": _eff(dn), "answer": Z}]
    script = Script(expected)
    init = make_init(block.get("init", "tuple"), [s0], dn)

    def call():
        if via == "instrument":
            from pfhedge.instruments import BrownianStock
            st = BrownianStock(sigma=sigma, mu=mu, dt=dt, dtype=_tdtype(dn))
            st.simulate(n_paths=L, time_horizon=k * dt, init_state=init)
            return st.spot
        fn = ps.generate_brownian if gen == "brownian" else ps.generate_geometric_brownian
        kw = {"engine": engine} if explicit else {}
        return fn(L, k + 1, init_state=init, sigma=sigma, mu=mu, dt=dt, dtype=_tdtype(dn), **kw)

    if via == "instrument":
        site = "BrownianStock.simulate"
    out = call_owned(ctx, site, script, call, block, mini=_one_leaf(block))
    ctx.add("states", tree.n_nodes()); ctx.add("transitions", tree.n_nodes() - 1)
    ctx.add("traces_validated_against_impl", L)
    ctx.tick(tree.n_nodes() if leaves is None else (k + 1), nontrivial=(tree.n_nodes() - 1) if leaves is None else k)
    if out is None:
        return
    if explicit and eng_log != [((L, k + 1), _tdtype(dn))]:
        ctx.violation(site, "request_engine", f"engine called as {eng_log}, documented call is engine(n_paths, n_steps, dtype=dtype)",
                      observed=str(eng_log), expected=str([((L, k + 1), _tdtype(dn))]), block=block)
    if not check_shape(ctx, site, out, (L, k + 1), dn, block):
        return
    eps = _eps(dn)
    zmax = max(abs(z) for z in zs)
    T = k * dt
    # tolerance: the exponent / the sum has k+2 terms each carrying <= a few ulp of its magnitude
    E = abs(mu) * T + sigma * math.sqrt(dt) * k * zmax + sigma ** 2 * T / 2
    if gen == "brownian":
        atol = 8 * eps * (k + 2) * (abs(s0) + E) + 1e-300
        tol_of = lambda t, j, s: atol
    else:
        rt = 8 * eps * (k + 2) * (1 + E)
        tol_of = lambda t, j, s: rt * abs(float(s))
    first, worst = compare_levels(out, tree, anc, lambda s: s, tol_of)
    note_margin(ctx, site, worst)
    ctx.outcome((site, round(float(out.sum()), 9)))
    if first is not None:
        t, i, obs, exp, tol = first
        ctx.violation(site, "conformance_exact_solution" + ("_col0" if t == 0 else ""),
                      f"{site}: node at depth {t} differs from the exact solution of the SDE (|diff|={abs(obs - exp):.3e} > tol {tol:.1e}; "
                      f"s0={s0}, mu={mu}, sigma={sigma}, dt={dt}, {dn})", observed=obs, expected=exp, block=leaf_block(block, anc, i))
    if leaves is not None or _eff(dn) != torch.float64:
        return
    # ---- model-level law on the model tree
    dtm, mum, sgm = mpf(dt), mpf(mu), mpf(sigma)
    trunc = _gh_trunc(sgm * mp.sqrt(dtm), n)
    for t in range(k):
        for j, st in enumerate(tree.state[t]):
            if gen == "brownian":
                s0_, s1_, s2_ = node_moments(tree, t, j, lambda x: x)
                law_check(ctx, site, "step_mean", s1_, st + mum * dtm, LAW_RTOL, block, "E[X(t+dt)|X(t)]", atol=LAW_RTOL * sgm)
                law_check(ctx, site, "step_variance", s2_, sgm ** 2 * dtm, LAW_RTOL, block, "Var[X(t+dt)|X(t)]")
            else:
                s0_, s1_, s2_ = node_moments(tree, t, j, lambda x: x)
                law_check(ctx, site, "step_mean", s1_, st * mp.exp(mum * dtm), LAW_RTOL + 2 * trunc, block, "E[S(t+dt)|S(t)]")
                l0, l1, l2 = node_moments(tree, t, j, mp.log)
                law_check(ctx, site, "step_logvariance", l2, sgm ** 2 * dtm, LAW_RTOL, block, "Var[ln S(t+dt)|S(t)]")
    P = tree.path_prob()
    for t in range(1, k + 1):
        f = (lambda x: x) if gen == "brownian" else mp.log
        _, m1, _ = weighted_moments(P[t], tree.state[t])
        _, g1, gv = weighted_moments(P[t], [f(s) for s in tree.state[t]])
        if gen == "brownian":
            law_check(ctx, site, "mean", m1, root + mum * t * dtm, LAW_RTOL, block, f"E[X({t}dt)]", atol=LAW_RTOL * sgm)
            law_check(ctx, site, "variance", gv, sgm ** 2 * t * dtm, LAW_RTOL, block, f"Var[X({t}dt)]")
        else:
            law_check(ctx, site, "mean", m1, R.gbm_mean(root, mu, t * dtm), LAW_RTOL + 2 * t * trunc, block, f"E[S({t}dt)] = S0 e^(mu t)")
            law_check(ctx, site, "logvariance", gv, R.gbm_logvar(sigma, t * dtm), LAW_RTOL, block, f"Var[ln S({t}dt)] = sigma^2 t")
    if len(ctx.samples) < 1:
        i = L // 3
        ctx.sample({"family": "bm_tree", "block": block, "leaf": i, "answers_z": Z[i, 1:].tolist(),
                    "implementation_path": out[i].tolist(),
                    "model_path": [float(tree.state[t][int(anc[t][i])]) for t in range(k + 1)]})


# ----------------------------------------------------------------------------
# Vasicek
# ----------------------------------------------------------------------------

def _params_for_call(block, names, dn):
    """python floats or 0-dim tensors of the run dtype (documented: torch.Tensor or float)."""
    if block.get("params_as") == "tensor":
        return {nm: torch.tensor(block[nm], dtype=_eff(dn)) for nm in names}
    return {nm: block[nm] for nm in names}


def _rounding_hypothesis(block, names, dn):
    """True when python-float parameters are not representable in the default dtype although the
    run dtype is wider: only then can the 'rounded through the default dtype' class apply."""
    if block.get("params_as") == "tensor" or _eff(dn) != torch.float64 or torch.get_default_dtype() == torch.float64:
        return False
    return any(_through_default(block[nm]) != float(block[nm]) for nm in names)


class ParamSet:
    """Parameters as handed to the implementation, built ONCE per block so that repeated calls
    share the same tensor objects (documented: ``torch.Tensor or float``), with a snapshot to
    decide afterwards that the caller's tensors are bitwise unchanged."""

    def __init__(self, block, names, dn, init=None):
        self.kw = _params_for_call(block, names, dn)
        self.init = init
        self.snap = {nm: v.clone() for nm, v in self.kw.items() if isinstance(v, torch.Tensor)}
        it = init if isinstance(init, tuple) else ((init,) if isinstance(init, torch.Tensor) else ())
        self.init_snap = [(i, v.clone()) for i, v in enumerate(it) if isinstance(v, torch.Tensor)]
        self.init_t = it

    def check_unchanged(self, ctx, site, block, call_no):
        for nm, old in self.snap.items():
            new = self.kw[nm]
            if new.dtype != old.dtype or new.shape != old.shape or not torch.equal(new, old):
                ctx.violation(site, "mutates_parameter_tensor:" + nm,
                              f"{site}: the caller's tensor for {nm} was {float(old)!r} and is {float(new)!r} after call #{call_no + 1} "
                              f"(parameters are documented as torch.Tensor or float)", observed=float(new), expected=float(old),
                              block=_one_leaf(block))
        for i, old in self.init_snap:
            if not torch.equal(self.init_t[i], old):
                ctx.violation(site, "mutates_init_state_tensor", f"{site}: init_state[{i}] changed from {old.tolist()} to {self.init_t[i].tolist()}",
                              observed=self.init_t[i].tolist(), expected=old.tolist(), block=_one_leaf(block))


@family
def vasicek_tree(ctx, block):
    """block: x0 (None = default), kappa, theta, sigma, dt, depth, n, dtype, params_as, init, via"""
    _mp()
    import pfhedge.stochastic as ps
    site = "generate_vasicek"
    dn, k, n = block["dtype"], block["depth"], block["n"]
    names = ("kappa", "theta", "sigma", "dt")
    zs, ws = _gh(n, dn)
    x0 = block["x0"]

    def build(par):
        root = mpf(_rnd(block["theta"] if x0 is None else x0, dn))  # cast_state converts the initial state exactly
        tr = Tree(root)
        for _ in range(k):
            tr.grow(lambda st, t: [({"z": z}, w, R.ou_step(st, par["kappa"], par["theta"], par["sigma"], par["dt"], z), None)
                                   for z, w in zip(zs, ws)])
        return tr

    par = {nm: block[nm] for nm in names}
    tree = build(par)
    leaves = select_leaves(tree, block)
    anc = tree.ancestors(leaves)
    L = len(anc[0])
    Z = torch.cat([tree.answer_tensor("z", anc), torch.full((L, 1), JUNK, dtype=torch.float64)], dim=1)
    script = Script([{"site": "randn_like", "shape": (L, k + 1), "dtype": _eff(dn), "answer": Z}])
    init = None if x0 is None else make_init(block.get("init", "tuple"), [x0], dn)
    via = block.get("via", "function")

    reps = block.get("repeat", 1)
    ps_ = ParamSet(block, names, dn, init)
    holder = {}

    def call():
        if via == "instrument":
            if "st" not in holder:
                from pfhedge.instruments import VasicekRate
                holder["st"] = VasicekRate(dt=ps_.kw["dt"], dtype=_tdtype(dn), **{nm: ps_.kw[nm] for nm in ("kappa", "theta", "sigma")})
            st = holder["st"]
            st.simulate(n_paths=L, time_horizon=k * block["dt"], init_state=init)
            return st.spot
        return ps.generate_vasicek(L, k + 1, init_state=init, dtype=_tdtype(dn), **ps_.kw)

    if via == "instrument":
        site = "VasicekRate.simulate"
    eps = _eps(dn)
    zmax = max(abs(z) for z in zs)
    kd = block["kappa"] * block["dt"]
    sd = float(mp.sqrt(R.ou_var(block["kappa"], block["sigma"], block["dt"])))
    # 1 - e^{-2 kappa dt} loses log2(1/(kappa dt)) bits: the noise coefficient carries eps/(kappa dt)
    th = abs(block["theta"])
    xr = abs(float(tree.state[0][0]))
    atol = 8 * eps * (k + 2) * (th + xr + (1 + 1 / kd) * sd * k * zmax) + 1e-300
    for r in range(reps):
        script = Script([{"site": "randn_like", "shape": (L, k + 1), "dtype": _eff(dn), "answer": Z}])
        out = call_owned(ctx, site, script, call, block, mini=_one_leaf(block))
        ctx.add("states", tree.n_nodes()); ctx.add("transitions", tree.n_nodes() - 1)
        ctx.add("traces_validated_against_impl", L)
        ctx.tick(tree.n_nodes() if leaves is None else k + 1, nontrivial=(tree.n_nodes() - 1) if leaves is None else k)
        if out is None or not check_shape(ctx, site, out, (L, k + 1), dn, block):
            return
        ps_.check_unchanged(ctx, site, block, r)
        first, worst = compare_levels(out, tree, anc, lambda s: s, lambda t, j, s: atol)
        ctx.outcome((site, r, round(float(out.sum()), 9)))
        if first is not None:
            cls = "conformance_exact_ou_step"
            if _rounding_hypothesis(block, names, dn):
                alt = build({nm: _through_default(block[nm]) for nm in names})
                f2, _ = compare_levels(out, alt, anc, lambda s: s, lambda t, j, s: atol)
                if f2 is None:
                    cls = "float_params_rounded_through_default_dtype"
            t, i, obs, exp, tol = first
            if cls.startswith("conf"):
                cls += "_col0" if t == 0 else ("_repeated_call" if r > 0 else "")
            ctx.violation(site, cls,
                          f"{site}: call #{r + 1} with the same parameter objects: node at depth {t} differs from the exact OU transition "
                          f"(|diff|={abs(obs - exp):.3e} > tol {tol:.1e}; "
                          f"x0={x0}, kappa={block['kappa']}, theta={block['theta']}, sigma={block['sigma']}, dt={block['dt']}, {dn}, "
                          f"params as {block.get('params_as', 'float')})", observed=obs, expected=exp, block=leaf_block(block, anc, i))
            break
        else:
            note_margin(ctx, site, worst)
    if leaves is not None or _eff(dn) != torch.float64:
        return
    ka, th_, sg, dtm = (mpf(block[nm]) for nm in names)
    for t in range(k):
        for j, st in enumerate(tree.state[t]):
            s0_, s1_, s2_ = node_moments(tree, t, j, lambda x: x)
            law_check(ctx, site, "step_mean", s1_, R.ou_mean(st, ka, th_, dtm), LAW_RTOL, block, "E[X(t+dt)|X(t)]", atol=LAW_RTOL * sg)
            law_check(ctx, site, "step_variance", s2_, R.ou_var(ka, sg, dtm), LAW_RTOL, block, "Var[X(t+dt)|X(t)]")
    P = tree.path_prob()
    root = tree.state[0][0]
    for t in range(1, k + 1):
        _, m1, mv = weighted_moments(P[t], tree.state[t])
        law_check(ctx, site, "mean", m1, R.ou_mean(root, ka, th_, t * dtm), LAW_RTOL, block,
                  f"E[X({t}dt)] = theta + (x0-theta) e^(-kappa t)", atol=LAW_RTOL * sg)
        law_check(ctx, site, "variance", mv, R.ou_var(ka, sg, t * dtm), LAW_RTOL, block,
                  f"Var[X({t}dt)] = sigma^2 (1-e^(-2 kappa t))/(2 kappa)", atol=LAW_RTOL * sg ** 2)


# ----------------------------------------------------------------------------

def run(ctx):
    _mp()
    ctx.rule("per generator: every node of the depth-k answer tree (Gauss-Hermite / Gauss-Laguerre / Poisson-count / "
             "up-down / permutation / unit-impulse answers per draw site, full product, packed on the path axis) x "
             "parameter sets x initial states x dtype; non-trivial = nodes below the root (state depends on an answer)")
    ctx.assume("torch's primitives deliver the distributions they are asked for (requests are checked, generators are not tested)")
    ctx.assume("model-level law statements are evaluated in float64 trees only; float32 runs decide conformance only")
    ctx.assume("user-supplied sigma_fn is represented by four small functions (constant, spot-, time-dependent, smile)")
    jobs = []
    real_run = ctx.run
    ctx.run = lambda name, block: jobs.append((name, block))       # the run_* functions only enumerate
    try:
        run_diffusions(ctx)
        run_cir_heston(ctx)
        run_jumps(ctx)
        run_rbergomi(ctx)
        run_rest(ctx)
        run_int_states(ctx)
    finally:
        ctx.run = real_run
    if ctx.quick:
        for name, block in jobs:
            ctx.run(name, block)
        return
    order = []
    for name, _ in jobs:
        if name not in order:
            order.append(name)
    for name in order:
        blocks = [b for n_, b in jobs if n_ == name]
        if name in ("antithetic_perms", "sobol_boxmuller", "derivations"):
            for b in blocks:
                ctx.run(name, b)
        else:
            ctx.run_parallel(name, blocks)


def run_diffusions(ctx):
    q = ctx.quick
    depth, n = (3, 7) if q else (4, 9)
    mu_x = ctx.extra_symbol("mu", [-0.3, 0.15, 0.4, 1.0])
    s0_x = ctx.extra_symbol("s0", [0.3, 2.5, 40.0, 1e3])
    ctx.alphabet("normal answers", f"Gauss-Hermite nodes, n={n}, depth {depth}")
    ctx.alphabet("gbm (s0, mu, sigma, dt)", [[1.0, 0.0, 0.2, 1 / 250], [1.7, 0.1, 0.35, 1 / 12], [0.6, -0.2, 0.5, 1 / 4],
                                            [s0_x, mu_x, 0.2, 1 / 52]])
    cfgs = [(1.0, 0.0, 0.2, 1 / 250), (1.7, 0.1, 0.35, 1 / 12), (0.6, -0.2, 0.5, 1 / 4), (s0_x, mu_x, 0.2, 1 / 52)]
    if not q:
        cfgs += [(1.0, 0.05, 1.0, 1 / 4), (100.0, 0.0, 0.1, 1 / 365), (2.0, 0.3, 0.8, 1 / 12), (1.0, -0.5, 0.05, 1.0)]
    for gen in ("brownian", "geometric"):
        for (s0, mu, sg, dt) in cfgs:
            x0 = s0 if gen == "geometric" else s0 - 1.0
            for dn, init, eng in (("float64", "tuple", "default"), ("float32", "float", "explicit"), (None, "tensor", "default"),
                                  ("float64", "tensor1", "explicit")):
                if q and dn != "float64" and dt not in (1 / 250, 1 / 12):
                    continue
                ctx.run("bm_tree", {"gen": gen, "s0": x0, "mu": mu, "sigma": sg, "dt": dt, "depth": depth, "n": n,
                                    "dtype": dn, "init": init, "engine": eng})
        ctx.run("bm_tree", {"gen": gen, "s0": 1.25, "mu": 0.5, "sigma": 0.3, "dt": 1 / 16, "depth": 0, "n": n,
                            "dtype": "float64", "init": "tuple", "engine": "default"})
    ctx.run("bm_tree", {"gen": "geometric", "s0": 1.5, "mu": 0.25, "sigma": 0.375, "dt": 1 / 64, "depth": 2, "n": 5,
                        "dtype": "float64", "init": "tuple", "engine": "default", "via": "instrument"})
    # Vasicek: initial states {theta (default), 0, 2 theta, -theta, explicit theta} x dtype
    x_x = ctx.extra_symbol("x0", [0.01, 0.5, -0.2, 1.0])
    vas = [(1.0, 1 / 32, 1 / 32, 1 / 256), (2.5, 0.0625, 0.125, 1 / 16)]
    ctx.alphabet("vasicek (kappa, theta, sigma, dt)", vas + [[1.0, 0.04, 0.04, 1 / 250]])
    for (ka, th, sg, dt) in vas:
        for x0 in (None, 0.0, 2 * th, -th, th, x_x):
            for dn in ("float64", "float32"):
                if q and dn == "float32" and x0 not in (None, 0.0, 2 * th):
                    continue
                ctx.run("vasicek_tree", {"x0": x0, "kappa": ka, "theta": th, "sigma": sg, "dt": dt, "depth": depth, "n": n,
                                         "dtype": dn, "params_as": "float", "init": "tuple"})
    for x0 in (None, 0.0, 0.1):
        # non-dyadic parameters given as float64 tensors (exact), and as python floats
        base = {"x0": x0, "kappa": 1.0, "theta": 0.04, "sigma": 0.04, "dt": 1 / 250, "depth": depth, "n": n, "init": "tensor"}
        ctx.run("vasicek_tree", dict(base, dtype="float64", params_as="tensor"))
        ctx.run("vasicek_tree", dict(base, dtype="float64", params_as="float"))
        ctx.run("vasicek_tree", dict(base, dtype=None, params_as="float", init="float"))
    ctx.run("vasicek_tree", {"x0": 0.25, "kappa": 2.0, "theta": 0.125, "sigma": 0.0625, "dt": 1 / 64, "depth": 2, "n": 5,
                             "dtype": "float64", "params_as": "float", "init": "tuple", "via": "instrument"})
    # tensor-valued parameters (documented: torch.Tensor or float), the SAME tensor objects used for 3 calls:
    # conformance at every call, and the caller's tensors bitwise unchanged
    for dn_, via_ in (("float64", "function"), ("float32", "function"), (None, "function"), ("float64", "instrument"), (None, "instrument")):
        ctx.run("vasicek_tree", {"x0": 0.1, "kappa": 1.0, "theta": 0.04, "sigma": 0.04, "dt": 1 / 250, "depth": 2, "n": 5, "dtype": dn_,
                                 "params_as": "tensor", "init": "tensor", "repeat": 3, "via": via_})
    ctx.run("vasicek_tree", {"x0": None, "kappa": 2.5, "theta": 0.0625, "sigma": 0.125, "dt": 1 / 16, "depth": 2, "n": 5, "dtype": "float64",
                             "params_as": "float", "init": "tuple", "repeat": 3})


# ----------------------------------------------------------------------------
# CIR (QE scheme) and Heston (QE + Andersen log-spot update)
# ----------------------------------------------------------------------------

class VNode:
    """Variance state (and log-spot for Heston) with the tolerances that the float
    implementation is allowed at this node (derived while the tree is built)."""
    __slots__ = ("v", "x", "par", "_qe", "tolv", "tolx")

    def __init__(self, v, par, x=None, tolv=0.0, tolx=0.0):
        self.v, self.par, self.x, self.tolv, self.tolx, self._qe = v, par, x, tolv, tolx, None

    @property
    def qe(self):
        if self._qe is None:
            p = self.par
            self._qe = R.QE(self.v, p["kappa"], p["theta"], p["sigma"], p["dt"])
        return self._qe


C_QE = 64  # ulp budget of the ~40 float operations of one QE step


def _qe_cond(par):
    """1 - e^{-kappa dt} is formed by subtraction: it (and its square, hence s^2, psi, b, a, p,
    beta) carries a relative error eps/(kappa dt) each time it is used (twice in s^2)."""
    return 1 + 2 / (float(par["kappa"]) * float(par["dt"]))


def _qe_children(node, zs, wz, xl, wl, dn, eps):
    """Answers (z, u), weights and child variance states of one QE step from ``node``."""
    qe, par = node.qe, node.par
    cond = _qe_cond(par)
    if abs(qe.psi - R.PSI_CRIT) <= 1000 * eps * cond * qe.psi:
        raise HarnessError(f"psi={mp.nstr(qe.psi, 12)} too close to the switch for a decidable branch in {dn}")
    # first-order propagation of the parent's error: |dV'/dV| by a difference quotient of the model
    h = mpf("1e-12") * max(qe.v, mpf(par["theta"]))
    qh = R.QE(qe.v + h, par["kappa"], par["theta"], par["sigma"], par["dt"])
    out = []

    def child(ans, w, vnew, vnew_h, tag, scale):
        G = float(abs(vnew_h - vnew) / h)
        tolv = C_QE * eps * cond * float(scale) + 2 * G * node.tolv
        out.append((ans, w, vnew, tolv, tag))

    m = qe.m
    if qe.quadratic:
        for z, w in zip(zs, wz):
            vn = qe.sample(z=z)
            vh = qh.sample(z=z) if qh.quadratic else vn
            # |a (b+z)^2| <= 2 m (1 + z^2): error budget relative to that magnitude
            child({"z": z, "u": 0.5}, w, vn, vh, "Q", 2 * m * (1 + mpf(z) ** 2))
    else:
        u0 = _rnd(float(qe.p) / 2, dn)
        child({"z": JUNK, "u": u0}, qe.p, mpf(0), mpf(0), "E0", 0)
        top = _rnd(1.0, dn) - _eps(dn) / 2          # largest value below 1 in the run dtype
        for x, w in zip(xl, wl):
            u = min(_rnd(float(qe.u_of_x(x)), dn), top)
            vn = qe.sample(u=u)
            vh = qh.sample(u=u) if not qh.quadratic else vn
            # V' = ln((1-p)/(1-u))/beta: errors of p, beta ~ cond*eps relative, of 1-u one ulp of 1
            one_minus_u = 1 - mpf(u)
            child({"z": JUNK, "u": u}, (1 - qe.p) * w, vn, vh, "E",
                  m * (qe.psi + 1) * (1 + eps / cond / one_minus_u) + vn)
    return out


@family
def cir_tree(ctx, block):
    """block: v0 (None = theta), kappa, theta, sigma, dt, depth, nz, nl, dtype, params_as, init, via"""
    _mp()
    import pfhedge.stochastic as ps
    site = "generate_cir"
    dn, k = block["dtype"], block["depth"]
    names = ("kappa", "theta", "sigma", "dt")
    eps = _eps(dn)
    zs, wz = _gh(block["nz"], dn)
    xl, wl = _gl(block["nl"])
    v0 = block["v0"]

    def build(par):
        root = VNode(mpf(_rnd(block["theta"] if v0 is None else v0, dn)), par)
        tr = Tree(root)
        for _ in range(k):
            tr.grow(lambda st, t: [(a, w, VNode(vn, par, tolv=tv), g) for a, w, vn, tv, g in
                                   _qe_children(st, zs, wz, xl, wl, dn, eps)])
        return tr

    par = {nm: block[nm] for nm in names}
    tree = build(par)
    leaves = select_leaves(tree, block)
    anc = tree.ancestors(leaves)
    L = len(anc[0])
    pad = torch.full((L, 1), JUNK, dtype=torch.float64)
    Z = torch.cat([tree.answer_tensor("z", anc), pad], dim=1)
    U = torch.cat([tree.answer_tensor("u", anc), pad * 0 + 0.25], dim=1)
    script = Script([{"site": "randn_like", "shape": (L, k + 1), "dtype": _eff(dn), "answer": Z},
                     {"site": "rand_like", "shape": (L, k + 1), "dtype": _eff(dn), "answer": U}])
    init = None if v0 is None else make_init(block.get("init", "tuple"), [v0], dn)
    via = block.get("via", "function")

    reps = block.get("repeat", 1)
    ps_ = ParamSet(block, names, dn, init)
    holder = {}

    def call():
        if via == "instrument":
            if "st" not in holder:
                from pfhedge.instruments import CIRRate
                holder["st"] = CIRRate(dt=ps_.kw["dt"], dtype=_tdtype(dn), **{nm: ps_.kw[nm] for nm in ("kappa", "theta", "sigma")})
            st = holder["st"]
            st.simulate(n_paths=L, time_horizon=k * block["dt"], init_state=init)
            return st.spot
        return ps.generate_cir(L, k + 1, init_state=init, dtype=_tdtype(dn), **ps_.kw)

    if via == "instrument":
        site = "CIRRate.simulate"
    nn = tree.n_nodes()
    tags = {g for lv in tree.tag[1:] for g in lv}
    both = int("Q" in tags and "E" in tags)
    for g in tags:
        ctx.add("qe_branch_" + g, sum(1 for lv in tree.tag[1:] for x in lv if x == g))
    for r in range(reps):
        script = Script([{"site": "randn_like", "shape": (L, k + 1), "dtype": _eff(dn), "answer": Z},
                         {"site": "rand_like", "shape": (L, k + 1), "dtype": _eff(dn), "answer": U}])
        out = call_owned(ctx, site, script, call, block, mini=_one_leaf(block))
        ctx.add("states", nn); ctx.add("transitions", nn - 1); ctx.add("traces_validated_against_impl", L)
        ctx.tick(nn if leaves is None else k + 1, nontrivial=(nn - 1) if leaves is None else k)
        if out is None or not check_shape(ctx, site, out, (L, k + 1), dn, block):
            return
        ps_.check_unchanged(ctx, site, block, r)
        first, worst = compare_levels(out, tree, anc, lambda s: s.v, lambda t, j, s: s.tolv)
        ctx.outcome((site, r, round(float(out.sum()), 9), both))
        if first is not None:
            t, i, obs, exp, tol = first
            j = int(anc[t][i])
            cls = "conformance_qe_" + ({"Q": "quadratic", "E": "exponential", "E0": "exponential_atom", None: "col0"}[tree.tag[t][j]])
            if r > 0:
                cls += "_repeated_call"
            if _rounding_hypothesis(block, names, dn):
                alt = build({nm: _through_default(block[nm]) for nm in names})
                f2, _ = compare_levels(out, alt, anc, lambda s: s.v, lambda t, j, s: s.tolv)
                if f2 is None:
                    cls = "float_params_rounded_through_default_dtype"
            ctx.violation(site, cls, f"{site}: call #{r + 1} with the same parameter objects: node at depth {t} differs from Andersen's QE step "
                          f"(|diff|={abs(obs - exp):.3e} > tol {tol:.1e}; "
                          f"v0={v0}, kappa={block['kappa']}, theta={block['theta']}, sigma={block['sigma']}, dt={block['dt']}, {dn}, "
                          f"params as {block.get('params_as', 'float')})", observed=obs, expected=exp, block=leaf_block(block, anc, i))
            break
        else:
            note_margin(ctx, site, worst)
    if leaves is not None or _eff(dn) != torch.float64:
        return
    ka, th, sg, dtm = (mpf(block[nm]) for nm in names)
    for t in range(k):
        for j, st in enumerate(tree.state[t]):
            s0_, s1_, s2_ = node_moments(tree, t, j, lambda c: c.v)
            br = "quadratic" if st.qe.quadratic else "exponential"
            law_check(ctx, site, "weights_" + br, s0_, mpf(1), LAW_RTOL, block, "sum of answer weights")
            law_check(ctx, site, "step_mean_" + br, s1_, R.cir_mean(st.v, ka, th, dtm), LAW_RTOL, block,
                      "E[V(t+dt)|V(t)] = theta + (v-theta) e^(-kappa dt)")
            law_check(ctx, site, "step_variance_" + br, s2_, R.cir_var(st.v, ka, th, sg, dtm), 10 * LAW_RTOL, block,
                      "Var[V(t+dt)|V(t)] (CIR closed form)")
            law_check(ctx, site, "scheme_moments_" + br, st.qe.scheme_var(), st.qe.s2, LAW_RTOL, block, "QE variance matching")
    P = tree.path_prob()
    root = tree.state[0][0].v
    for t in range(1, k + 1):
        _, m1, mv = weighted_moments(P[t], [s.v for s in tree.state[t]])
        law_check(ctx, site, "mean", m1, R.cir_mean(root, ka, th, t * dtm), LAW_RTOL, block, f"E[V({t}dt)|V(0)] (tower property)")
        law_check(ctx, site, "variance", mv, R.cir_var(root, ka, th, sg, t * dtm), 10 * t * LAW_RTOL, block,
                  f"Var[V({t}dt)|V(0)] (tower property)")
    if len([s_ for s_ in ctx.samples if s_.get("family") == "cir_tree"]) < 1 and both and k >= 2:
        i = L // 2
        ctx.sample({"family": "cir_tree", "block": block, "leaf": i, "answers_z": Z[i, :k].tolist(), "answers_u": U[i, :k].tolist(),
                    "implementation_path": out[i].tolist(), "branches": [tree.tag[t][int(anc[t][i])] for t in range(1, k + 1)],
                    "model_path": [float(tree.state[t][int(anc[t][i])].v) for t in range(k + 1)]})


@family
def heston_tree(ctx, block):
    """block: s0, v0 (None = defaults), kappa, theta, sigma, rho, dt, depth, nz, nl, ns, dtype, via;
    or 'starts': [[s0, v0], ...] instead of s0/v0 (each start is run as its own single-start block)"""
    if "starts" in block:
        base = {k_: v_ for k_, v_ in block.items() if k_ != "starts"}
        for s0_, v0_ in block["starts"]:
            _heston_one(ctx, dict(base, s0=s0_, v0=v0_))
        return
    _heston_one(ctx, block)


def _heston_one(ctx, block):
    _mp()
    import pfhedge.stochastic as ps
    site = "generate_heston"
    dn, k = block["dtype"], block["depth"]
    names = ("kappa", "theta", "sigma", "dt")
    eps = _eps(dn)
    zs, wz = _gh(block["nz"], dn)
    xl, wl = _gl(block["nl"])
    zss, wss = _gh(block["ns"], dn)
    s0, v0, rho = block["s0"], block["v0"], block["rho"]
    default_init = s0 is None

    def build(par_v):
        # variance parameters may be hypothesised as rounded (they go through generate_cir);
        # the log-spot constants use the python floats as given
        kk = R.andersen_k(block["kappa"], block["theta"], block["sigma"], rho, block["dt"])
        fk = [float(abs(x)) for x in kk]
        s_init = 1.0 if default_init else s0
        v_init = block["theta"] if default_init else v0
        x0 = mp.log(mpf(_rnd(s_init, dn)))
        root = VNode(mpf(_rnd(v_init, dn)), par_v, x=x0, tolx=4 * eps * (1 + float(abs(x0))))
        tr = Tree(root)

        def children(st, t):
            res = []
            for a, w, vn, tv, g in _qe_children(st, zs, wz, xl, wl, dn, eps):
                X = kk[3] * st.v + kk[4] * vn
                sq = mp.sqrt(X)
                for z2, w2 in zip(zss, wss):
                    xn = R.heston_logspot_step(st.x, st.v, vn, kk, z2)
                    tsq = 0.0 if X == 0 else abs(z2) * (fk[3] * st.tolv + fk[4] * tv) / (2 * float(sq))
                    mag = float(abs(st.x)) + fk[0] + fk[1] * float(st.v) + fk[2] * float(vn) + float(sq) * abs(z2)
                    tx = st.tolx + fk[1] * st.tolv + fk[2] * tv + tsq + 8 * eps * (mag + 1e-300)
                    res.append((dict(a, zs=z2), w * w2, VNode(vn, par_v, x=xn, tolv=tv, tolx=tx), (g, a["z"], a["u"])))
            return res

        for _ in range(k):
            tr.grow(children)
        return tr, kk

    par = {nm: block[nm] for nm in names}
    tree, kk = build(par)
    leaves = select_leaves(tree, block)
    anc = tree.ancestors(leaves)
    L = len(anc[0])
    pad = torch.full((L, 1), JUNK, dtype=torch.float64)
    Z = torch.cat([tree.answer_tensor("z", anc), pad], dim=1)
    U = torch.cat([tree.answer_tensor("u", anc), pad * 0 + 0.25], dim=1)
    ZS = torch.cat([tree.answer_tensor("zs", anc), pad], dim=1)
    script = Script([{"site": "randn_like", "shape": (L, k + 1), "dtype": _eff(dn), "answer": Z},
                     {"site": "rand_like", "shape": (L, k + 1), "dtype": _eff(dn), "answer": U},
                     {"site": "randn_like", "shape": (L, k + 1), "dtype": _eff(dn), "answer": ZS}])
    init = None if default_init else make_init(block.get("init", "tuple"), [s0, v0], dn)
    via = block.get("via", "function")

    def call():
        if via == "instrument":
            from pfhedge.instruments import HestonStock
            st = HestonStock(kappa=block["kappa"], theta=block["theta"], sigma=block["sigma"], rho=rho, dt=block["dt"],
                             dtype=_tdtype(dn))
            st.simulate(n_paths=L, time_horizon=k * block["dt"], init_state=init)
            return st.spot, st.variance
        o = ps.generate_heston(L, k + 1, init_state=init, kappa=block["kappa"], theta=block["theta"], sigma=block["sigma"],
                               rho=rho, dt=block["dt"], dtype=_tdtype(dn))
        return o.spot, o.variance

    if via == "instrument":
        site = "HestonStock.simulate"
    out = call_owned(ctx, site, script, call, block, mini=_one_leaf(block))
    nn = tree.n_nodes()
    ctx.add("states", nn); ctx.add("transitions", nn - 1); ctx.add("traces_validated_against_impl", L)
    ctx.tick(nn if leaves is None else k + 1, nontrivial=(nn - 1) if leaves is None else k)
    if out is None:
        return
    spot, var = out
    if not (check_shape(ctx, site, spot, (L, k + 1), dn, block, "spot") and check_shape(ctx, site, var, (L, k + 1), dn, block, "variance")):
        return
    ctx.outcome((site, round(float(spot.sum()), 9)))
    first, worst_v = compare_levels(var, tree, anc, lambda s: s.v, lambda t, j, s: s.tolv)
    hyp = None
    if first is not None:
        t, i, obs, exp, tol = first
        cls = "conformance_variance_qe"
        if _rounding_hypothesis(block, names, dn):
            alt, _ = build({nm: _through_default(block[nm]) for nm in names})
            f2, _ = compare_levels(var, alt, anc, lambda s: s.v, lambda t, j, s: s.tolv)
            if f2 is None:
                cls, hyp = "float_params_rounded_through_default_dtype", alt
        ctx.violation(site, cls, f"{site}: variance node at depth {t} differs from the QE step (|diff|={abs(obs - exp):.3e} > tol {tol:.1e}; "
                      f"init=({s0},{v0}), kappa={block['kappa']}, theta={block['theta']}, sigma={block['sigma']}, rho={rho}, dt={block['dt']}, {dn})",
                      observed=obs, expected=exp, block=leaf_block(block, anc, i))
    if first is None or hyp is not None:
        tr = hyp if hyp is not None else tree
        # S = exp(x): relative tolerance = tolerance of the exponent + exp rounding
        f3, worst_s = compare_levels(spot, tr, anc, lambda s: mp.exp(s.x),
                                     lambda t, j, s: float(mp.exp(s.x)) * (s.tolx + 4 * eps * (1 + float(abs(s.x)))))
        if f3 is not None:
            t, i, obs, exp, tol = f3
            ctx.violation(site, "conformance_logspot_update" + ("_col0" if t == 0 else ""),
                          f"{site}: spot node at depth {t} differs from Andersen's ln S update K0..K4 (|diff|={abs(obs - exp):.3e} > tol {tol:.1e}; "
                          f"init=({s0},{v0}), kappa={block['kappa']}, theta={block['theta']}, sigma={block['sigma']}, rho={rho}, dt={block['dt']}, {dn})",
                          observed=obs, expected=exp, block=leaf_block(block, anc, i))
        elif first is None:
            note_margin(ctx, site, max(worst_v, worst_s))
    if leaves is not None or _eff(dn) != torch.float64:
        return
    # ---- model-level law: one-step correlation and growth at every internal node
    dtf, sgf = float(block["dt"]), float(block["sigma"])
    k0, k1, k2, k3, k4 = kk
    A = k2 + k4 / 2
    for t in range(k):
        for j, st in enumerate(tree.state[t]):
            first_c, n_c = tree.kids[t][j]
            sw = sx = sv = sxx = svv = sxv = sg_ = mpf(0)
            for c in range(first_c, first_c + n_c):
                w = tree.w[t + 1][c]; ch = tree.state[t + 1][c]
                dx, dv = ch.x - st.x, ch.v - st.v
                sw += w; sx += w * dx; sv += w * dv; sxx += w * dx * dx; svv += w * dv * dv; sxv += w * dx * dv
                sg_ += w * mp.exp(dx)
            corr = (sxv - sx * sv) / mp.sqrt((sxx - sx ** 2) * (svv - sv ** 2))
            qe = st.qe
            br = "quadratic" if qe.quadratic else "exponential"
            law_check(ctx, site, "step_correlation_formula_" + br, corr, R.heston_step_corr(qe, kk), mpf("1e-9"), block,
                      "Corr(dlnS, dV | V) of the tree vs the scheme's closed form", atol=mpf("1e-12"))
            dev = float(abs(corr - mpf(rho)))
            tagp = f"kappa={block['kappa']}, theta={block['theta']}, sigma={block['sigma']}, rho={rho}, dt={round(dtf, 6)}, depth={k}"
            key = ("heston max|corr-rho| (asserted <= 0.02): " if dtf <= 1 / 52 + 1e-12 else "heston max|corr-rho| (reported, not asserted): ") + tagp
            ctx.info[key] = max(ctx.info.get(key, 0.0), round(dev, 6))
            if dtf <= 1 / 52 + 1e-12:
                law_check(ctx, site, "step_correlation_rho", corr, mpf(rho), 0, block,
                          f"one-step Corr(dlnS, dV) within 0.02 of rho={rho} (v={mp.nstr(st.v, 6)})", atol=mpf("0.02"))
            if rho != 0 and dtf <= 1 / 12 + 1e-12:
                ctx.add("law_statements", 1)
                if (corr > 0) != (rho > 0):
                    ctx.violation(site, "law:step_correlation_sign", f"sign of one-step correlation {mp.nstr(corr, 8)} differs from rho={rho}",
                                  observed=float(corr), expected=rho, block=block)
            g = R.heston_step_growth(qe, kk)
            if g is None:
                ctx.add("growth_infinite_nodes", 1)
                continue
            # the tree's quadrature of E[e^{A V'}] is accurate when the exponent varies little over the answers
            small = (abs(2 * A * qe.a * qe.b) <= mpf("0.3") and abs(A * qe.a) <= mpf("0.02")) if qe.quadratic else (abs(A / qe.beta) <= mpf("0.2"))
            if small and block["nz"] >= 9 and block["ns"] >= 5:
                vmax = max(tree.state[t + 1][c].v for c in range(first_c, first_c + n_c))
                trunc = _gh_trunc(mp.sqrt(k3 * st.v + k4 * vmax), block["ns"])
                law_check(ctx, site, "step_growth_formula_" + br, sg_, g, mpf("1e-8") + 2 * trunc, block,
                          "E[S'/S | V] of the tree vs the scheme's closed form")
            defect = float(abs(g - 1))
            if dtf <= 1 / 250 + 1e-12 and sgf <= 1:
                key = "heston plain-QE martingale defect per step (asserted <= 1e-6): " + tagp
                ctx.info[key] = max(ctx.info.get(key, 0.0), defect)
                law_check(ctx, site, "step_martingale_" + br, g, mpf(1), 0, block,
                          f"E[S'/S | V={mp.nstr(st.v, 6)}] within 1e-6 of 1", atol=mpf("1e-6"))
            else:
                key = "heston plain-QE martingale defect per step (reported, not asserted): " + tagp
                ctx.info[key] = max(ctx.info.get(key, 0.0), defect)
    if len([s for s in ctx.samples if s.get("family") == "heston_tree"]) < 1 and k >= 2:
        i = L // 2
        ctx.sample({"family": "heston_tree", "block": block, "leaf": i,
                    "answers": {"z": Z[i, :k].tolist(), "u": U[i, :k].tolist(), "zs": ZS[i, :k].tolist()},
                    "implementation_spot": spot[i].tolist(), "implementation_variance": var[i].tolist(),
                    "model_spot": [float(mp.exp(tree.state[t][int(anc[t][i])].x)) for t in range(k + 1)],
                    "model_variance": [float(tree.state[t][int(anc[t][i])].v) for t in range(k + 1)]})


def psi_crossing(kappa, theta, sigma, dt):
    """v* with psi(v*) = 1.5 (None when psi never crosses on v >= 0): s2(v) = 1.5 m(v)^2 is a
    quadratic in v; psi is decreasing where it crosses."""
    ka, th, sg, dt = mpf(kappa), mpf(theta), mpf(sigma), mpf(dt)
    e = mp.exp(-ka * dt)
    a1 = sg ** 2 * e * (1 - e) / ka
    a0 = th * sg ** 2 * (1 - e) ** 2 / (2 * ka)
    b1, b0 = e, th * (1 - e)
    c = R.PSI_CRIT
    # c (b1 v + b0)^2 - a1 v - a0 = 0
    A, B, C = c * b1 ** 2, 2 * c * b1 * b0 - a1, c * b0 ** 2 - a0
    disc = B ** 2 - 4 * A * C
    if disc < 0:
        return None
    r = (-B + mp.sqrt(disc)) / (2 * A)
    return r if r > 0 else None


def run_cir_heston(ctx):
    q = ctx.quick
    V0 = [0.0, 1e-6, 1e-4, 1e-3, 0.01, None, 0.3]
    v_x = ctx.extra_symbol("v0", [3e-5, 0.002, 0.05, 0.11, 1.0])
    # (kappa, theta, sigma, dt): defaults; high vol-of-vol; slow reversion; coarse; dyadic
    P = [(1.0, 0.04, 0.2, 1 / 250), (2.0, 0.09, 1.0, 1 / 250), (0.5, 0.04, 0.5, 1 / 52), (3.0, 0.02, 0.3, 1 / 12),
         (1.0, 1 / 32, 0.25, 1 / 256), (2.0, 1 / 16, 1.0, 1 / 16)]
    if not q:
        P += [(1.5, 0.04, 2.0, 1 / 250), (0.2, 0.1, 0.6, 1 / 4), (5.0, 0.01, 0.1, 1 / 52)]
    ctx.alphabet("cir (kappa, theta, sigma, dt)", [list(p) for p in P])
    ctx.alphabet("cir v0", ["theta" if v is None else v for v in V0] + [v_x, "psi=1.5 -/+ 1e-6"])
    nz, nl = (9, 12)
    ctx.alphabet("QE answers", f"quadratic branch: {nz} Gauss-Hermite nodes; exponential branch: atom U=p/2 + {nl} Gauss-Laguerre quantiles")
    for (ka, th, sg, dt) in P:
        dyadic = _through_default(th) == th and _through_default(sg) == sg and _through_default(dt) == dt
        starts = list(V0) + [v_x]
        vs = psi_crossing(ka, th, sg, dt)
        if vs is not None:
            starts += [float(vs * (1 - mpf("1e-6"))), float(vs * (1 + mpf("1e-6")))]
        for v0 in starts:
            base = {"v0": v0, "kappa": ka, "theta": th, "sigma": sg, "dt": dt, "depth": 1, "nz": nz, "nl": nl, "init": "tuple"}
            ctx.run("cir_tree", dict(base, dtype="float64", params_as="float" if dyadic else "tensor"))
            if v0 in (0.0, None, 0.3):
                ctx.run("cir_tree", dict(base, dtype="float32", params_as="float", nl=6, init="float" if v0 is not None else "tuple"))
        # tower property: depth-3 trees from non-default starts
        deep = [0.0, 0.3, v_x] if q else [0.0, 1e-4, 0.01, 0.3, v_x, None]
        for v0 in deep:
            ctx.run("cir_tree", {"v0": v0, "kappa": ka, "theta": th, "sigma": sg, "dt": dt, "depth": 3,
                                 "nz": 5 if q else 9, "nl": 6 if q else 12, "dtype": "float64",
                                 "params_as": "float" if dyadic else "tensor", "init": "tensor"})
    # python-float (non-dyadic) parameters in float64, default dtype, instrument
    for v0 in (None, 0.0, 0.3):
        ctx.run("cir_tree", {"v0": v0, "kappa": 1.0, "theta": 0.04, "sigma": 0.2, "dt": 1 / 250, "depth": 2, "nz": 5, "nl": 6,
                             "dtype": "float64", "params_as": "float", "init": "tuple"})
        ctx.run("cir_tree", {"v0": v0, "kappa": 1.0, "theta": 0.04, "sigma": 0.2, "dt": 1 / 250, "depth": 2, "nz": 5, "nl": 6,
                             "dtype": None, "params_as": "float", "init": "tuple"})
    ctx.run("cir_tree", {"v0": 0.25, "kappa": 2.0, "theta": 1 / 16, "sigma": 1.0, "dt": 1 / 16, "depth": 2, "nz": 5, "nl": 6,
                         "dtype": "float64", "params_as": "float", "init": "tuple", "via": "instrument"})
    for dn_, via_ in (("float64", "function"), ("float32", "function"), (None, "function"), ("float64", "instrument"), (None, "instrument")):
        for (ka, th, sg, dt) in ((1.0, 0.04, 0.2, 1 / 250), (2.0, 1 / 16, 1.0, 1 / 16)):
            ctx.run("cir_tree", {"v0": 0.01, "kappa": ka, "theta": th, "sigma": sg, "dt": dt, "depth": 2, "nz": 5, "nl": 6, "dtype": dn_,
                                 "params_as": "tensor", "init": "tensor", "repeat": 3, "via": via_})
    # ---- Heston
    rhos = [-0.9, -0.3, 0.0, 0.7]
    rho_x = ctx.extra_symbol("rho", [-0.5, 0.25, 0.5, 0.9])
    ctx.alphabet("heston rho", rhos + [rho_x])
    HP = [(1.0, 1 / 32, 0.25, 1 / 256), (2.0, 1 / 16, 1.0, 1 / 256), (0.5, 1 / 32, 0.5, 1 / 64), (2.0, 1 / 16, 1.0, 1 / 16)]
    if not q:
        HP += [(3.0, 1 / 64, 0.25, 1 / 16), (1.0, 1 / 32, 0.125, 1 / 1024)]
    ctx.alphabet("heston (kappa, theta, sigma, dt) (dyadic: python floats are exact in every dtype)", [list(p) for p in HP])
    for (ka, th, sg, dt) in HP:
        for rho in rhos + [rho_x]:
            hb = {"kappa": ka, "theta": th, "sigma": sg, "rho": rho, "dt": dt, "dtype": "float64"}
            ctx.run("heston_tree", dict(hb, starts=[[None if v0 is None else 1.25, v0] for v0 in V0], depth=1, nz=nz, nl=nl, ns=5, init="tuple"))
            ctx.run("heston_tree", dict(hb, starts=[[0.75, v0] for v0 in ([0.0, 0.3] if q else [0.0, 1e-3, 0.3, th])],
                                        depth=2 if q else 3, nz=5, nl=6, ns=3, init="tensor"))
            ctx.run("heston_tree", {"s0": 2.0, "v0": 0.0625, "kappa": ka, "theta": th, "sigma": sg, "rho": rho, "dt": dt, "depth": 2,
                                    "nz": 5, "nl": 4, "ns": 3, "dtype": "float32", "init": "tuple"})
    for rho in (-0.7, 0.7):
        # the library's default (non-dyadic) parameters: float64 and default dtype
        ctx.run("heston_tree", {"s0": None, "v0": None, "kappa": 1.0, "theta": 0.04, "sigma": 0.2, "rho": rho, "dt": 1 / 250,
                                "depth": 2, "nz": 5, "nl": 6, "ns": 3, "dtype": None, "init": "tuple"})
        ctx.run("heston_tree", {"s0": None, "v0": None, "kappa": 1.0, "theta": 0.04, "sigma": 0.2, "rho": rho, "dt": 1 / 250,
                                "depth": 2, "nz": 5, "nl": 6, "ns": 3, "dtype": "float64", "init": "tuple"})
    ctx.run("heston_tree", {"s0": 1.5, "v0": 0.125, "kappa": 2.0, "theta": 1 / 16, "sigma": 0.5, "rho": -0.5, "dt": 1 / 64, "depth": 2,
                            "nz": 5, "nl": 6, "ns": 3, "dtype": "float64", "init": "tuple", "via": "instrument"})


# ----------------------------------------------------------------------------
# Merton / Kou jump diffusions
# ----------------------------------------------------------------------------

def _pois(L, c):
    return mp.exp(-L) * L ** c / mp.factorial(c)


@family
def merton_tree(ctx, block):
    """block: s0, mu, sigma, lam, jm, js, dt, depth, counts, nz, nj, dtype, init, engine, via"""
    _mp()
    import pfhedge.stochastic as ps
    site = "generate_merton_jump"
    dn, k = block["dtype"], block["depth"]
    s0, mu, sigma, lam, jm, js, dt = (block[x] for x in ("s0", "mu", "sigma", "lam", "jm", "js", "dt"))
    counts = block["counts"] if lam > 0 else [0]
    zs, wz = _gh(block["nz"], dn)
    zj, wj = _gh(block["nj"], dn)
    Lm = mpf(lam) * mpf(dt)

    # the exact solution is multiplicative: S' = S * f(answers); f is evaluated once per answer
    # (by the reference step started at 1) and shared by all nodes
    factors = []
    for c in counts:
        jumps = [(JUNK, mpf(1))] if c == 0 else list(zip(zj, wj))
        for y, wy in jumps:
            for z, w in zip(zs, wz):
                if lam == 0:
                    f = R.gbm_step(1, mu, sigma, dt, z)      # zero intensity: the model IS geometric Brownian motion
                else:
                    f = R.merton_step(1, mu, sigma, lam, jm, js, dt, z, c, 0 if c == 0 else y)
                factors.append(({"z": z, "c": float(c), "y": y}, wy * w, f, c))

    def children(st, t):
        return [(a, w, st * f, c) for a, w, f, c in factors]

    tree = Tree(mpf(_rnd(s0, dn)))
    for _ in range(k):
        tree.grow(children)
    leaves = select_leaves(tree, block)
    anc = tree.ancestors(leaves)
    L = len(anc[0])
    Zd = torch.cat([torch.full((L, 1), JUNK, dtype=torch.float64), tree.answer_tensor("z", anc)], dim=1)
    Cn = tree.answer_tensor("c", anc)
    Yj = tree.answer_tensor("y", anc)
    explicit = block.get("engine") == "explicit"
    via = block.get("via", "function")
    eng_q = [Yj, Zd]
    eng_log = []

    def engine(*size, dtype=None, device=None):
        eng_log.append((tuple(size), dtype))
        a = eng_q.pop(0) if eng_q else torch.zeros(*size)
        if tuple(a.shape) != tuple(size):
            return torch.zeros(*size, dtype=dtype)
        return a.to(dtype if dtype is not None else torch.get_default_dtype()).clone()

    expected = [{"site": "poisson", "shape": (L, k), "params": {"rate": lam * dt}, "answer": Cn}]
    if not explicit:
        expected += [{"site": "randn", "shape": (L, k), "dtype": _eff(dn), "answer": Yj},
                     {"site": "randn", "shape": (L, k + 1), "dtype": _eff(dn), "answer": Zd}]
    script = Script(expected)
    init = make_init(block.get("init", "tuple"), [s0], dn)

    def call():
        kw = {"engine": engine} if explicit else {}
        if via == "instrument":
            from pfhedge.instruments import MertonJumpStock
            st = MertonJumpStock(mu=mu, sigma=sigma, jump_per_year=lam, jump_mean=jm, jump_std=js, dt=dt, dtype=_tdtype(dn), **kw)
            st.simulate(n_paths=L, time_horizon=k * dt, init_state=init)
            return st.spot
        return ps.generate_merton_jump(L, k + 1, init_state=init, mu=mu, sigma=sigma, jump_per_year=lam, jump_mean=jm,
                                       jump_std=js, dt=dt, dtype=_tdtype(dn), **kw)

    if via == "instrument":
        site = "MertonJumpStock.simulate"
    out = call_owned(ctx, site, script, call, block, mini=_one_leaf(block))
    nn = tree.n_nodes()
    ctx.add("states", nn); ctx.add("transitions", nn - 1); ctx.add("traces_validated_against_impl", L)
    ctx.tick(nn if leaves is None else k + 1, nontrivial=(nn - 1) if leaves is None else k)
    if out is None:
        return
    if explicit and eng_log != [((L, k), _tdtype(dn)), ((L, k + 1), _tdtype(dn))]:
        ctx.violation(site, "request_engine", f"engine called as {eng_log}", observed=str(eng_log),
                      expected=str([((L, k), _tdtype(dn)), ((L, k + 1), _tdtype(dn))]), block=block)
    if not check_shape(ctx, site, out, (L, k + 1), dn, block):
        return
    eps = _eps(dn)
    zmax, ymax, cmax = max(abs(z) for z in zs), max(abs(y) for y in zj), max(counts)
    comp = float(R.merton_compensator(jm, js)) if lam > 0 else 0.0
    E = abs(mu - lam * comp - sigma ** 2 / 2) * k * dt + sigma * math.sqrt(dt) * k * zmax + k * (cmax * abs(jm) + js * math.sqrt(cmax) * ymax)
    rt = 8 * eps * (k + 3) * (1 + E)
    first, worst = compare_levels(out, tree, anc, lambda s: s, lambda t, j, s: rt * abs(float(s)))
    ctx.outcome((site, round(float(out.sum()), 9)))
    if first is not None:
        t, i, obs, exp, tol = first
        c_here = tree.tag[t][int(anc[t][i])] if t > 0 else None
        cls = "conformance_zero_intensity_gbm" if lam == 0 else ("conformance_no_jump_step" if not c_here else "conformance_jump_step")
        ctx.violation(site, cls + ("_col0" if t == 0 else ""),
                      f"{site}: node at depth {t} differs from the exact solution (|diff|={abs(obs - exp):.3e} > tol {tol:.1e}; s0={s0}, mu={mu}, "
                      f"sigma={sigma}, lambda={lam}, jump_mean={jm}, jump_std={js}, dt={dt}, {dn})", observed=obs, expected=exp,
                      block=leaf_block(block, anc, i))
    else:
        note_margin(ctx, site, worst)
    if leaves is not None or _eff(dn) != torch.float64 or lam == 0:
        return
    # ---- law, conditional on the number of jumps c (tree), closed over c by mp.nsum (Poisson)
    mum, sgm, dtm, jmm, jsm, lamm = mpf(mu), mpf(sigma), mpf(dt), mpf(jm), mpf(js), mpf(lam)
    kc = R.merton_compensator(jm, js)
    trunc = _gh_trunc(sgm * mp.sqrt(dtm), block["nz"]) + _gh_trunc(jsm * mp.sqrt(cmax), block["nj"])
    cond = {}
    # S'/S does not depend on S (multiplicative step): the conditional law of one step is decided at the
    # root's children and holds verbatim at every node
    for t in range(min(1, k)):
        for j, st in enumerate(tree.state[t]):
            first_c, n_c = tree.kids[t][j]
            acc = {}
            for ch in range(first_c, first_c + n_c):
                c = tree.tag[t + 1][ch]; w = tree.w[t + 1][ch]
                r = tree.state[t + 1][ch] / st
                a = acc.setdefault(c, [mpf(0)] * 4)
                lr = mp.log(r)
                a[0] += w; a[1] += w * r; a[2] += w * lr; a[3] += w * lr * lr
            for c, a in acc.items():
                want = mp.exp((mum - lamm * kc) * dtm + c * (jmm + jsm ** 2 / 2))
                law_check(ctx, site, "step_growth_given_count", a[1], want, LAW_RTOL + 2 * trunc, block, f"E[S'/S | {c} jumps]")
                law_check(ctx, site, "step_logvariance_given_count", a[3] - a[2] ** 2, sgm ** 2 * dtm + c * jsm ** 2, LAW_RTOL, block,
                          f"Var[ln S'/S | {c} jumps]", atol=LAW_RTOL * sgm ** 2 * dtm)
                cond[c] = want
    # unconditional growth: sum over the Poisson law of the conditional closed form validated on the tree
    total = mp.nsum(lambda c: _pois(Lm, c) * mp.exp((mum - lamm * kc) * dtm + c * (jmm + jsm ** 2 / 2)), [0, mp.inf])
    law_check(ctx, site, "step_growth", total, mp.exp(mum * dtm), LAW_RTOL, block, "E[S(t+dt)/S(t)] = e^(mu dt) (martingale for mu=0)")
    if len([s for s in ctx.samples if s.get("family") == "merton_tree"]) < 1:
        i = L - 1
        ctx.sample({"family": "merton_tree", "block": block, "leaf": i, "counts": Cn[i].tolist(), "jump_normals": Yj[i].tolist(),
                    "normals": Zd[i, 1:].tolist(), "implementation_path": out[i].tolist(),
                    "model_path": [float(tree.state[t][int(anc[t][i])]) for t in range(k + 1)]})


@family
def kou_tree(ctx, block):
    """block: s0, mu, sigma, lam, up, dn_, p, dt, depth, counts, nz, nl, dtype, init, engine, via"""
    _mp()
    import pfhedge.stochastic as ps
    site = "generate_kou_jump"
    dn, k = block["dtype"], block["depth"]
    s0, mu, sigma, lam, up, down, p, dt = (block[x] for x in ("s0", "mu", "sigma", "lam", "up", "down", "p", "dt"))
    counts = block["counts"] if lam > 0 else [0]
    zs, wz = _gh(block["nz"], dn)
    xl, wl = _gl(block["nl"])
    eta_up, eta_dn = 1 / mpf(up), 1 / mpf(down)
    # 'hi_counts': jump counts above any plausible buffer cap.  The full (direction x size)^c product is out of reach
    # there, so each such count is answered by two fixed patterns cycling through the one-jump alphabet (every slot a
    # different answer): conformance only - the path must contain ALL the jumps drawn; no law weight is attached.
    hi_counts = list(block.get("hi_counts", [])) if lam > 0 else []
    M_ = max(counts + hi_counts)
    # one jump: direction atom (U < p => up) x Exp(1) quantile scaled by the mean; the unused size gets a junk value
    dirs = []
    if p > 0:
        dirs.append((_rnd(p / 2, "float32"), mpf(p), +1))
    if p < 1:
        dirs.append((_rnd((1 + p) / 2, "float32"), 1 - mpf(p), -1))
    one = []
    for u, wu, sgn in dirs:
        for x, w in zip(xl, wl):
            # torch.distributions builds Exponential(rate=<python float>) in the default dtype, so the
            # implementation receives sizes (and uniforms) of that dtype whatever the run dtype is:
            # the answers are float32-representable so that they arrive unchanged either way
            size = _rnd(x * (up if sgn > 0 else down), "float32")
            one.append(((u, size if sgn > 0 else JUNK * up, size if sgn < 0 else JUNK * down), wu * w, sgn * mpf(size)))
    pad = (0.25, JUNK * up, JUNK * down)

    factors = []
    for c in counts:
        for combo in itertools.product(one, repeat=c):
            slots = [x[0] for x in combo] + [pad] * (M_ - c)
            wc = mpf(1)
            for x in combo:
                wc *= x[1]
            ys = [x[2] for x in combo]
            for z, w in zip(zs, wz):
                if lam == 0:
                    f = R.gbm_step(1, mu, sigma, dt, z)
                else:
                    f = R.kou_step(1, mu, sigma, lam, p, eta_up, eta_dn, dt, z, ys)
                factors.append(({"z": z, "c": float(c), "u": [s_[0] for s_ in slots], "eu": [s_[1] for s_ in slots],
                                 "ed": [s_[2] for s_ in slots]}, wc * w, f, c))

    for c in hi_counts:
        for shift in (0, 1):
            combo = [one[(shift + 2 * i + i // len(one)) % len(one)] for i in range(c)]
            slots = [x[0] for x in combo] + [pad] * (M_ - c)
            ys = [x[2] for x in combo]
            for z, w in zip(zs, wz):
                f = R.kou_step(1, mu, sigma, lam, p, eta_up, eta_dn, dt, z, ys)
                factors.append(({"z": z, "c": float(c), "u": [s_[0] for s_ in slots], "eu": [s_[1] for s_ in slots],
                                 "ed": [s_[2] for s_ in slots]}, w / 2, f, ("pattern", c)))

    def children(st, t):
        return [(a, w, st * f, c) for a, w, f, c in factors]

    tree = Tree(mpf(_rnd(s0, dn)))
    for _ in range(k):
        tree.grow(children)
    leaves = select_leaves(tree, block)
    anc = tree.ancestors(leaves)
    L = len(anc[0])
    Zd = torch.cat([torch.full((L, 1), JUNK, dtype=torch.float64), tree.answer_tensor("z", anc)], dim=1)
    Cn = tree.answer_tensor("c", anc)
    Mx = int(Cn.max()) if Cn.numel() else 0          # the scheme needs max-count slots per step
    Uu = tree.answer_tensor("u", anc, width=M_)[..., :Mx]
    Eu = tree.answer_tensor("eu", anc, width=M_)[..., :Mx]
    Ed = tree.answer_tensor("ed", anc, width=M_)[..., :Mx]
    explicit = block.get("engine") == "explicit"
    via = block.get("via", "function")
    eng_log = []

    def engine(*size, dtype=None, device=None):
        eng_log.append((tuple(size), dtype))
        if tuple(size) != (L, k + 1):
            return torch.zeros(*size, dtype=dtype)
        return Zd.to(dtype if dtype is not None else torch.get_default_dtype()).clone()

    expected = [] if explicit else [{"site": "randn", "shape": (L, k + 1), "dtype": _eff(dn), "answer": Zd}]
    expected.append({"site": "poisson", "shape": (L, k), "params": {"rate": lam * dt}, "answer": Cn})
    if k > 0:
        expected += [{"site": "uniform", "shape": (L, k, Mx), "params": {"low": 0.0, "high": 1.0}, "answer": Uu},
                     {"site": "exponential", "shape": (L, k, Mx), "params": {"rate": 1 / up}, "answer": Eu},
                     {"site": "exponential", "shape": (L, k, Mx), "params": {"rate": 1 / down}, "answer": Ed}]
    script = Script(expected)
    init = make_init(block.get("init", "tuple"), [s0], dn)

    def call():
        kw = {"engine": engine} if explicit else {}
        if via == "instrument":
            from pfhedge.instruments import KouJumpStock
            st = KouJumpStock(sigma=sigma, mu=mu, jump_per_year=lam, jump_mean_up=up, jump_mean_down=down, jump_up_prob=p,
                              dt=dt, dtype=_tdtype(dn), **kw)
            st.simulate(n_paths=L, time_horizon=k * dt, init_state=init)
            return st.spot
        return ps.generate_kou_jump(L, k + 1, init_state=init, sigma=sigma, mu=mu, jump_per_year=lam, jump_mean_up=up,
                                    jump_mean_down=down, jump_up_prob=p, dt=dt, dtype=_tdtype(dn), **kw)

    if via == "instrument":
        site = "KouJumpStock.simulate"
    out = call_owned(ctx, site, script, call, block, mini=_one_leaf(block))
    nn = tree.n_nodes()
    ctx.add("states", nn); ctx.add("transitions", nn - 1); ctx.add("traces_validated_against_impl", L)
    ctx.tick(nn if leaves is None else k + 1, nontrivial=(nn - 1) if leaves is None else k)
    if out is None:
        return
    if explicit and eng_log != [((L, k + 1), _tdtype(dn))]:
        ctx.violation(site, "request_engine", f"engine called as {eng_log}", observed=str(eng_log),
                      expected=str([((L, k + 1), _tdtype(dn))]), block=block)
    if not check_shape(ctx, site, out, (L, k + 1), dn, block):
        return
    eps = _eps(dn)
    zmax, xmax = max(abs(z) for z in zs), max(xl)
    comp = float(R.kou_compensator(p, eta_up, eta_dn)) if lam > 0 else 0.0
    E = abs(mu - lam * comp - sigma ** 2 / 2) * k * dt + sigma * math.sqrt(dt) * k * zmax + k * M_ * xmax * max(up, down)
    rt = 8 * eps * (k + 3 + k * M_) * (1 + E)
    first, worst = compare_levels(out, tree, anc, lambda s: s, lambda t, j, s: rt * abs(float(s)))
    ctx.outcome((site, round(float(out.sum()), 9)))
    if first is not None:
        t, i, obs, exp, tol = first
        c_here = tree.tag[t][int(anc[t][i])] if t > 0 else None
        cls = "conformance_zero_intensity_gbm" if lam == 0 else ("conformance_no_jump_step" if not c_here else "conformance_jump_step")
        if isinstance(c_here, tuple):
            cls = "conformance_jump_step_many_jumps"
        ctx.violation(site, cls + ("_col0" if t == 0 else ""),
                      f"{site}: node at depth {t} differs from the exact solution (|diff|={abs(obs - exp):.3e} > tol {tol:.1e}; s0={s0}, mu={mu}, "
                      f"sigma={sigma}, lambda={lam}, up={up}, down={down}, p={p}, dt={dt}, {dn})", observed=obs, expected=exp,
                      block=leaf_block(block, anc, i))
    else:
        note_margin(ctx, site, worst)
    if leaves is not None or _eff(dn) != torch.float64 or lam == 0:
        return
    mum, sgm, dtm, lamm, pm = mpf(mu), mpf(sigma), mpf(dt), mpf(lam), mpf(p)
    mk = R.kou_compensator(p, eta_up, eta_dn)
    ey = 1 + mk
    # quadrature error of the size alphabet on the jump mgf: n-point Gauss-Laguerre on e^{+-x*mean}, measured
    # against 1/(1 -+ mean); it is a property of the answer alphabet, not of the scheme
    d_up = abs(sum(w * mp.exp(mpf(_rnd(x * up, "float32"))) for x, w in zip(xl, wl)) - 1 / (1 - mpf(up)))
    d_dn = abs(sum(w * mp.exp(-mpf(_rnd(x * down, "float32"))) for x, w in zip(xl, wl)) - 1 / (1 + mpf(down)))
    trunc = _gh_trunc(sgm * mp.sqrt(dtm), block["nz"])
    for t in range(min(1, k)):  # multiplicative step: decided at the root's children, see merton_tree
        for j, st in enumerate(tree.state[t]):
            first_c, n_c = tree.kids[t][j]
            acc = {}
            for ch in range(first_c, first_c + n_c):
                if isinstance(tree.tag[t + 1][ch], tuple):
                    continue        # pattern answers carry no law weight
                c = tree.tag[t + 1][ch]; w = tree.w[t + 1][ch]
                a = acc.setdefault(c, [mpf(0), mpf(0)])
                a[0] += w; a[1] += w * tree.state[t + 1][ch] / st
            for c, a in acc.items():
                want = mp.exp((mum - lamm * mk) * dtm) * ey ** c
                law_check(ctx, site, "weights_given_count", a[0], mpf(1), LAW_RTOL, block, f"sum of answer weights given {c} jumps")
                law_check(ctx, site, "step_growth_given_count", a[1], want,
                          LAW_RTOL + 2 * trunc + 4 * c * (pm * d_up + (1 - pm) * d_dn) / ey, block, f"E[S'/S | {c} jumps]")
    Lm = lamm * dtm
    total = mp.nsum(lambda c: _pois(Lm, c) * mp.exp((mum - lamm * mk) * dtm) * ey ** c, [0, mp.inf])
    law_check(ctx, site, "step_growth", total, mp.exp(mum * dtm), LAW_RTOL, block, "E[S(t+dt)/S(t)] = e^(mu dt) (martingale for mu=0)")
    if len([s for s in ctx.samples if s.get("family") == "kou_tree"]) < 1:
        i = L - 1
        ctx.sample({"family": "kou_tree", "block": block, "leaf": i, "counts": Cn[i].tolist(), "uniforms": Uu[i].tolist(),
                    "up_sizes": Eu[i].tolist(), "down_sizes": Ed[i].tolist(), "normals": Zd[i, 1:].tolist(),
                    "implementation_path": out[i].tolist(),
                    "model_path": [float(tree.state[t][int(anc[t][i])]) for t in range(k + 1)]})


def run_jumps(ctx):
    q = ctx.quick
    lam_x = ctx.extra_symbol("lambda", [5.0, 20.0, 120.0])
    # (s0, mu, sigma, lam, jump_mean, jump_std, dt)
    MP = [(1.0, 0.0, 0.2, 68.2, 0.0, 0.02, 1 / 250), (1.5, 0.1, 0.3, 10.0, -0.1, 0.15, 1 / 12), (0.8, -0.05, 0.25, lam_x, 0.05, 0.1, 1 / 52),
          (2.0, 0.2, 0.4, 0.0, -0.1, 0.15, 1 / 12)]
    if not q:
        MP += [(1.0, 0.0, 0.1, 200.0, -0.02, 0.05, 1 / 250), (1.0, 0.3, 0.5, 3.0, 0.2, 0.3, 1 / 4)]
    ctx.alphabet("merton (s0, mu, sigma, lambda, jump_mean, jump_std, dt)", [list(p) for p in MP])
    ctx.alphabet("jump counts per step", [0, 1, 2, 3])
    for (s0, mu, sg, lam, jm, js, dt) in MP:
        base = {"s0": s0, "mu": mu, "sigma": sg, "lam": lam, "jm": jm, "js": js, "dt": dt}
        ctx.run("merton_tree", dict(base, depth=2, counts=[0, 1, 2, 3], nz=5, nj=5, dtype="float64", init="tuple", engine="default"))
        ctx.run("merton_tree", dict(base, depth=3, counts=[0, 1, 2] if q else [0, 1, 2, 3], nz=3, nj=3, dtype="float64", init="tensor", engine="explicit"))
        ctx.run("merton_tree", dict(base, depth=2, counts=[0, 1, 3], nz=3, nj=3, dtype="float32", init="float", engine="default"))
        ctx.run("merton_tree", dict(base, depth=1, counts=[0, 1, 2, 3], nz=7, nj=7, dtype=None, init="tuple", engine="explicit"))
    ctx.run("merton_tree", {"s0": 1.0, "mu": 0.0, "sigma": 0.2, "lam": 68.2, "jm": 0.0, "js": 0.02, "dt": 1 / 250, "depth": 0,
                            "counts": [0], "nz": 3, "nj": 3, "dtype": "float64", "init": "tuple", "engine": "default"})
    ctx.run("merton_tree", {"s0": 1.25, "mu": 0.25, "sigma": 0.375, "lam": 12.0, "jm": -0.125, "js": 0.25, "dt": 1 / 64, "depth": 2,
                            "counts": [0, 1, 2], "nz": 3, "nj": 3, "dtype": "float64", "init": "tuple", "engine": "default", "via": "instrument"})
    # (s0, mu, sigma, lam, up, down, p, dt)
    KP = [(1.0, 0.0, 0.2, 68.0, 0.02, 0.05, 0.5, 1 / 250), (1.5, 0.1, 0.3, 10.0, 0.1, 0.2, 0.3, 1 / 12), (0.8, -0.05, 0.25, lam_x, 0.05, 0.03, 0.8, 1 / 52),
          (2.0, 0.2, 0.4, 0.0, 0.1, 0.2, 0.3, 1 / 12), (1.0, 0.0, 0.2, 30.0, 0.1, 0.1, 0.0, 1 / 52), (1.0, 0.0, 0.2, 30.0, 0.1, 0.1, 1.0, 1 / 52)]
    if not q:
        KP += [(1.0, 0.0, 0.1, 200.0, 0.01, 0.02, 0.4, 1 / 250), (1.0, 0.3, 0.5, 3.0, 0.2, 0.3, 0.6, 1 / 4)]
    ctx.alphabet("kou (s0, mu, sigma, lambda, mean_up, mean_down, p_up, dt)", [list(p) for p in KP])
    for (s0, mu, sg, lam, up, down, p, dt) in KP:
        base = {"s0": s0, "mu": mu, "sigma": sg, "lam": lam, "up": up, "down": down, "p": p, "dt": dt}
        ctx.run("kou_tree", dict(base, depth=1, counts=[0, 1, 2, 3], nz=3, nl=4 if q else 6, dtype="float64", init="tuple", engine="default"))
        ctx.run("kou_tree", dict(base, depth=2, counts=[0, 1, 2], nz=3, nl=3, dtype="float64", init="tensor", engine="explicit"))
        ctx.run("kou_tree", dict(base, depth=3, counts=[0, 1], nz=3, nl=3 if q else 5, dtype="float64", init="tensor1", engine="default"))
        ctx.run("kou_tree", dict(base, depth=2, counts=[0, 2], nz=3, nl=2, dtype="float32", init="float", engine="default"))
        ctx.run("kou_tree", dict(base, depth=1, counts=[0, 1], nz=7, nl=8, dtype=None, init="tuple", engine="explicit"))
    # jump counts above any plausible buffer cap, on daily and coarse grids: the path must contain ALL jumps drawn
    ctx.alphabet("jump counts per step incl. large ones", [0, 1, 3, 13, 20, 40])
    for dt in (1 / 250, 1 / 12, 1 / 4):
        for dn_, via_ in (("float64", "function"), (None, "function"), ("float64", "instrument")):
            if dn_ is None and dt == 1 / 12:
                continue
            ctx.run("kou_tree", {"s0": 1.5, "mu": 0.05, "sigma": 0.2, "lam": 68.0, "up": 0.02, "down": 0.05, "p": 0.5, "dt": dt, "depth": 2,
                                 "counts": [0, 1], "hi_counts": [3, 13, 20, 40], "nz": 3, "nl": 3, "dtype": dn_, "init": "tuple",
                                 "engine": "default", "via": via_})
            ctx.run("merton_tree", {"s0": 1.5, "mu": 0.05, "sigma": 0.2, "lam": 68.2, "jm": -0.01, "js": 0.02, "dt": dt, "depth": 2,
                                    "counts": [0, 1, 3, 13, 20, 40], "nz": 3, "nj": 3, "dtype": dn_, "init": "tuple", "engine": "default",
                                    "via": via_})
    ctx.run("kou_tree", {"s0": 1.0, "mu": 0.0, "sigma": 0.2, "lam": 68.0, "up": 0.02, "down": 0.05, "p": 0.5, "dt": 1 / 250, "depth": 0,
                         "counts": [0], "nz": 3, "nl": 3, "dtype": "float64", "init": "tuple", "engine": "default"})
    ctx.run("kou_tree", {"s0": 1.25, "mu": 0.25, "sigma": 0.375, "lam": 12.0, "up": 0.125, "down": 0.25, "p": 0.25, "dt": 1 / 64, "depth": 2,
                         "counts": [0, 1, 2], "nz": 3, "nl": 2, "dtype": "float64", "init": "tuple", "engine": "default", "via": "instrument"})


# ----------------------------------------------------------------------------
# Rough Bergomi: unit-impulse answers recover the linear (Volterra) map exactly
# ----------------------------------------------------------------------------

def _generic_noise(T1, seed):
    """Two deterministic 'generic' answer rows (dyadic numbers of both signs, no symmetry)."""
    rows = []
    for r in range(2):
        a = [(((7 * j + 3 * r + 5 * seed) % 11) - 5) / 8 for j in range(T1)]
        b = [(((5 * j + 2 * r + 3 * seed) % 13) - 6) / 16 for j in range(T1)]
        c = [(((3 * j + r + seed) % 7) - 3) / 4 for j in range(T1)]
        rows.append((a, b, c))
    return rows


@family
def rbergomi_impulse(ctx, block):
    """block: n_steps, alpha, rho, eta, xi, s0, v0 (None => default init), dt, dtype, via
    Answer rows: zero | unit impulse at (step j, component 0) | (j, component 1) | dW2 impulse at j |
    two generic rows.  'rows' restricts a replay to a subset of the rows."""
    _mp()
    import pfhedge.stochastic as ps
    site = "generate_rough_bergomi"
    T, alpha, rho, eta, xi, dt, dn = (block[x] for x in ("n_steps", "alpha", "rho", "eta", "xi", "dt", "dtype"))
    s0, v0 = block.get("s0"), block.get("v0")
    T1 = T - 1
    level = xi if v0 is None else v0
    s_init = 1.0 if s0 is None else s0
    eps = _eps(dn)
    # ---- answers
    rows = [("zero", None)]
    rows += [("w", j) for j in range(T1)] + [("i", j) for j in range(T1)] + [("b", j) for j in range(T1)]
    gen = _generic_noise(T1, ctx.seed % 5)
    rows += [("g", 0), ("g", 1)]
    sel = block.get("rows")
    if sel is not None:
        keep = sorted(set([0] + list(sel)))          # the zero answer is the reference of every recovery
        rows = [rows[i] for i in keep]
    N = len(rows)
    W = torch.zeros(N, T1, 2, dtype=torch.float64)
    B = torch.zeros(N, T1, dtype=torch.float64)
    for r, (kind, j) in enumerate(rows):
        if kind == "w":
            W[r, j, 0] = 1.0
        elif kind == "i":
            W[r, j, 1] = 1.0
        elif kind == "b":
            B[r, j] = 1.0
        elif kind == "g":
            a, b_, c = gen[j]
            W[r, :, 0] = torch.tensor(a, dtype=torch.float64)
            W[r, :, 1] = torch.tensor(b_, dtype=torch.float64)
            B[r] = torch.tensor(c, dtype=torch.float64)
    cov = R.hybrid_cov(alpha, dt)
    covf = [[float(x) for x in row] for row in cov]
    script = Script([{"site": "mvn", "shape": (N, T1, 2), "dtype": _eff(dn), "answer": W,
                      "params": {"loc": [0.0, 0.0], "covariance_matrix": covf}},
                     {"site": "randn", "shape": (N, T1), "dtype": _eff(dn), "answer": B}])
    init = None if v0 is None and s0 is None else make_init(block.get("init", "tuple"), [s_init, level], dn)
    via = block.get("via", "function")

    def call():
        if via == "instrument":
            from pfhedge.instruments import RoughBergomiStock
            st = RoughBergomiStock(alpha=alpha, rho=rho, eta=eta, xi=xi, dt=dt, dtype=_tdtype(dn))
            st.simulate(n_paths=N, time_horizon=T1 * dt, init_state=init)
            return st.spot, st.variance
        o = ps.generate_rough_bergomi(N, T, init_state=init, alpha=alpha, rho=rho, eta=eta, xi=xi, dt=dt, dtype=_tdtype(dn))
        return o.spot, o.variance

    if via == "instrument":
        site = "RoughBergomiStock.simulate"
    out = call_owned(ctx, site, script, call, block, mini=_one_leaf(block))
    ctx.add("states", N * T); ctx.add("transitions", N * T1); ctx.add("traces_validated_against_impl", N)
    ctx.tick(N * T, nontrivial=(N - 1) * T1)
    if out is None:
        return
    spot, var = out
    if not (check_shape(ctx, site, spot, (N, T), dn, block, "spot") and check_shape(ctx, site, var, (N, T), dn, block, "variance")):
        return
    spot, var = spot.detach().to(torch.float64), var.detach().to(torch.float64)
    ctx.outcome((site, round(float(var.sum()), 9)))

    def mini(r):
        b = {k_: v_ for k_, v_ in block.items() if k_ != "rows"}
        full_index = r if sel is None else sorted(set([0] + list(sel)))[r]
        b["rows"] = [full_index]
        return b

    etaf = float(eta)
    tgrid = [i * dt for i in range(T)]
    # (b) zero answer: V = level * exp(-eta^2/2 t^(2a+1)), V(0) = level, S(0) = s0
    ok_fin = bool(torch.isfinite(var).all() and torch.isfinite(spot).all() and (var > 0).all())
    if not ok_fin:
        ctx.violation(site, "not_finite_or_nonpositive", "variance/spot not finite and positive under impulse answers", block=block)
        return
    comp_bad = None
    for i in range(T):
        want = R.rbergomi_variance(_rnd(level, dn), eta, alpha, tgrid[i], 0)
        tol = 16 * eps * (1 + etaf ** 2) * float(want)
        if abs(float(var[0, i]) - float(want)) > tol:
            comp_bad = ("exponent_compensator" if i > 0 else "variance_col0",
                        f"V(t_{i}) under the zero answer is {float(var[0, i])!r}, the model xi exp(-eta^2/2 t^(2a+1)) gives {float(want)!r} "
                        f"(alpha={alpha}, eta={eta}, level={level}, dt={dt})", float(var[0, i]), float(want))
            break
    if abs(float(spot[0, 0]) - _rnd(s_init, dn)) > 4 * eps * abs(s_init):
        ctx.violation(site, "spot_col0", f"S(0)={float(spot[0, 0])!r} != {s_init}", observed=float(spot[0, 0]), expected=s_init, block=mini(0))
    # (c)-(e) recovered coefficient matrices: Y_i = ln(V_i / V_i^zero) / eta
    Y = (var / var[0:1]).log() / etaf
    K0m, K1m = R.hybrid_matrix(T, alpha, dt)                       # published scheme: n = 1/dt
    K0h, _ = R.hybrid_matrix(T, alpha, dt, steps_per_unit_time=T1)   # hypothesis of finding 4: n = n_steps-1
    kmax = max([1.0] + [float(abs(x)) for row in K0m for x in row] + [float(abs(x)) for row in K0h for x in row])
    ctol = 64 * eps * T * (1 + etaf * kmax + etaf ** 2) / etaf
    K0i = [[0.0] * T1 for _ in range(T)]
    K1i = [[0.0] * T1 for _ in range(T)]
    K2i = [[0.0] * T1 for _ in range(T)]
    have = {"w": set(), "i": set(), "b": set()}
    for r, (kind, j) in enumerate(rows):
        if kind in have:
            have[kind].add(j)
            dst = {"w": K0i, "i": K1i, "b": K2i}[kind]
            for i in range(T):
                dst[i][j] = float(Y[r, i])
    bad = {}

    def flag(cls, msg, obs, exp, r):
        if cls not in bad:
            bad[cls] = (msg, obs, exp, r)

    if comp_bad is not None:
        flag(comp_bad[0], comp_bad[1], comp_bad[2], comp_bad[3], 0)
    row_of = {(kind, j): r for r, (kind, j) in enumerate(rows)}
    for i in range(T):
        for j in range(T1):
            if j in have["b"] and abs(K2i[i][j]) > ctol:
                flag("variance_depends_on_dW2", f"V(t_{i}) moves with the dW2 answer of step {j}", K2i[i][j], 0.0, row_of[("b", j)])
            if j >= i:
                for kind, Ki in (("w", K0i), ("i", K1i)):
                    if j in have[kind] and abs(Ki[i][j]) > ctol:
                        flag("variance_not_adapted", f"V(t_{i}) depends on the noise of step {j} (interval [t_{j}, t_{j + 1}]) component {kind}",
                             Ki[i][j], 0.0, row_of[(kind, j)])
                continue
            if j in have["i"] and abs(K1i[i][j] - float(K1m[i][j])) > ctol:
                flag("exact_integral_term", f"coefficient of int (t_{j + 1}-s)^a dW on Y(t_{i}) is {K1i[i][j]!r}, scheme: {float(K1m[i][j])!r}",
                     K1i[i][j], float(K1m[i][j]), row_of[("i", j)])
            if j in have["w"] and abs(K0i[i][j] - float(K0m[i][j])) > ctol:
                if abs(K0i[i][j] - float(K0h[i][j])) <= ctol:
                    flag("kernel_normalisation_n_steps",
                         f"Riemann weight of dW_{j} on Y(t_{i}) is {K0i[i][j]!r} = sqrt(2a+1) (b*_k/(n_steps-1))^a; the hybrid scheme has "
                         f"sqrt(2a+1) (b*_k dt)^a = {float(K0m[i][j])!r} (n_steps={T}, dt={dt}, alpha={alpha})",
                         K0i[i][j], float(K0m[i][j]), row_of[("w", j)])
                else:
                    flag("kernel_weights", f"Riemann weight of dW_{j} on Y(t_{i}) is {K0i[i][j]!r}, hybrid scheme {float(K0m[i][j])!r}",
                         K0i[i][j], float(K0m[i][j]), row_of[("w", j)])
    # (f) log-linearity on the generic rows (superposition of the recovered map)
    full = all(len(have[x]) == T1 for x in have)
    if full:
        for r, (kind, g) in enumerate(rows):
            if kind != "g":
                continue
            for i in range(T):
                pred = sum(K0i[i][j] * float(W[r, j, 0]) + K1i[i][j] * float(W[r, j, 1]) + K2i[i][j] * float(B[r, j]) for j in range(T1))
                if abs(float(Y[r, i]) - pred) > 4 * T1 * ctol:
                    flag("variance_not_loglinear", f"ln V(t_{i}) is not the linear map recovered from unit impulses on generic row {g}",
                         float(Y[r, i]), pred, r)
    # (h) log-return increments, given the implementation's own variance (independent of the kernel)
    sq = math.sqrt(dt)
    # long series (n_steps > 60): the increments are decided on the zero row, the generic rows and the first/last
    # impulse of every kind (the increment formula does not depend on which impulse row it is evaluated on)
    lr_rows = range(N) if T <= 60 else [r for r, (kind, j) in enumerate(rows) if kind in ("zero", "g") or j in (0, T1 - 1)]
    for r in lr_rows:
        for i in range(T1):
            v_i = float(var[r, i])
            want = R.rbergomi_logret(v_i, rho, float(W[r, i, 0]), mp.sqrt(mpf(dt)) * mpf(float(B[r, i])), dt)
            got = math.log(float(spot[r, i + 1])) - math.log(float(spot[r, i]))
            mag = math.sqrt(v_i) * (abs(float(W[r, i, 0])) + sq * abs(float(B[r, i]))) + v_i * dt
            # cumulative sum of T-1 increments then exp/log: each carries eps of the running magnitude
            run_mag = abs(math.log(float(spot[r, i + 1]) / s_init)) + abs(math.log(float(spot[r, i]) / s_init))
            # ... and S itself is exp() rounded to the dtype, so each ln S carries one eps absolutely
            if abs(got - float(want)) > 16 * eps * (mag + run_mag) * (i + 2) + 4 * eps:
                flag("log_return_increment", f"ln S(t_{i + 1})/S(t_{i}) = {got!r}, scheme sqrt(V)(rho dW1 + sqrt(1-rho^2) dW2) - V dt/2 = {float(want)!r} "
                                             f"(rho={rho}, V={v_i!r})", got, float(want), r)
    # (g) law: E[V(t)]/xi from the implementation's recovered map, the requested covariance and its own compensator
    ratios = {}
    if full and _eff(dn) == torch.float64:
        worst = 0.0
        for i in range(1, T):
            vy = R.volterra_var([mpf(x) for x in K0i[i]], [mpf(x) for x in K1i[i]], cov)
            comp_impl = mpf(float(var[0, i])) / mpf(_rnd(level, dn))
            ratio = mp.exp(mpf(eta) ** 2 / 2 * vy) * comp_impl
            ratios[i] = float(ratio)
            worst = max(worst, abs(float(ratio) - 1))
        ctx.add("law_statements", T1)
        i_w = max(ratios, key=lambda i: abs(ratios[i] - 1))
        if worst > 0.005:
            cls = "forward_variance_not_xi"
            # the drift is attributed to finding 4 only when that is the sole defect of the variance map
            if set(bad) - {"log_return_increment"} == {"kernel_normalisation_n_steps"}:
                cls = "kernel_normalisation_n_steps"
            msg = (f"E[V(t)]/xi = {ratios[i_w]:.4f} at step {i_w} of {T1} (dt={dt:.6g}, horizon {T1 * dt:.4g} y, alpha={alpha}, eta={eta}); "
                   f"forward variance must stay at xi (hybrid scheme: within 0.5%)")
            if cls in bad:
                bad[cls] = (bad[cls][0] + " => " + msg, bad[cls][1], bad[cls][2], bad[cls][3])
            else:
                bad[cls] = (msg, ratios[i_w], 1.0, None)
        key = "rough Bergomi E[V_T]/xi (implementation's recovered kernel) n_steps=%d dt=%.5g alpha=%s" % (T, dt, alpha)
        ctx.info[key] = round(ratios[T1], 6)
    for cls, (msg, obs, exp, r) in bad.items():
        ctx.violation(site, cls, msg, observed=obs, expected=exp,
                      block=mini(r) if r is not None else {k_: v_ for k_, v_ in block.items() if k_ != "rows"})
    # ---- model-level law (published scheme): forward variance and the martingale increment
    if sel is None and _eff(dn) == torch.float64:
        for i in range(1, T):
            vy = R.volterra_var(K0m[i], K1m[i], cov)
            law_check(ctx, site, "scheme_forward_variance", R.rbergomi_forward_ratio(eta, alpha, tgrid[i], vy), mpf(1), 0, block,
                      f"E[V(t_{i})]/xi of the hybrid scheme within 0.5% of 1", atol=mpf("0.005"))
        dcov = R.derive_hybrid_cov(alpha, dt)
        for a_ in range(2):
            for b_ in range(2):
                law_check(ctx, site, "scheme_covariance", dcov[a_][b_], cov[a_][b_], mpf("1e-12"), block,
                          "Ito-isometry covariance of (dW, int (t-s)^a dW) by quadrature")
        zs, ws = _gh(9, dn)
        for v_i in (float(var[0, 0]), float(var[-1, -2]), float(var[1, min(2, T1)])):
            # Var(dB) = rho^2 cov00 + (1-rho^2) dt = dt: one normal of variance dt
            g = sum(w * mp.exp(R.rbergomi_logret(v_i, 0, 0, mp.sqrt(mpf(dt)) * z, dt)) for z, w in zip(zs, ws))
            var_db = mpf(rho) ** 2 * cov[0][0] + (1 - mpf(rho) ** 2) * mpf(dt)
            law_check(ctx, site, "scheme_increment_variance", var_db, mpf(dt), mpf("1e-30"), block, "Var(dB) = dt")
            law_check(ctx, site, "scheme_martingale_increment", g, mpf(1), LAW_RTOL + 2 * _gh_trunc(mp.sqrt(mpf(v_i) * mpf(dt)), 9), block,
                      "E[exp(sqrt(V) dB - V dt/2) | V] = 1")
    if len([s_ for s_ in ctx.samples if s_.get("family") == "rbergomi_impulse"]) < 1 and T <= 8 and sel is None:
        ctx.sample({"family": "rbergomi_impulse", "block": block,
                    "recovered_weights_of_dW_on_Y(last)": K0i[T - 1], "hybrid_scheme_weights": [float(x) for x in K0m[T - 1]],
                    "recovered_weights_of_exact_integral_on_Y(last)": K1i[T - 1],
                    "E[V_t]/xi_from_recovered_map": [ratios.get(i) for i in range(1, T)]})


def run_rbergomi(ctx):
    q = ctx.quick
    a_x = ctx.extra_symbol("alpha", [-0.45, -0.3, -0.1, 0.2])
    # (n_steps, dt): 5 and 20 steps x {1/250, 1/12}; one-year horizons (n_steps-1)*dt = 1
    grid = [(6, 1 / 250), (21, 1 / 250), (6, 1 / 12), (21, 1 / 12), (5, 1 / 4), (13, 1 / 12), (2, 1 / 250), (3, 1.0)]
    if not q:
        grid += [(251, 1 / 250), (251, 1 / 12), (101, 1 / 100), (53, 1 / 52)]
    ctx.alphabet("rough Bergomi (n_steps, dt)", [list(g) for g in grid])
    P = [(-0.4, -0.9, 1.9, 0.04, None, None), (-0.25, 0.5, 1.0, 0.09, 1.5, 0.0625), (a_x, -0.3, 1.5, 0.04, 2.0, None)]
    ctx.alphabet("rough Bergomi (alpha, rho, eta, xi, s0, v0)", [list(p) for p in P])
    blocks = []
    for (T, dt) in grid:
        for (al, rho, eta, xi, s0, v0) in P:
            if q and T > 13 and al != -0.4:
                continue
            b = {"n_steps": T, "alpha": al, "rho": rho, "eta": eta, "xi": xi, "s0": s0, "v0": v0 if (v0 is None or s0 is not None) else None,
                 "dt": dt, "dtype": "float64"}
            if s0 is not None and v0 is None:
                b["v0"] = xi
            blocks.append(b)
    blocks.append({"n_steps": 5, "alpha": -0.4, "rho": -0.9, "eta": 1.9, "xi": 0.04, "s0": None, "v0": None, "dt": 1 / 4, "dtype": "float32"})
    blocks.append({"n_steps": 6, "alpha": -0.4, "rho": -0.9, "eta": 1.9, "xi": 0.04, "s0": None, "v0": None, "dt": 1 / 250, "dtype": None})
    blocks.append({"n_steps": 5, "alpha": -0.25, "rho": 0.5, "eta": 1.5, "xi": 0.0625, "s0": 1.25, "v0": 0.0625, "dt": 1 / 4,
                   "dtype": "float64", "via": "instrument"})
    # long series: every unit impulse, kernel matrix read column by column (causality, V(0) = xi, hybrid weights);
    # (258, 1/257) and (366, 1/365) are one-year horizons, where the library's kernel must conform exactly
    long_grid = [(258, 1 / 257), (300, 1 / 365), (366, 1 / 365)] + ([] if q else [(501, 1 / 500)])
    ctx.alphabet("rough Bergomi long series (n_steps, dt)", [list(g) for g in long_grid])
    for (T, dt) in long_grid:
        blocks.append({"n_steps": T, "alpha": -0.4, "rho": -0.9, "eta": 1.9, "xi": 0.04, "s0": None, "v0": None, "dt": dt, "dtype": "float64"})
    for b in blocks:
        ctx.run("rbergomi_impulse", b)


# ----------------------------------------------------------------------------
# Local volatility (Euler step)
# ----------------------------------------------------------------------------

SIGMA_FNS = {
    # name: (torch version, mpmath version) - two independent one-line definitions
    "constant": (lambda t, s: torch.full_like(s, 0.25), lambda t, s: mpf("0.25")),
    "spot_dependent": (lambda t, s: 0.125 + 0.25 * s, lambda t, s: mpf("0.125") + mpf("0.25") * s),
    "time_dependent": (lambda t, s: 0.5 / (1 + 4 * t) + 0 * s, lambda t, s: mpf("0.5") / (1 + 4 * t)),
    "smile": (lambda t, s: 0.2 + 0.3 * (s - 1).abs(), lambda t, s: mpf("0.2") + mpf("0.3") * abs(s - 1)),
    # high volatility: with a coarse grid 1 + sigma sqrt(dt) z < 0 for the outer answers (the documented Euler
    # scheme then produces a negative spot; the tree must still conform and stay an exact martingale)
    "smile_high": (lambda t, s: 0.75 + 0.5 * (s - 1).abs(), lambda t, s: mpf("0.75") + mpf("0.5") * abs(s - 1)),
}
LV_LIPSCHITZ = 1.0   # bound on |d sigma / d S| of every function above (0.25, 0.3, 0.5)


def sigma_functions(name):
    """(torch, mpmath) versions; 'flat:<x>' is the constant volatility x (dyadic x: exact in every dtype)."""
    if name.startswith("flat:"):
        x = float(name[5:])
        return (lambda t, s: torch.full_like(s, x)), (lambda t, s: mpf(x))
    return SIGMA_FNS[name]


def lv_tolerances(tree, f_m, dt, eps):
    """Absolute tolerance of the float Euler recursion at every node, first order:
    S' = S (1 + a z), a = sigma(t,S) sqrt(dt).  The parent's error e is multiplied by |1 + a z| and, through
    sigma(t,S), by |S| L sqrt(dt) |z|; forming 1 + a z and the product adds a few ulp of |S| (1 + |a z|)
    (absolute: near 1 + a z = 0 the result is small but its error is not)."""
    sq = math.sqrt(float(dt))
    tol = [[eps * abs(float(tree.state[0][0]))]]
    for t in range(tree.depth):
        row = []
        for c, st in enumerate(tree.state[t + 1]):
            j = tree.parent[t + 1][c]
            sp = abs(float(tree.state[t][j]))
            z = abs(tree.ans[t + 1][c]["z"])
            a = float(f_m(mpf(t) * mpf(dt), tree.state[t][j])) * sq
            growth = abs(float(st)) / sp if sp > 0 else 0.0
            row.append(tol[t][j] * (growth + sp * LV_LIPSCHITZ * sq * z) + 16 * eps * sp * (1 + abs(a) * z))
        tol.append(row)
    return tol


@family
def localvol_tree(ctx, block):
    """block: sigma_fn, s0, dt, depth, answers ('pm1' | 'gh<n>'), dtype, init, via"""
    _mp()
    import pfhedge.stochastic as ps
    site = "generate_local_volatility_process"
    dn, k, s0, dt = block["dtype"], block["depth"], block["s0"], block["dt"]
    f_t, f_m = sigma_functions(block["sigma_fn"])
    if block["answers"] == "pm1":
        zs, ws = [-1.0, 1.0], [mpf(1) / 2, mpf(1) / 2]
    else:
        zs, ws = _gh(int(block["answers"][2:]), dn)

    def build(dt_model):
        tr = Tree(mpf(_rnd(s0, dn)))
        for _ in range(k):
            tr.grow(lambda st, t: [({"z": z}, w, R.euler_lv_step(st, f_m(mpf(t) * mpf(dt), st), dt_model, z), None) for z, w in zip(zs, ws)])
        return tr

    tree = build(dt)
    leaves = select_leaves(tree, block)
    anc = tree.ancestors(leaves)
    L = len(anc[0])
    Z = torch.cat([tree.answer_tensor("z", anc), torch.full((L, 1), JUNK, dtype=torch.float64)], dim=1)
    script = Script([{"site": "randn_like", "shape": (L, k + 1), "dtype": _eff(dn), "answer": Z}])
    init = make_init(block.get("init", "tuple"), [s0], dn)
    via = block.get("via", "function")

    def call():
        if via == "instrument":
            from pfhedge.instruments import LocalVolatilityStock
            st = LocalVolatilityStock(f_t, dt=dt, dtype=_tdtype(dn))
            st.simulate(n_paths=L, time_horizon=k * dt, init_state=init)
            return st.spot, st.volatility
        o = ps.generate_local_volatility_process(L, k + 1, f_t, init_state=init, dt=dt, dtype=_tdtype(dn))
        return o.spot, o.volatility

    if via == "instrument":
        site = "LocalVolatilityStock.simulate"
    out = call_owned(ctx, site, script, call, block, mini=_one_leaf(block))
    nn = tree.n_nodes()
    ctx.add("states", nn); ctx.add("transitions", nn - 1); ctx.add("traces_validated_against_impl", L)
    ctx.tick(nn if leaves is None else k + 1, nontrivial=(nn - 1) if leaves is None else k)
    if out is None:
        return
    spot, vol = out
    if not (check_shape(ctx, site, spot, (L, k + 1), dn, block, "spot") and check_shape(ctx, site, vol, (L, k + 1), dn, block, "volatility")):
        return
    eps = _eps(dn)
    zmax = max(abs(z) for z in zs)
    tols = {id(tree): lv_tolerances(tree, f_m, dt, eps)}
    tol_of = lambda tr: (lambda t, j, s: tols[id(tr)][t][j])
    tol_s = tol_of(tree)
    first, worst = compare_levels(spot, tree, anc, lambda s: s, tol_s)
    ctx.outcome((site, round(float(spot.sum()), 9)))
    used = tree
    if first is not None:
        t, i, obs, exp, tol = first
        cls = "conformance_euler_step" + ("_col0" if t == 0 else "")
        if _eff(dn) == torch.float64 and torch.get_default_dtype() != torch.float64:
            # hypothesis: sqrt(dt) evaluated in the default dtype
            sq32 = float(torch.tensor(dt).sqrt())
            alt = build(mpf(sq32) ** 2)
            tols[id(alt)] = lv_tolerances(alt, f_m, dt, eps)
            f2, _ = compare_levels(spot, alt, anc, lambda s: s, tol_of(alt))
            if f2 is None:
                cls, used = "sqrt_dt_rounded_through_default_dtype", alt
        ctx.violation(site, cls, f"{site}: node at depth {t} differs from the Euler step S(1 + sigma(t,S) sqrt(dt) Z) "
                      f"(|diff|={abs(obs - exp):.3e} > tol {tol:.1e}; sigma_fn={block['sigma_fn']}, s0={s0}, dt={dt}, {dn})",
                      observed=obs, expected=exp, block=leaf_block(block, anc, i))
    else:
        note_margin(ctx, site, worst)
    if first is None or used is not tree:
        # volatility output: sigma(t_i, S_i) at every node including the leaves
        tv = lambda t, j, s: 8 * eps * (1 + abs(float(s))) + LV_LIPSCHITZ * tols[id(used)][t][j]
        f4, _ = compare_levels(vol, _VolView(used, f_m, dt), anc, lambda s: s, tv)
        if f4 is not None:
            t, i, obs, exp, tol = f4
            ctx.violation(site, "volatility_output", f"{site}: volatility at depth {t} is {obs!r}, sigma_fn(t, S) of the model node is {exp!r}",
                          observed=obs, expected=exp, block=leaf_block(block, anc, i))
    if leaves is not None or _eff(dn) != torch.float64:
        return
    dtm = mpf(dt)
    for t in range(k):
        for j, st in enumerate(tree.state[t]):
            s0_, s1_, s2_ = node_moments(tree, t, j, lambda x: x)
            sg = f_m(mpf(t) * dtm, st)
            law_check(ctx, site, "step_martingale", s1_, st, LAW_RTOL, block, "E[S(t+dt)|S(t)] = S(t)")
            law_check(ctx, site, "step_variance", s2_, st ** 2 * sg ** 2 * dtm, LAW_RTOL, block, "Var[S(t+dt)|S(t)] = S^2 sigma^2 dt")
    P = tree.path_prob()
    for t in range(1, k + 1):
        m1 = sum(p * s for p, s in zip(P[t], tree.state[t]))
        law_check(ctx, site, "martingale", m1, tree.state[0][0], LAW_RTOL, block, f"E[S({t}dt)] = S(0)")


class _VolView:
    """The same tree with state = sigma(t, S) (for comparing the volatility output)."""

    def __init__(self, tree, f_m, dt):
        self.depth = tree.depth
        self.state = [[f_m(mpf(t) * mpf(dt), s) for s in lv] for t, lv in enumerate(tree.state)]


# ----------------------------------------------------------------------------
# randn_antithetic / randn_sobol_boxmuller
# ----------------------------------------------------------------------------

@family
def antithetic_perms(ctx, block):
    """block: n, rest, dtype, shuffle; optional perms = explicit list of permutations (replay)"""
    _mp()
    from pfhedge.stochastic import randn_antithetic
    site = "randn_antithetic"
    n, rest, dn, shuffle = block["n"], tuple(block["rest"]), block["dtype"], block["shuffle"]
    h = -(-n // 2)
    cols = 1
    for r in rest:
        cols *= r
    # distinct dyadic answers: row i, flat column c -> (i+1) + c/8
    z = torch.tensor([[(i + 1) + c / 8 for c in range(cols)] for i in range(h)], dtype=torch.float64).reshape((h,) + rest)
    stack = torch.cat([z, -z], dim=0)
    perms = block.get("perms")
    if perms is None:
        perms = list(itertools.permutations(range(2 * h))) if shuffle else [tuple(range(2 * h))]
    n_bad = 0
    for perm in perms:
        exp_req = [{"site": "randn", "shape": (h,) + rest, "dtype": _eff(dn), "answer": z}]
        if shuffle:
            exp_req.append({"site": "randperm", "shape": (2 * h,), "answer": torch.tensor(perm, dtype=torch.long)})
        script = Script(exp_req)
        mb = dict(block, perms=[list(perm)])
        out = call_owned(ctx, site, script, lambda: randn_antithetic(*((n,) + rest), dtype=_tdtype(dn), shuffle=shuffle), mb)
        ctx.tick(1, nontrivial=1 if n > 1 else 0)
        if out is None or not check_shape(ctx, site, out, (n,) + rest, dn, mb):
            continue
        want = stack[list(perm)][:n].to(_eff(dn))
        ctx.outcome((n, rest, tuple(perm)[:3], float(out.sum())))
        if not torch.equal(out, want):
            n_bad += 1
            ctx.violation(site, "not_first_n_rows_of_permuted_pairs" + ("" if shuffle else "_noshuffle"),
                          f"randn_antithetic({n},{rest}) with permutation {perm}: output is not the first {n} rows of the permuted (z,-z) stack",
                          observed=out, expected=want, block=mb)
        elif n % 2 == 0 and bool((out.sum(0) != 0).any()):
            ctx.violation(site, "pairs_do_not_cancel", f"even n={n}: column sums are not exactly zero", observed=out.sum(0), expected=0, block=mb)
    ctx.add("traces_validated_against_impl", len(perms)); ctx.add("states", len(perms)); ctx.add("transitions", len(perms))
    # model-level law: uniform permutations x Gauss-Hermite answers => every output entry has mean 0, variance 1
    if block.get("perms") is None and shuffle and h <= 2:
        zs, ws = _gh(3, "float64")
        m1 = [mpf(0)] * n
        m2 = [mpf(0)] * n
        wp = mpf(1) / len(perms)
        for combo in itertools.product(range(3), repeat=h):
            wz = mpf(1)
            for c in combo:
                wz *= ws[c]
            st = [mpf(zs[c]) for c in combo] + [-mpf(zs[c]) for c in combo]
            for perm in perms:
                for i in range(n):
                    m1[i] += wp * wz * st[perm[i]]
                    m2[i] += wp * wz * st[perm[i]] ** 2
        for i in range(n):
            law_check(ctx, site, "mean", m1[i], mpf(0), 0, block, f"E[output[{i}]]", atol=LAW_RTOL)
            law_check(ctx, site, "variance", m2[i] - m1[i] ** 2, mpf(1), LAW_RTOL, block, f"Var[output[{i}]]")
    if block.get("check_dim"):
        try:
            randn_antithetic(2, 2, dim=1)
            ctx.violation(site, "dim_not_rejected", "dim=1 is documented as unsupported but no ValueError was raised", block=block)
        except ValueError:
            pass


@family
def sobol_boxmuller(ctx, block):
    """block: size, dtype, scramble, seed (None => the global generator, seeded by the harness)"""
    _mp()
    from torch.quasirandom import SobolEngine
    from pfhedge.stochastic import randn_sobol_boxmuller
    site = "randn_sobol_boxmuller"
    size, dn, scramble, seed = tuple(block["size"]), block["dtype"], block["scramble"], block["seed"]
    n = 1
    for d in size:
        n *= d
    state = torch.get_rng_state()
    try:
        outs = []
        for _ in range(2):
            torch.manual_seed(1234)
            outs.append(randn_sobol_boxmuller(*size, dtype=_tdtype(dn), scramble=scramble, seed=seed))
        torch.manual_seed(1234)
        pts = SobolEngine(2, scramble=scramble, seed=seed).draw(n // 2 + 1).to(_eff(dn))
    finally:
        torch.set_rng_state(state)
    out = outs[0]
    ctx.tick(n, nontrivial=n)
    ctx.add("states", n); ctx.add("transitions", n); ctx.add("traces_validated_against_impl", 1)
    if not check_shape(ctx, site, out, size, dn, block):
        return
    if not torch.equal(outs[0], outs[1]):
        ctx.violation(site, "not_deterministic_for_fixed_seed", "two calls with the same seed differ", block=block)
    eps = _eps(dn)
    z0, z1 = [], []
    for u1, u2 in pts.to(torch.float64).tolist():
        a, b = R.box_muller(u1, u2)
        z0.append(a); z1.append(b)
    want = (z0 + z1)[:n]
    flat = out.detach().to(torch.float64).reshape(-1).tolist()
    ctx.outcome((size, scramble, seed, round(sum(flat), 9)))
    for i, (g, w) in enumerate(zip(flat, want)):
        # radius r <= 6.8; angle 2 pi u carries eps*2pi, so cos/sin carry ~ 8 eps absolutely
        tol = 32 * eps * (1 + abs(float(w))) * 7
        if not abs(g - float(w)) <= tol:
            ctx.violation(site, "box_muller_of_sobol_points", f"element {i} is {g!r}, Box-Muller of the engine's point gives {float(w)!r}",
                          observed=g, expected=float(w), block=block)
            break


@family
def derivations(ctx, block):
    """Model-level derivations by quadrature / summation (no implementation involved)."""
    _mp()
    kind = block["kind"]
    if kind == "merton":
        res = R.derive_merton(block["lam"], block["jm"], block["js"], block["dt"], block["mu"], block["sigma"])
        for name, (got, want) in res.items():
            law_check(ctx, "generate_merton_jump", "derivation:" + name, got, want, mpf("1e-25"), block, f"Merton {name} by mp.quad/mp.nsum")
        ctx.tick(len(res), nontrivial=len(res))
    elif kind == "kou":
        res = R.derive_kou(block["lam"], block["p"], 1 / mpf(block["up"]), 1 / mpf(block["down"]), block["dt"], block["mu"], block["sigma"])
        for name, (got, want) in res.items():
            law_check(ctx, "generate_kou_jump", "derivation:" + name, got, want, mpf("1e-25"), block, f"Kou {name} by mp.quad/mp.nsum")
        ctx.tick(len(res), nontrivial=len(res))
    elif kind == "qe_mgf":
        qe = R.QE(block["v"], block["kappa"], block["theta"], block["sigma"], block["dt"])
        kk = R.andersen_k(block["kappa"], block["theta"], block["sigma"], block["rho"], block["dt"])
        A = kk[2] + kk[4] / 2
        want = qe.mgf(A)
        if want is not None:
            if qe.quadratic:
                got = mp.quad(lambda z: mp.exp(A * qe.a * (qe.b + z) ** 2 - z * z / 2) / mp.sqrt(2 * mp.pi), [-15, 0, 15])   # tails beyond 15 sd: < e^-100
                m1 = mp.quad(lambda z: qe.a * (qe.b + z) ** 2 * mp.exp(-z * z / 2) / mp.sqrt(2 * mp.pi), [-15, 0, 15])
            else:
                got = qe.p + (1 - qe.p) * mp.quad(lambda x: mp.exp(A * x / qe.beta - x), [0, 1, mp.inf])
                m1 = (1 - qe.p) * mp.quad(lambda x: x / qe.beta * mp.exp(-x), [0, 1, mp.inf])
            br = "quadratic" if qe.quadratic else "exponential"
            law_check(ctx, "generate_heston", "derivation:qe_mgf_" + br, got, want, mpf("1e-20"), block, "E[exp(A V')] of the QE law by mp.quad")
            law_check(ctx, "generate_cir", "derivation:qe_mean_" + br, m1, qe.m, mpf("1e-20"), block, "E[V'] of the QE law by mp.quad")
        ctx.tick(2, nontrivial=2)
    elif kind == "box_muller":
        res = R.derive_box_muller_moments()
        for name, want in (("mean0", 0), ("mean1", 0), ("var0", 1), ("var1", 1), ("cov", 0)):
            law_check(ctx, "randn_sobol_boxmuller", "derivation:box_muller_" + name, res[name], mpf(want), mpf("1e-15"), block,
                      f"Box-Muller {name} for independent uniforms by separable quadrature", atol=mpf("1e-15"))
        ctx.tick(5, nontrivial=5)


def run_rest(ctx):
    q = ctx.quick
    depth = 3 if q else 4
    ctx.alphabet("local volatility sigma_fn", list(SIGMA_FNS))
    s_x = ctx.extra_symbol("lv_s0", [0.5, 2.0, 3.0])
    for name in SIGMA_FNS:
        for dt in (1 / 256, 1 / 16):
            for s0 in (1.0, 1.25, s_x):
                ctx.run("localvol_tree", {"sigma_fn": name, "s0": s0, "dt": dt, "depth": depth, "answers": "pm1", "dtype": "float64", "init": "tuple"})
                ctx.run("localvol_tree", {"sigma_fn": name, "s0": s0, "dt": dt, "depth": depth, "answers": "gh5" if q else "gh7", "dtype": "float64", "init": "tensor"})
            ctx.run("localvol_tree", {"sigma_fn": name, "s0": 1.25, "dt": dt, "depth": depth, "answers": "gh5", "dtype": "float32", "init": "float"})
            ctx.run("localvol_tree", {"sigma_fn": name, "s0": 1.25, "dt": dt, "depth": 2, "answers": "gh3", "dtype": None, "init": "tuple"})
        # non-dyadic step size in float64 (sqrt(dt) is formed from a default-dtype tensor)
        ctx.run("localvol_tree", {"sigma_fn": name, "s0": 1.0, "dt": 1 / 250, "depth": depth, "answers": "gh5", "dtype": "float64", "init": "tuple"})
        ctx.run("localvol_tree", {"sigma_fn": name, "s0": 1.0, "dt": 1 / 250, "depth": 2, "answers": "gh5", "dtype": None, "init": "tuple"})
    ctx.run("localvol_tree", {"sigma_fn": "spot_dependent", "s0": 1.5, "dt": 1 / 64, "depth": 2, "answers": "gh5", "dtype": "float64",
                              "init": "tuple", "via": "instrument"})
    # sigma*sqrt(dt) in {0.4, 0.6, 1.0} (80%, 120%, 200% volatility on a quarterly grid) and a high smile:
    # the outer Gauss-Hermite answers make 1 + sigma sqrt(dt) z negative (z < -2.5, -1.67, -1) and +-1 reaches 0
    ctx.alphabet("local volatility sigma*sqrt(dt) on the coarse grid", [0.4, 0.6, 1.0, "smile_high: 0.375 + 0.25|S-1|"])
    for name in ("flat:0.8", "flat:1.2", "flat:2.0", "smile_high"):
        for s0 in (1.5, s_x):
            ctx.run("localvol_tree", {"sigma_fn": name, "s0": s0, "dt": 1 / 4, "depth": depth, "answers": "gh7" if q else "gh9",
                                      "dtype": "float64", "init": "tuple"})
        ctx.run("localvol_tree", {"sigma_fn": name, "s0": 1.5, "dt": 1 / 4, "depth": depth, "answers": "pm1", "dtype": "float64", "init": "tensor"})
        ctx.run("localvol_tree", {"sigma_fn": name, "s0": 1.5, "dt": 1 / 4, "depth": 2, "answers": "gh7", "dtype": "float32", "init": "float"})
        ctx.run("localvol_tree", {"sigma_fn": name, "s0": 1.5, "dt": 1 / 4, "depth": 2, "answers": "gh7", "dtype": "float64", "init": "tuple",
                                  "via": "instrument"})
    # antithetic: all permutations for n = 1..5 (6 in thorough: 720 permutations as well)
    ctx.alphabet("randn_antithetic n", [1, 2, 3, 4, 5] + ([] if q else [6]))
    for n in ([1, 2, 3, 4, 5] if q else [1, 2, 3, 4, 5, 6]):
        for rest, dn in (((), "float64"), ((3,), "float64"), ((2, 2), "float32"), ((3,), None)):
            if n >= 5 and rest != (3,):
                continue
            if n >= 5 and dn is None and q:
                continue
            ctx.run("antithetic_perms", {"n": n, "rest": list(rest), "dtype": dn, "shuffle": True})
        ctx.run("antithetic_perms", {"n": n, "rest": [2], "dtype": "float64", "shuffle": False, "check_dim": n == 1})
    sizes = [(1,), (2,), (5,), (4, 3), (2, 3, 2), (16,), (7, 5)]
    seed_x = ctx.extra_symbol("sobol_seed", [1, 7, 42, 2024])
    ctx.alphabet("sobol sizes", [list(s) for s in sizes])
    for size in sizes:
        for scramble, seed in ((True, 0), (True, seed_x), (False, None), (True, None)):
            for dn in ("float64", "float32", None):
                if q and dn != "float64" and size not in ((4, 3), (5,)):
                    continue
                ctx.run("sobol_boxmuller", {"size": list(size), "dtype": dn, "scramble": scramble, "seed": seed})
    ctx.run("derivations", {"kind": "box_muller"})
    for (mu, sg, lam, jm, js, dt) in [(0.0, 0.2, 68.2, 0.0, 0.02, 1 / 250), (0.1, 0.3, 10.0, -0.1, 0.15, 1 / 12), (0.3, 0.5, 3.0, 0.2, 0.3, 1 / 4)]:
        ctx.run("derivations", {"kind": "merton", "mu": mu, "sigma": sg, "lam": lam, "jm": jm, "js": js, "dt": dt})
    for (mu, sg, lam, up, down, p, dt) in [(0.0, 0.2, 68.0, 0.02, 0.05, 0.5, 1 / 250), (0.1, 0.3, 10.0, 0.1, 0.2, 0.3, 1 / 12),
                                            (0.0, 0.2, 30.0, 0.1, 0.1, 1.0, 1 / 52), (0.3, 0.5, 3.0, 0.5, 0.3, 0.6, 1 / 4)]:
        ctx.run("derivations", {"kind": "kou", "mu": mu, "sigma": sg, "lam": lam, "up": up, "down": down, "p": p, "dt": dt})
    for (ka, th, sg, dt) in [(1.0, 0.04, 0.2, 1 / 250), (2.0, 0.09, 1.0, 1 / 250), (2.0, 1 / 16, 1.0, 1 / 16)][:2 if q else 3]:
        for v in ((0.0, 0.04, 0.3) if q else (0.0, 1e-4, 0.04, 0.3)):
            for rho in ((-0.7, 0.7) if q else (-0.9, -0.3, 0.0, 0.7)):
                ctx.run("derivations", {"kind": "qe_mgf", "kappa": ka, "theta": th, "sigma": sg, "dt": dt, "v": v, "rho": rho})


def run_int_states(ctx):
    """Integer-valued / integer-typed initial states (python int, tuple of int, int64 tensors) with dtype=None and
    dtype given, for every generator and instrument whose init_state goes through cast_state."""
    ctx.alphabet("integer initial states", ["python int", "tuple of int", "0-dim int64 tensor", "tuple of int64 tensors"])
    for dn in (None, "float64"):
        for kind in ("int", "int_tuple", "int64", "int64_tuple"):
            two = kind if kind.endswith("tuple") else kind + "_tuple"     # two-component states are tuples
            for gen in ("brownian", "geometric"):
                ctx.run("bm_tree", {"gen": gen, "s0": 100, "mu": 0.25, "sigma": 0.5, "dt": 1 / 16, "depth": 2, "n": 3, "dtype": dn,
                                    "init": kind, "engine": "default"})
            ctx.run("vasicek_tree", {"x0": 2, "kappa": 2.0, "theta": 0.125, "sigma": 0.25, "dt": 1 / 16, "depth": 2, "n": 3, "dtype": dn,
                                     "params_as": "float", "init": kind})
            ctx.run("cir_tree", {"v0": 2, "kappa": 2.0, "theta": 0.125, "sigma": 0.5, "dt": 1 / 16, "depth": 2, "nz": 3, "nl": 3, "dtype": dn,
                                 "params_as": "float", "init": kind})
            ctx.run("merton_tree", {"s0": 100, "mu": 0.25, "sigma": 0.5, "lam": 8.0, "jm": -0.125, "js": 0.25, "dt": 1 / 16, "depth": 2,
                                    "counts": [0, 1, 2], "nz": 3, "nj": 3, "dtype": dn, "init": kind, "engine": "default"})
            ctx.run("kou_tree", {"s0": 100, "mu": 0.25, "sigma": 0.5, "lam": 8.0, "up": 0.125, "down": 0.25, "p": 0.25, "dt": 1 / 16, "depth": 2,
                                 "counts": [0, 1], "nz": 3, "nl": 2, "dtype": dn, "init": kind, "engine": "default"})
            ctx.run("localvol_tree", {"sigma_fn": "spot_dependent", "s0": 2, "dt": 1 / 16, "depth": 2, "answers": "gh3", "dtype": dn, "init": kind})
            ctx.run("heston_tree", {"s0": 100, "v0": 1, "kappa": 2.0, "theta": 1 / 16, "sigma": 0.5, "rho": -0.5, "dt": 1 / 64, "depth": 2,
                                    "nz": 3, "nl": 3, "ns": 3, "dtype": dn, "init": two})
            ctx.run("rbergomi_impulse", {"n_steps": 5, "alpha": -0.25, "rho": 0.5, "eta": 1.5, "xi": 0.0625, "s0": 100, "v0": 1, "dt": 1 / 4,
                                         "dtype": dn, "init": two})
        # instruments with integer states
        for kind in ("int_tuple", "int64_tuple"):
            ctx.run("bm_tree", {"gen": "geometric", "s0": 100, "mu": 0.25, "sigma": 0.5, "dt": 1 / 16, "depth": 2, "n": 3, "dtype": dn,
                                "init": kind, "engine": "default", "via": "instrument"})
            ctx.run("vasicek_tree", {"x0": 2, "kappa": 2.0, "theta": 0.125, "sigma": 0.25, "dt": 1 / 16, "depth": 2, "n": 3, "dtype": dn,
                                     "params_as": "float", "init": kind, "via": "instrument"})
            ctx.run("cir_tree", {"v0": 2, "kappa": 2.0, "theta": 0.125, "sigma": 0.5, "dt": 1 / 16, "depth": 2, "nz": 3, "nl": 3, "dtype": dn,
                                 "params_as": "float", "init": kind, "via": "instrument"})
            ctx.run("merton_tree", {"s0": 100, "mu": 0.25, "sigma": 0.5, "lam": 8.0, "jm": -0.125, "js": 0.25, "dt": 1 / 16, "depth": 2,
                                    "counts": [0, 1], "nz": 3, "nj": 3, "dtype": dn, "init": kind, "engine": "default", "via": "instrument"})
            ctx.run("kou_tree", {"s0": 100, "mu": 0.25, "sigma": 0.5, "lam": 8.0, "up": 0.125, "down": 0.25, "p": 0.25, "dt": 1 / 16, "depth": 2,
                                 "counts": [0, 1], "nz": 3, "nl": 2, "dtype": dn, "init": kind, "engine": "default", "via": "instrument"})
            ctx.run("localvol_tree", {"sigma_fn": "spot_dependent", "s0": 2, "dt": 1 / 16, "depth": 2, "answers": "gh3", "dtype": dn,
                                      "init": kind, "via": "instrument"})
            ctx.run("heston_tree", {"s0": 100, "v0": 1, "kappa": 2.0, "theta": 1 / 16, "sigma": 0.5, "rho": -0.5, "dt": 1 / 64, "depth": 2,
                                    "nz": 3, "nl": 3, "ns": 3, "dtype": dn, "init": kind, "via": "instrument"})
            ctx.run("rbergomi_impulse", {"n_steps": 5, "alpha": -0.25, "rho": 0.5, "eta": 1.5, "xi": 0.0625, "s0": 100, "v0": 1, "dt": 1 / 4,
                                         "dtype": dn, "init": kind, "via": "instrument"})
